import SqlfluffVerif.Driver.Proto
import SqlfluffVerif.Model.Exit
namespace SqlfluffVerif.Driver
open SqlfluffVerif SqlfluffVerif.Proto SqlfluffVerif.Exit

/-- file wire format: changed hasTree then 6 ints per violation: kind ignore warning masked hasFixes fatal -/
def parseFile (l : List Nat) : File :=
  let body := l.drop 2
  { changed := l.getD 0 0 == 1, hasTree := l.getD 1 0 == 1,
    viols := (List.range (body.length / 6)).map fun i =>
      { kind := body.getD (6 * i) 0, ignore := body.getD (6 * i + 1) 0 == 1, warning := body.getD (6 * i + 2) 0 == 1,
        masked := body.getD (6 * i + 3) 0 == 1, hasFixes := body.getD (6 * i + 4) 0 == 1, fatal := body.getD (6 * i + 5) 0 == 1 } }

def handleExit (toks : List String) : Option String :=
  match toks with
  | ["exit.eval", fixEven, nofail, skipped, skipFail, files] =>
      let fe := fixEven == "1"
      let fs := (natListList files).map parseFile
      let per := fs.map fun f =>
        let s := stdinFix fe f
        let api := match apiFix fe f with | some false => 0 | some true => 1 | none => 2
        [numViolations f, unfilteredTmpPrs f, filteredTmpPrs f, unfixableLint f, (records f).length,
         (if pathWrites fe f then 1 else 0), (if s.1 then 1 else 0), s.2, api, discardExtra f]
      some s!"{lintExit fs (nofail == "1") skipped.toNat! (skipFail == "1")} {pathsFixExit fe fs skipped.toNat! (skipFail == "1")} {showNatListList per}"
  | ["exit.skip", limit, size] => some (showBool (byteSkip limit.toNat! size.toNat!))
  | _ => none
end SqlfluffVerif.Driver
