import SqlfluffVerif.Driver.Proto
import SqlfluffVerif.Model.TreeSpec
namespace SqlfluffVerif.Driver
open SqlfluffVerif SqlfluffVerif.Proto SqlfluffVerif.TreeSpec

/-- PT wire format: pre-order flat ints: kind ts te ss se ind nChildren, children follow. -/
partial def parsePT (l : List Int) : PT × List Int :=
  match l with
  | k :: ts :: te :: ss :: se :: ind :: nc :: rest =>
    let rec kids (n : Nat) (rest : List Int) (acc : List PT) : List PT × List Int :=
      match n with
      | 0 => (acc.reverse, rest)
      | n + 1 => let (c, r) := parsePT rest; kids n r (c :: acc)
    let (ch, rest) := kids nc.toNat rest []
    (.mk k.toNat ts.toNat te.toNat ss.toNat se.toNat ind ch, rest)
  | _ => (default, [])

def handleTreeSpec (toks : List String) : Option String :=
  match toks with
  | ["tree.spec", t] =>
      let p := (parsePT (intList t)).1
      let r := specC03 100000 p
      some s!"{showBool r.1} {showBool r.2.1} {r.2.2}"
  | _ => none
end SqlfluffVerif.Driver
