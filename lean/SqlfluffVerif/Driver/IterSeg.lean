import SqlfluffVerif.Driver.Proto
import SqlfluffVerif.Model.IterSeg
namespace SqlfluffVerif.Driver
open SqlfluffVerif SqlfluffVerif.Proto SqlfluffVerif.IterSeg

/-- `iterseg.split e0 e1 lits` : lits = flat (ts,te,ss) triples of the non-zero literal slices from the one containing e0 on;
    prints the pieces as `t0,t1,s0,s1,len;…` -/
def handleIterSeg (toks : List String) : Option String :=
  match toks with
  | ["iterseg.split", e0, e1, lits] =>
      let l := natList lits
      let ls : List Lit := (List.range (l.length / 3)).map fun i => ⟨l.getD (3 * i) 0, l.getD (3 * i + 1) 0, l.getD (3 * i + 2) 0⟩
      let ps := splitWs e0.toNat! e1.toNat! 0 ls
      some (if ps.isEmpty then "~" else ";".intercalate (ps.map fun p => s!"{p.t0},{p.t1},{p.s0},{p.s1},{p.r1 - p.r0}"))
  | ["iterseg.span", e0, e1, lits] =>
      let l := natList lits
      let ls : List Lit := (List.range (l.length / 3)).map fun i => ⟨l.getD (3 * i) 0, l.getD (3 * i + 1) 0, l.getD (3 * i + 2) 0⟩
      match spanSrc e0.toNat! e1.toNat! none ls with
      | some (a, b) => some s!"{a},{b}"
      | none => some "none"
  | _ => none
end SqlfluffVerif.Driver
