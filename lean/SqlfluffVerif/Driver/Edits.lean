import SqlfluffVerif.Driver.Proto
import SqlfluffVerif.Model.Edits
namespace SqlfluffVerif.Driver
open SqlfluffVerif SqlfluffVerif.Proto SqlfluffVerif.Edits

def mkToksE (cls : List Nat) (raws : List (List Nat)) : List Tok :=
  (List.range cls.length).map fun i => ⟨cls.getD i 0, raws.getD i []⟩

def handleEdits (toks : List String) : Option String :=
  match toks with
  | ["edit.spec", c1, r1, c2, r2] =>
      let a := mkToksE (natList c1) (natListList r1)
      let b := mkToksE (natList c2) (natListList r2)
      some s!"{showBool (specC12 a b)} {showBool (specC14 a b)} {showBool (specC15 a b)}"
  | ["edit.spec15", c1, r1, f1, c2, r2, f2] =>
      let a := (mkToksE (natList c1) (natListList r1)).zip (natListList f1)
      let b := (mkToksE (natList c2) (natListList r2)).zip (natListList f2)
      some s!"{showBool (specC15F a b)}"
  | _ => none
end SqlfluffVerif.Driver
