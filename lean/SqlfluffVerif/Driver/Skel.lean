import SqlfluffVerif.Driver.Proto
import SqlfluffVerif.Model.GrammarSkel
namespace SqlfluffVerif.Driver
open SqlfluffVerif SqlfluffVerif.Proto SqlfluffVerif.Skel

/-- prefix code: 0 s c = ind (s=1: +1, s=0: -1) · 1 leaf · 2 ref · 3 opt n · 4 k n1..nk seq · 5 k … alt · 6 k … rep -/
def parseSkel : Nat → List Nat → Option (Node × List Nat)
  | 0, _ => none
  | _ + 1, [] => none
  | f + 1, t :: rest =>
    let many (k : Nat) (r : List Nat) : Option (List Node × List Nat) :=
      (List.range k).foldl (fun acc _ => match acc with
        | some (ns, r') => (parseSkel f r').map fun (n, r'') => (ns ++ [n], r'')
        | none => none) (some ([], r))
    match t with
    | 0 => match rest with | s :: c :: r => some (.ind (if s == 1 then 1 else -1) c, r) | _ => none
    | 1 => some (.leaf, rest)
    | 2 => some (.ref, rest)
    | 3 => (parseSkel f rest).map fun (n, r) => (.opt n, r)
    | 4 => match rest with | k :: r => (many k r).map fun (ns, r') => (.seq ns, r') | [] => none
    | 5 => match rest with | k :: r => (many k r).map fun (ns, r') => (.alt ns, r') | [] => none
    | 6 => match rest with | k :: r => (many k r).map fun (ns, r') => (.rep ns, r') | [] => none
    | _ => none

/-- `skel.vecs <code>` prints `none` or the vectors, each as its non-zero components `c:v`, sorted text, `;`-separated (`0` for the zero vector) -/
def handleSkel (toks : List String) : Option String :=
  match toks with
  | ["skel.vecs", code] =>
      match parseSkel 60 (natList code) with
      | some (n, []) => match vecs 40 n with
        | none => some "none"
        | some s =>
          let showV (w : Vec) : String :=
            let comps := (List.range K).filterMap fun i => let v := w.getD i 0; if v == 0 then none else some s!"{i}:{v}"
            if comps.isEmpty then "0" else ",".intercalate comps
          some (";".intercalate (s.map showV))
      | _ => some "bad"
  | _ => none
end SqlfluffVerif.Driver
