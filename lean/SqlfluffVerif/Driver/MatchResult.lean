import SqlfluffVerif.Driver.Proto
import SqlfluffVerif.Model.MatchResult
namespace SqlfluffVerif.Driver
open SqlfluffVerif SqlfluffVerif.Proto SqlfluffVerif.MatchResult

/-- MR wire format: pre-order list of nodes, each `start stop cls(0=none,else id+1) nIns nCh` followed by
    `nIns` pairs `idx kind`; children follow recursively. All as one flat nat list. -/
partial def parseMR (l : List Nat) : MR × List Nat :=
  match l with
  | s :: e :: c :: ni :: nc :: rest =>
    let insFlat := rest.take (2 * ni)
    let rest := rest.drop (2 * ni)
    let ins := (List.range ni).map (fun k => (insFlat.getD (2 * k) 0, insFlat.getD (2 * k + 1) 0))
    let rec kids (k : Nat) (rest : List Nat) (acc : List MR) : List MR × List Nat :=
      match k with
      | 0 => (acc.reverse, rest)
      | k + 1 => let (m, r) := parseMR rest; kids k r (m :: acc)
    let (ch, rest) := kids nc rest []
    (.mk s e (if c = 0 then none else some (c - 1)) ins ch, rest)
  | _ => (.mk 0 0 none [] [], [])

/-- Tree wire format: `t<i>` token, `m<kind>@<pos>` insert, `(<cls> ... )` node. -/
partial def showTree : Tree → String
  | .tok i => s!"t{i}"
  | .ins k p => s!"m{k}@{p}"
  | .node c ch => s!"({c}" ++ String.join (ch.map (fun t => " " ++ showTree t)) ++ ")"

def showTrees (ts : List Tree) : String := " ".intercalate (ts.map showTree)

def showErr : Err → String
  | .fuel => "err:fuel"
  | _ => "err"

partial def showMR (m : MR) : List Nat :=
  match m with
  | .mk s e c ins ch =>
    [s, e, (match c with | none => 0 | some x => x + 1), ins.length, ch.length] ++
      (ins.map (fun i => [i.1, i.2])).flatten ++ (ch.map showMR).flatten

def handleMR (toks : List String) : Option String :=
  match toks with
  | ["mr.apply", n, mr] =>
      let m := (parseMR (natList mr)).1
      match MatchResult.apply n.toNat! m with
      | .ok ts => some (if ts.isEmpty then "ok" else "ok " ++ showTrees ts)
      | .error e => some (showErr e)
  | ["mr.wf", n, mr] =>
      let m := (parseMR (natList mr)).1
      some (showBool (wf n.toNat! m))
  | ["mr.leaves", n, mr] =>
      let m := (parseMR (natList mr)).1
      match MatchResult.apply n.toNat! m with
      | .ok ts => some (showNatList (leavesL ts))
      | .error e => some (showErr e)
  | ["mr.append", a, b, extra] =>
      let ex := natList extra
      let exPairs := (List.range (ex.length / 2)).map (fun k => (ex.getD (2 * k) 0, ex.getD (2 * k + 1) 0))
      match MatchResult.append (parseMR (natList a)).1 (parseMR (natList b)).1 exPairs with
      | .ok m => some (showNatList (showMR m))
      | .error e => some (showErr e)
  | ["mr.wrap", a, cls, extra] =>
      let ex := natList extra
      let exPairs := (List.range (ex.length / 2)).map (fun k => (ex.getD (2 * k) 0, ex.getD (2 * k + 1) 0))
      match MatchResult.wrap (parseMR (natList a)).1 cls.toNat! exPairs with
      | .ok m => some (showNatList (showMR m))
      | .error e => some (showErr e)
  | ["mr.root", codes, mr] =>
      let m := (parseMR (natList mr)).1
      match rootParse ((natList codes).map (· == 1)) m with
      | .ok t => some ("ok " ++ showTree t)
      | .error e => some (showErr e)
  | _ => none
end SqlfluffVerif.Driver
