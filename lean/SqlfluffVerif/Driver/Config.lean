import SqlfluffVerif.Driver.Proto
import SqlfluffVerif.Driver.Noqa
import SqlfluffVerif.Model.Config
namespace SqlfluffVerif.Driver
open SqlfluffVerif SqlfluffVerif.Proto SqlfluffVerif.Config

/-- entries: nnl of `[value, path…]`; layers given by sizes -/
def handleConfig (toks : List String) : Option String :=
  match toks with
  | ["cfg.combine", sizes, entries] =>
      let es : List (Path × Nat) := (natListList entries).map (fun e => (e.drop 1, e.headD 0))
      let layers := splitSizesN es (natList sizes)
      match combineAll layers with
      | .error _ => some "err"
      | .ok l =>
        -- canonical: every distinct path with its effective value, sorted by first occurrence
        let paths := (l.map (·.1)).eraseDups
        some ("ok " ++ showNatListList (paths.map (fun p => (lookup p l).getD 0 :: p)))
  | _ => none
end SqlfluffVerif.Driver
