import SqlfluffVerif.Driver.Proto
import SqlfluffVerif.Model.Funnel
namespace SqlfluffVerif.Driver
open SqlfluffVerif SqlfluffVerif.Proto SqlfluffVerif.Funnel

def excOf (n : Nat) : Exc := match n with
  | 1 => .templater | 2 => .skipFile | 3 => .lexErr | 4 => .parseErr | _ => .other

def stageOf (n : Nat) : Except Exc (List Viol) := if n == 0 then .ok [] else .error (excOf n)

def showViol : Viol → String
  | .TMP => "TMP" | .LXR => "LXR" | .PRS => "PRS" | .internal r => s!"I{r}" | .lint r => s!"L{r}"

/-- `funnel.lint maxNodes render lex nTokens parse rules` (0 = returns normally, 1..5 = raises that class);
    prints `ok <violations>` or `raise <class>` -/
def handleFunnel (toks : List String) : Option String :=
  match toks with
  | ["funnel.lint", maxNodes, render, lex, nTokens, parse, rules] =>
      let rl := natList rules
      let e : Env := ⟨stageOf render.toNat!, stageOf lex.toNat!, nTokens.toNat!, stageOf parse.toNat!,
        (List.range rl.length).map fun i => (i, stageOf (rl.getD i 0))⟩
      match lintFile maxNodes.toNat! e with
      | .ok vs => some ("ok " ++ (if vs.isEmpty then "-" else ",".intercalate (vs.map showViol)))
      | .error x => some ("raise " ++ (match x with
          | .templater => "1" | .skipFile => "2" | .lexErr => "3" | .parseErr => "4" | .other => "5"))
  | ["funnel.descend", limit, n] =>
      match descend limit.toNat! 0 n.toNat! with
      | .ok d => some s!"ok {d}"
      | .error _ => some "PRS"
  | _ => none
end SqlfluffVerif.Driver
