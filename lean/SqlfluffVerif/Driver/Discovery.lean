import SqlfluffVerif.Driver.Proto
import SqlfluffVerif.Model.Discovery
namespace SqlfluffVerif.Driver
open SqlfluffVerif SqlfluffVerif.Proto SqlfluffVerif.Discovery

/-- node wire format: file `0 name ext` ; dir `1 name nSpecs specs… nChildren children…` -/
partial def parseNode (l : List Nat) : Node × List Nat :=
  match l with
  | 0 :: name :: ext :: rest => (.file name (ext == 1), rest)
  | 1 :: name :: ns :: rest =>
    let specs := rest.take ns
    let rest := rest.drop ns
    match rest with
    | nc :: rest =>
      let rec kids (k : Nat) (rest : List Nat) (acc : List Node) : List Node × List Nat :=
        match k with
        | 0 => (acc.reverse, rest)
        | k + 1 => let (c, r) := parseNode rest; kids k r (c :: acc)
      let (ch, rest) := kids nc rest []
      (.dir name specs ch, rest)
    | [] => (.dir name specs [], [])
  | _ => (default, [])

partial def parseNodes (l : List Nat) (acc : List Node) : List Node :=
  if l.isEmpty then acc.reverse else let (n, r) := parseNode l; parseNodes r (n :: acc)

def handleDiscovery (toks : List String) : Option String :=
  match toks with
  -- table: entries `specId isDir path…` that match; outer: entries `specId path-to-root…`
  | ["disc.walk", nodes, rootSpecs, outer, table] =>
      let tbl := natListList table
      let m : Nat → Path → Bool → Bool := fun s p d =>
        tbl.any (fun e => e.getD 0 0 == s && (e.getD 1 0 == 1) == d && e.drop 2 == p)
      let outerA : List Active := (natListList outer).map (fun e => ⟨e.getD 0 0, e.drop 1⟩)
      let res := pathsFromDir m outerA (natList rootSpecs) (parseNodes (natList nodes) [])
      some (showNatListList res)
  | _ => none
end SqlfluffVerif.Driver
