import SqlfluffVerif.Driver.Proto
import SqlfluffVerif.Model.Shared
namespace SqlfluffVerif.Driver
open SqlfluffVerif SqlfluffVerif.Proto SqlfluffVerif.Shared

def showRef (m : RefMap) : String :=
  if m.isEmpty then "~" else ";".intercalate (m.map fun e => toString e.1 ++ ":" ++ showNatList e.2)

/-- `shared.allowed keys vals globkeys n` : the shared map (keys, value lists), the keys the patterns match, and how many
    earlier calls happened on the same shared map; prints the returned noqa map and the shared map afterwards.
    `shared.ids starts stops pre_starts pre_stops` : block ids (renamed by first occurrence) after earlier files' blocks. -/
def handleShared (toks : List String) : Option String :=
  match toks with
  | ["shared.allowed", keys, vals, globkeys, n] =>
      let ks := natList keys
      let vs := natListList vals
      let m : RefMap := (List.range ks.length).map fun i => (ks.getD i 0, vs.getD i [])
      let g := natList globkeys
      let r := allowedAfter m (fun k => g.contains k) n.toNat!
      some (showRef r.1 ++ " " ++ showRef r.2)
  | ["shared.ids", starts, stops, pstarts, pstops] =>
      let mk (a b : String) := (natList a).zip (natList b)
      let pre := (BT.ids {} (mk pstarts pstops)).2
      let ids := (BT.ids pre (mk starts stops)).1
      -- rename by first occurrence
      let ren := ids.foldl (fun (acc : List Nat × List Nat) i =>
        match acc.1.idxOf? i with
        | some j => (acc.1, acc.2 ++ [j])
        | none => (acc.1 ++ [i], acc.2 ++ [acc.1.length])) ([], [])
      some (showNatList ren.2)
  | _ => none
end SqlfluffVerif.Driver
