import SqlfluffVerif.Driver.Proto
import SqlfluffVerif.Model.Sql3VL
namespace SqlfluffVerif.Driver
open SqlfluffVerif SqlfluffVerif.Proto SqlfluffVerif.Sql3VL

/-- `sql.eval <prefix code> <row>` : row = ints, a value ≥ 1000000 means NULL; prints the value or `NULL` or `bad` -/
def handleSql (toks : List String) : Option String :=
  match toks with
  | ["sql.eval", code, row] =>
      let r := intList row
      let env : Nat → V := fun i => match r[i]? with
        | some v => if v ≥ 1000000 then none else some v
        | none => none
      match parse 200 (natList code) with
      | some (e, []) => match eval env e with
        | some v => some (toString v)
        | none => some "NULL"
      | _ => some "bad"
  | _ => none
end SqlfluffVerif.Driver
