import SqlfluffVerif.Driver.Proto
import SqlfluffVerif.Model.Serialise
namespace SqlfluffVerif.Driver
open SqlfluffVerif SqlfluffVerif.Proto SqlfluffVerif.Serialise

/-- Seg wire format (pre-order): ty isCode isMeta rawLen raw… nChildren children… -/
partial def parseSeg (l : List Nat) : Seg × List Nat :=
  match l with
  | ty :: c :: m :: n :: rest =>
    let raw := rest.take n
    let rest := rest.drop n
    match rest with
    | nc :: rest =>
      let rec kids (k : Nat) (rest : List Nat) (acc : List Seg) : List Seg × List Nat :=
        match k with
        | 0 => (acc.reverse, rest)
        | k + 1 => let (s, r) := parseSeg rest; kids k r (s :: acc)
      let (ch, rest) := kids nc rest []
      (.mk ty raw (c == 1) (m == 1) ch, rest)
    | [] => (.mk ty raw (c == 1) (m == 1) [], [])
  | _ => (default, [])

mutual
partial def showVal : Val → String
  | .str v => "s" ++ showNatList v
  | .null => "n"
  | .dict es => "{" ++ ",".intercalate (es.map (fun e => s!"{e.1}:{showVal e.2}")) ++ "}"
  | .arr items => "[" ++ ",".intercalate (items.map showRec) ++ "]"
partial def showRec (r : Rec) : String :=
  "{" ++ ",".intercalate (r.map (fun e => s!"{e.1}:{showVal e.2}")) ++ "}"
end

def handleSerialise (toks : List String) : Option String :=
  match toks with
  | ["ser.record", codeOnly, showRaw, includeMeta, pos, seg] =>
      let s := (parseSeg (natList seg)).1
      some (showRec (asRecord (codeOnly == "1") (showRaw == "1") (includeMeta == "1") (pos == "1") 100000 s))
  | _ => none
end SqlfluffVerif.Driver
