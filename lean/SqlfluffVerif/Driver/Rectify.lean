import SqlfluffVerif.Driver.Proto
import SqlfluffVerif.Model.Rectify
namespace SqlfluffVerif.Driver
open SqlfluffVerif SqlfluffVerif.Proto SqlfluffVerif.Rectify

/-- `rectify <deltas: idx,d,…> <slices: a,b,…>` (deltas already sorted by idx) prints the rectified `a,b,…` -/
def handleRectify (toks : List String) : Option String :=
  match toks with
  | ["rectify", ds, sl] =>
      let pairs (l : List Int) : List (Int × Int) := (List.range (l.length / 2)).map fun i => (l.getD (2 * i) 0, l.getD (2 * i + 1) 0)
      let r := rectify 0 (pairs (intList ds)) (pairs (intList sl))
      some (showIntList (r.flatMap fun p => [p.1, p.2]))
  | _ => none
end SqlfluffVerif.Driver
