import SqlfluffVerif.Driver.Proto
import SqlfluffVerif.Driver.Noqa
import SqlfluffVerif.Model.Select
namespace SqlfluffVerif.Driver
open SqlfluffVerif SqlfluffVerif.Proto SqlfluffVerif.Select

/-- manifests: codes names (nnl) ; groups/aliases flattened with sizes -/
def mkManifests (codes names : List (List Nat)) (gsz : List Nat) (gs : List (List Nat))
    (asz : List Nat) (as : List (List Nat)) : List Manifest :=
  let gg := splitSizesN gs gsz
  let aa := splitSizesN as asz
  (List.range codes.length).map fun i =>
    { code := codes.getD i [], name := names.getD i [], groups := gg.getD i [], aliases := aa.getD i [] }

def showRefMap (m : RefMap) : String :=
  -- key1;key2 … | sizes | values
  s!"{showNatListList (m.map (·.1))} {showNatList (m.map (·.2.length))} {showNatListList (m.map (·.2)).flatten}"

def handleSelect (toks : List String) : Option String :=
  match toks with
  | ["select.refmap", codes, names, gsz, gs, asz, as] =>
      let ms := mkManifests (natListList codes) (natListList names) (natList gsz) (natListList gs) (natList asz) (natListList as)
      some (showRefMap (referenceMap ms))
  | ["select.select", codes, names, gsz, gs, asz, as, allow, deny] =>
      let ms := mkManifests (natListList codes) (natListList names) (natList gsz) (natListList gs) (natList asz) (natListList as)
      some (showNatListList (select ms (splitComma (natList allow)) (splitComma (natList deny))))
  | ["select.split", s] => some (showNatListList (splitComma (natList s)))
  | _ => none
end SqlfluffVerif.Driver
