import SqlfluffVerif.Driver.Proto
import SqlfluffVerif.Driver.Noqa
import SqlfluffVerif.Model.Placeholder
import SqlfluffVerif.Model.PyFormat
import SqlfluffVerif.Model.Jinja
namespace SqlfluffVerif.Driver
open SqlfluffVerif SqlfluffVerif.Proto SqlfluffVerif.Slices SqlfluffVerif.Placeholder

def mkTSlices (l : List Nat) : List TSlice :=
  (List.range (l.length / 5)).map fun i =>
    ⟨l.getD (5 * i) 0, l.getD (5 * i + 1) 0, l.getD (5 * i + 2) 0, l.getD (5 * i + 3) 0, l.getD (5 * i + 4) 0⟩

def mkRSlices (tys idxs : List Nat) (raws : List (List Nat)) : List RSlice :=
  (List.range tys.length).map fun i => ⟨raws.getD i [], tys.getD i 0, idxs.getD i 0⟩

def showTSlices (sl : List TSlice) : String :=
  showNatList (sl.map (fun t => [t.ty, t.ss, t.se, t.ts, t.te])).flatten

def handleSlices (toks : List String) : Option String :=
  match toks with
  | ["slices.consistent", src, tmpl, rtys, ridx, rraws, sl] =>
      let v := consistent (natList src) (natList tmpl) (mkRSlices (natList rtys) (natList ridx) (natListList rraws)) (mkTSlices (natList sl))
      some s!"{showBool v.rawTiles} {showBool v.tmplTiles} {showBool v.inBounds} {showBool v.literals}"
  -- matches: flat a b hasName hasQuot ; names and quots as nnl (one entry per match, `-` when absent)
  | ["ph.process", src, ckeys, cvals, mflat, names, quots] =>
      let ctx := (natListList ckeys).zip (natListList cvals)
      let mf := natList mflat
      let ns := natListList names
      let qs := natListList quots
      let ms : List Found := (List.range (mf.length / 4)).map fun i =>
        { a := mf.getD (4 * i) 0, b := mf.getD (4 * i + 1) 0,
          name := if mf.getD (4 * i + 2) 0 = 1 then some (ns.getD i []) else none,
          quot := if mf.getD (4 * i + 3) 0 = 1 then some (qs.getD i []) else none }
      let r := process (natList src) ctx ms
      some s!"{showBool (spansOK (natList src).length 0 ms)} {showNatList r.1} {showTSlices r.2.1} {showNatList (r.2.2.map (·.ty))} {showNatList (r.2.2.map (·.idx))} {showNatListList (r.2.2.map (·.raw))}"
  | ["jinja.fast", mp, m, lp, src] => some (showBool (Jinja.fastPath ⟨mp == "1", m == "1", lp == "1"⟩ (natList src)))
  | ["py.dotrewrite", src] => some (showNatList (PyFormat.dotRewrite (natList src)))
  | _ => none
end SqlfluffVerif.Driver
