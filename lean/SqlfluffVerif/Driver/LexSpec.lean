import SqlfluffVerif.Driver.Proto
import SqlfluffVerif.Model.LexSpec
namespace SqlfluffVerif.Driver
open SqlfluffVerif SqlfluffVerif.Proto SqlfluffVerif.LexSpec

def mkToks (l : List Nat) : List Tok :=
  (List.range (l.length / 6)).map fun i =>
    { cls := l.getD (6 * i) 0, rawLen := l.getD (6 * i + 1) 0, ts := l.getD (6 * i + 2) 0, te := l.getD (6 * i + 3) 0,
      ss := l.getD (6 * i + 4) 0, se := l.getD (6 * i + 5) 0 }

def handleLexSpec (toks : List String) : Option String :=
  match toks with
  | ["lexspec", srcLen, tmplLen, templated, nErrs, flat] =>
      let v := specC01 srcLen.toNat! tmplLen.toNat! (templated == "1") (mkToks (natList flat)) nErrs.toNat!
      some s!"{showBool v.tiles} {showBool v.inBounds} {showBool v.monotone} {showBool v.rawIdentity} {showBool v.covered} {showBool v.errs}"
  | _ => none
end SqlfluffVerif.Driver
