import SqlfluffVerif.Driver.Proto
import SqlfluffVerif.Model.TemplateGuard
namespace SqlfluffVerif.Driver
open SqlfluffVerif SqlfluffVerif.Proto SqlfluffVerif.Guard SqlfluffVerif.Patch

/-- `guard.generate rs starts stops cats raws` : rs = flat (idx,len,lit) triples; prints the kept patches in output order
    as `start,stop,cat;…` and, after a space, the per-patch `spanning` sizes (ties the two while loops). -/
def handleGuard (toks : List String) : Option String :=
  match toks with
  | ["guard.generate", rsS, startsS, stopsS, catsS, rawsS] =>
      let rl := natList rsS
      let rs : List RawSlice := (List.range (rl.length / 3)).map fun i =>
        ⟨rl.getD (3 * i) 0, rl.getD (3 * i + 1) 0, rl.getD (3 * i + 2) 0 == 1⟩
      let st := natList startsS
      let sp := natList stopsS
      let ct := natList catsS
      let rw := natListList rawsS
      let ps : List Patch := (List.range st.length).map fun i => ⟨st.getD i 0, sp.getD i 0, rw.getD i [], ct.getD i 0⟩
      let out := generate rs ps
      let spans := ps.map fun p => (spanning rs p.start p.stop).length
      some (showNatListList (out.map fun p => [p.start, p.stop, p.cat]) ++ " " ++ showNatList spans)
  | _ => none
end SqlfluffVerif.Driver
