/-! Line-protocol helpers for the model driver (core Lean only).

A line is a list of space-separated tokens. A token is
  * a natural number in decimal, or
  * a list of naturals: `-` (empty) or comma-separated decimals (a string is its code points), or
  * a list of lists: `~` (empty) or `;`-separated lists (each `-` or comma-separated).
Output is one line per input line. -/
namespace SqlfluffVerif.Proto

def natList (s : String) : List Nat :=
  if s = "-" then [] else (s.splitOn ",").map (fun t => t.toNat!)

def natListList (s : String) : List (List Nat) :=
  if s = "~" then [] else (s.splitOn ";").map natList

def showNatList (l : List Nat) : String :=
  if l.isEmpty then "-" else ",".intercalate (l.map toString)

def showNatListList (l : List (List Nat)) : String :=
  if l.isEmpty then "~" else ";".intercalate (l.map showNatList)

def intOfString (s : String) : Int :=
  if s.startsWith "-" then - ((s.drop 1).toNat! : Int) else (s.toNat! : Int)

def intList (s : String) : List Int :=
  if s = "-" then [] else (s.splitOn ",").map intOfString

def showIntList (l : List Int) : String :=
  if l.isEmpty then "-" else ",".intercalate (l.map toString)

def showBool (b : Bool) : String := if b then "1" else "0"
def boolOf (s : String) : Bool := s = "1"

end SqlfluffVerif.Proto
