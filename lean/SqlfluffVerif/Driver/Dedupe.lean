import SqlfluffVerif.Driver.Proto
import SqlfluffVerif.Model.Dedupe
namespace SqlfluffVerif.Driver
open SqlfluffVerif SqlfluffVerif.Proto SqlfluffVerif.Dedupe

def mkViols (sigs lines poss codes : List Nat) : List Viol :=
  (List.range sigs.length).map fun i =>
    { sig := sigs.getD i 0, line := lines.getD i 0, pos := poss.getD i 0, code := codes.getD i 0, uid := i }

def handleDedupe (toks : List String) : Option String :=
  match toks with
  | ["dedupe.sort", sigs, lines, poss, codes] =>
      let vs := mkViols (natList sigs) (natList lines) (natList poss) (natList codes)
      some (showNatList ((dedupeSort vs).map (·.uid)))
  | ["dedupe.records", sigs, lines, poss, codes] =>
      let vs := mkViols (natList sigs) (natList lines) (natList poss) (natList codes)
      some (showNatList ((recordSort vs).map (·.uid)))
  -- spec: is the given output (as uids into the input) duplicate-free by signature, sorted by
  -- (line,pos), drawn from the input and covering every input signature?
  | ["dedupe.spec", sigs, lines, poss, codes, outUids] =>
      let vs := mkViols (natList sigs) (natList lines) (natList poss) (natList codes)
      let out := (natList outUids).filterMap (fun u => vs[u]?)
      let okLen := out.length == (natList outUids).length
      let nodup := (out.map (·.sig)).eraseDups.length == out.length
      let sorted := (out.zip (out.drop 1)).all (fun (a, b) => posLe a b)
      let covers := vs.all (fun v => out.any (fun w => w.sig == v.sig))
      some s!"{showBool okLen} {showBool nodup} {showBool sorted} {showBool covers}"
  | _ => none
end SqlfluffVerif.Driver
