import SqlfluffVerif.Driver.Proto
import SqlfluffVerif.Model.WritePath
namespace SqlfluffVerif.Driver
open SqlfluffVerif SqlfluffVerif.Proto SqlfluffVerif.WritePath

/-- contents are abstract: old = [1], orig input = [3], new = [2] -/
def handleWritePath (toks : List String) : Option String :=
  match toks with
  | ["wp.run", targetExists, targetMode, suffix, inputMode, faultKind, step] =>
      let tgt : Option (Bytes × Nat) := if targetExists == "1" then some ([1], targetMode.toNat!) else none
      let inp : Option (Bytes × Nat) := if suffix == "1" then some ([3], inputMode.toNat!) else none
      let fault := if faultKind == "0" then Fault.none else if faultKind == "1" then Fault.exc step.toNat! else Fault.death step.toNat!
      let r := safeReplace { target := tgt, input := inp, tmp := none } [2] fault
      let showF : Option (Bytes × Nat) → String := fun o => match o with
        | none => "none"
        | some (c, m) => s!"{c.headD 0}:{m}"
      let oc := match r.2 with | .ok => "ok" | .raised => "raised" | .died => "died"
      some s!"{showF r.1.target} {showF r.1.input} {showF r.1.tmp} {oc}"
  | _ => none
end SqlfluffVerif.Driver
