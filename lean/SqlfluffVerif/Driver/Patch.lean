import SqlfluffVerif.Driver.Proto
import SqlfluffVerif.Model.Patch
namespace SqlfluffVerif.Driver
open SqlfluffVerif SqlfluffVerif.Proto SqlfluffVerif.Patch

def mkPatches (starts stops : List Nat) (raws : List (List Nat)) (cats : List Nat) : List Patch :=
  (List.range starts.length).map fun i =>
    { start := starts.getD i 0, stop := stops.getD i 0, raw := raws.getD i [], cat := cats.getD i 0 }

def showPatches (ps : List Patch) : String :=
  s!"{showNatList (ps.map (·.start))} {showNatList (ps.map (·.stop))} {showNatListList (ps.map (·.raw))} {showNatList (ps.map (·.cat))}"

def mkSlices (a b : List Nat) : List Slice := a.zip b

/-- split a flat patch list into buffers of the given sizes -/
def splitSizes {α} (l : List α) : List Nat → List (List α)
  | [] => []
  | n :: ns => l.take n :: splitSizes (l.drop n) ns

def handlePatch (toks : List String) : Option String :=
  match toks with
  | ["patch.conflict", a0, a1, ar, b0, b1, br] =>
      some (showBool (conflict { start := a0.toNat!, stop := a1.toNat!, raw := natList ar }
                               { start := b0.toNat!, stop := b1.toNat!, raw := natList br }))
  | ["patch.merge", sizes, starts, stops, raws, cats] =>
      let ps := mkPatches (natList starts) (natList stops) (natListList raws) (natList cats)
      some (showPatches (mergePatches (splitSizes ps (natList sizes))))
  | ["patch.slice", n, starts, stops, raws, cats, so0, so1] =>
      let ps := mkPatches (natList starts) (natList stops) (natListList raws) (natList cats)
      let sl := sliceFile ps (mkSlices (natList so0) (natList so1)) n.toNat!
      some s!"{showNatList (sl.map (·.1))} {showNatList (sl.map (·.2))}"
  | ["patch.apply", src, starts, stops, raws, cats, so0, so1] =>
      let ps := mkPatches (natList starts) (natList stops) (natListList raws) (natList cats)
      some (showNatList (applyPatches (natList src) ps (mkSlices (natList so0) (natList so1))))
  | ["patch.fix", src, sizes, starts, stops, raws, cats, so0, so1] =>
      let ps := mkPatches (natList starts) (natList stops) (natListList raws) (natList cats)
      some (showNatList (fixString (natList src) (splitSizes ps (natList sizes)) (mkSlices (natList so0) (natList so1))))
  -- spec side: accepted patches and their splice, plus the chain check
  | ["patch.spec", src, starts, stops, raws, cats] =>
      let ps := mkPatches (natList starts) (natList stops) (natListList raws) (natList cats)
      let acc := accepted 0 ps
      some s!"{showNatList (spliceAll (natList src) 0 acc)} {showPatches acc}"
  | _ => none
end SqlfluffVerif.Driver
