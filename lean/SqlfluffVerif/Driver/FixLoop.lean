import SqlfluffVerif.Driver.Proto
import SqlfluffVerif.Model.FixLoop
namespace SqlfluffVerif.Driver
open SqlfluffVerif SqlfluffVerif.Proto SqlfluffVerif.FixLoop

def handleFixLoop (toks : List String) : Option String :=
  match toks with
  | ["fixloop.run", limit, t0, rules, propose, apply, conflicting] =>
      let rl := natList rules
      let rs : List Rule := (List.range (rl.length / 3)).map fun i =>
        ⟨rl.getD (3 * i) 0, rl.getD (3 * i + 1) 0 == 1, rl.getD (3 * i + 2) 0 == 1⟩
      let pl := natList propose
      let ptab : List (Nat × Nat × Nat) := (List.range (pl.length / 3)).map fun i =>
        (pl.getD (3 * i) 0, pl.getD (3 * i + 1) 0, pl.getD (3 * i + 2) 0)
      let al := natList apply
      let atab : List (Nat × Nat × Nat × Nat) := (List.range (al.length / 4)).map fun i =>
        (al.getD (4 * i) 0, al.getD (4 * i + 1) 0, al.getD (4 * i + 2) 0, al.getD (4 * i + 3) 0)
      let confl := natList conflicting
      let sys : Sys :=
        { propose := fun r t => (ptab.find? (fun e => e.1 == r && e.2.1 == t)).map (·.2.2),
          applyF := fun t fx => match atab.find? (fun e => e.1 == t && e.2.1 == fx) with
            | some e => (e.2.2.1, e.2.2.2 == 1)
            | none => (t, true),
          conflicting := fun fx => confl.contains fx }
      let r := fixLoop sys rs limit.toNat! t0.toNat!
      some s!"{r.1} {showBool r.2}"
  | _ => none
end SqlfluffVerif.Driver
