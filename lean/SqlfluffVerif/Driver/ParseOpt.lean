import SqlfluffVerif.Driver.Proto
import SqlfluffVerif.Model.ParseOpt
namespace SqlfluffVerif.Driver
open SqlfluffVerif SqlfluffVerif.Proto SqlfluffVerif.ParseOpt

/-- `popt.longest room hasTerms lens inss keeps terms` : per-option match length, insert flag, keep flag (prune) and
    "a terminator matches after this option's match"; prints `len ins matcher|-` for the pruned run. -/
def handleParseOpt (toks : List String) : Option String :=
  match toks with
  | ["popt.longest", room, hasTerms, lens, inss, keeps, terms] =>
      let ls := natList lens
      let is := natList inss
      let ks := natList keeps
      let ts := natList terms
      let m : Nat → Res := fun o => ⟨ls.getD o 0, is.getD o 0 == 1, o + 1⟩
      let term : Res → Bool := fun r => ts.getD (r.tag - 1) 0 == 1
      let r := longestPruned m term (hasTerms == "1") room.toNat! (fun o => ks.getD o 0 == 1) (List.range ls.length)
      let mm := match r.2 with | some o => toString o | none => "-"
      some s!"{r.1.len} {showBool r.1.ins} {mm}"
  | _ => none
end SqlfluffVerif.Driver
