import SqlfluffVerif.Driver.Proto
import SqlfluffVerif.Model.Pos
namespace SqlfluffVerif.Driver
open SqlfluffVerif SqlfluffVerif.Proto

def handlePos (toks : List String) : Option String :=
  match toks with
  | ["pos.linepos", s, p] =>
      let r := Pos.linePos (natList s) p.toNat!
      some s!"{r.1} {r.2}"
  | ["pos.nls", s] => some (showNatList (Pos.newlineIndices (natList s)))
  | ["pos.infer", raw, l, c] =>
      let r := Pos.inferNext (natList raw) l.toNat! c.toNat!
      some s!"{r.1} {r.2}"
  | ["pos.walk", s, p] =>
      let r := Pos.walk ((natList s).take p.toNat!) (1, 1)
      some s!"{r.1} {r.2}"
  | _ => none
end SqlfluffVerif.Driver
