import SqlfluffVerif.Driver.Proto
import SqlfluffVerif.Model.Noqa
namespace SqlfluffVerif.Driver
open SqlfluffVerif SqlfluffVerif.Proto SqlfluffVerif.Noqa

def splitSizesN {α} (l : List α) : List Nat → List (List α)
  | [] => []
  | n :: ns => l.take n :: splitSizesN (l.drop n) ns

def mkDirs (lines actions has : List Nat) (rules : List (List Nat)) : List Dir :=
  (List.range lines.length).map fun i =>
    { uid := i, line := lines.getD i 0, action := actions.getD i 0,
      rules := if has.getD i 0 = 1 then some (rules.getD i []) else none }

def mkVs (lines codes : List Nat) : List V :=
  (List.range lines.length).map fun i => { vid := i, line := lines.getD i 0, code := codes.getD i 0 }

def handleNoqa (toks : List String) : Option String :=
  match toks with
  | ["noqa.mask", dl, da, dh, dr, vl, vc] =>
      let ds := mkDirs (natList dl) (natList da) (natList dh) (natListList dr)
      let vs := mkVs (natList vl) (natList vc)
      let r := ignoreMasked ds vs
      let marks := (List.range ds.length).filter (fun u => r.1.contains u)
      let hid := (vs.filter (fun v => hidden ds v)).map (·.vid)
      some s!"{showNatList marks} {showNatList (r.2.map (·.vid))} {showNatList hid}"
  | ["glob.match", pat, s] => some (showBool (Glob.fnmatch (natList pat) (natList s)))
  | ["noqa.parse", comment, keys, sizes, vals] =>
      let ks := natListList keys
      let vs := splitSizesN (natListList vals) (natList sizes)
      let refMap := ks.zip vs
      match parseNoqa (natList comment) refMap with
      | Parsed.none => some "none"
      | Parsed.err k => some s!"err {k}"
      | Parsed.dir rules action raw =>
        match rules with
        | none => some s!"dir {action} 0 ~ {showNatList raw}"
        | some rs => some s!"dir {action} 1 {showNatListList rs} {showNatList raw}"
  | _ => none
end SqlfluffVerif.Driver
