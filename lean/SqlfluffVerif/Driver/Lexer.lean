import SqlfluffVerif.Driver.Proto
import SqlfluffVerif.Model.Lexer
namespace SqlfluffVerif.Driver
open SqlfluffVerif SqlfluffVerif.Proto SqlfluffVerif.Lexer

/-- pattern wire format: kind (0 lit, 1 class, 2 negated class), n, chars… ; returns (pat, rest) -/
def parsePat (l : List Nat) : Pat × List Nat :=
  match l with
  | k :: n :: rest =>
    let cs := rest.take n
    (if k = 0 then Pat.lit cs else Pat.cls (k == 2) cs, rest.drop n)
  | _ => (Pat.lit [], [])

def parseOptSub (l : List Nat) : Option (Nat × Pat) × List Nat :=
  match l with
  | 0 :: rest => (none, rest)
  | _ :: nm :: rest => let (p, r) := parsePat rest; (some (nm, p), r)
  | _ => (none, [])

/-- matcher wire format: name, pat, optSub, optTrim -/
def parseMatcher (l : List Nat) : Matcher :=
  match l with
  | nm :: rest =>
    let (p, r1) := parsePat rest
    let (sub, r2) := parseOptSub r1
    let (trim, _) := parseOptSub r2
    p.matcher nm sub trim
  | _ => (Pat.lit []).matcher 0 none none

def showElems (es : List Elem) : String :=
  s!"{showNatList (es.map (·.name))} {showNatListList (es.map (·.raw))}"

def handleLexer (toks : List String) : Option String :=
  match toks with
  | ["lex.run", ms, lr, s] =>
      let matchers := (natListList ms).map parseMatcher
      let lrm := parseMatcher (natList lr)
      match lexChecked matchers lrm (natList s) with
      | .ok es => some ("ok " ++ showElems es)
      | .error (.fatal _) => some "err:fatal"
      | .error .fuel => some "err:fuel"
      | .error .mismatch => some "err:value"
  | ["lex.sub", m, s] =>
      some (showElems (subdivide (parseMatcher (natList m)) (natList s)))
  | _ => none
end SqlfluffVerif.Driver
