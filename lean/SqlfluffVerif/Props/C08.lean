import SqlfluffVerif.Model.Jinja
/-!
# C08 — Jinja rendering fidelity (decision logic of the primary rendering)

`JinjaTemplater.process` returns the source text itself — without calling Jinja — when the file is
non-empty, contains no Jinja marker (`{{`, `{%`, `{#`; the regex `\{[{%#]`) and no macro/library
configuration is present; otherwise the primary rendering is `render_func(source)`. The theorem says
the two coincide provided Jinja renders marker-free text to itself (`MarkerFreeIdentity`, an external
contract about Jinja, sampled by the harness against an independently constructed environment).
-/
namespace SqlfluffVerif.Jinja

/-- the marker search finds exactly an occurrence of `{` followed by `{`, `%` or `#` -/
theorem C08_marker_search_iff (s : Str) :
    hasMarker s = true ↔ ∃ pre b post, s = pre ++ 123 :: b :: post ∧ (b = 123 ∨ b = 37 ∨ b = 35) := by
  induction s with
  | nil => simp [hasMarker]
  | cons a t ih =>
    cases t with
    | nil =>
      simp only [hasMarker]
      constructor
      · intro h; cases h
      · rintro ⟨pre, b, post, h, _⟩
        have : (a :: ([] : Str)).length = (pre ++ 123 :: b :: post).length := by rw [h]
        simp at this; omega
    | cons b rest =>
      simp only [hasMarker, Bool.or_eq_true, Bool.and_eq_true, beq_iff_eq]
      constructor
      · rintro (⟨ha, hb⟩ | h)
        · exact ⟨[], b, rest, by simp [ha], or_assoc.mp hb⟩
        · obtain ⟨pre, b', post, hs, hb'⟩ := ih.mp h
          exact ⟨a :: pre, b', post, by simp [hs], hb'⟩
      · rintro ⟨pre, b', post, hs, hb'⟩
        cases pre with
        | nil =>
          simp only [List.nil_append, List.cons.injEq] at hs
          left; exact ⟨hs.1, by rw [hs.2.1]; exact or_assoc.mpr hb'⟩
        | cons p ps =>
          simp only [List.cons_append, List.cons.injEq] at hs
          right; exact ih.mpr ⟨ps, b', post, hs.2, hb'⟩

/-- whether or not the fast path is taken, the linted SQL is what Jinja renders -/
theorem C08_primary_eq_render (render : Str → Str) (h : MarkerFreeIdentity render) (cfg : Cfg) (s : Str) :
    primary render cfg s = render s := by
  unfold primary
  by_cases hf : fastPath cfg s = true
  · simp only [hf, if_true]
    have : hasMarker s = false := by
      simp only [fastPath, Bool.and_eq_true, Bool.not_eq_true'] at hf
      exact hf.1.1.1.2
    exact (h s this).symm
  · simp [hf]

/-- the fast path is never taken for text containing a marker or under macro/library configuration -/
theorem C08_fast_path_guard (cfg : Cfg) (s : Str) (h : fastPath cfg s = true) :
    hasMarker s = false ∧ cfg = ⟨false, false, false⟩ ∧ s ≠ [] := by
  simp only [fastPath, Bool.and_eq_true, Bool.not_eq_true'] at h
  obtain ⟨⟨⟨⟨h1, h2⟩, h3⟩, h4⟩, h5⟩ := h
  refine ⟨h2, ?_, by intro hs; subst hs; simp at h1⟩
  cases cfg; simp_all

example : hasMarker [115, 123, 125, 35] = false ∧ hasMarker [115, 123, 35] = true := by decide

end SqlfluffVerif.Jinja
