import SqlfluffVerif.Model.Funnel
/-!
# C05 — no rule fails internally

`BaseRule.crawl` turns every exception of a rule's `_eval` into an "Unexpected exception" violation and carries on with the
next rule. `C05_internal_iff`: the result contains such a violation iff some `_eval` raised — so C05 is exactly "no rule
raises on any tree", which is a statement about ~70 rule implementations x every parse tree and is what the universe
sweeps and the option-variation runs sample (partial). `C05_other_rules_still_run`: a raising rule never hides the others.
-/
namespace SqlfluffVerif.Funnel


def hasInternal (vs : List Viol) : Bool := vs.any (fun v => match v with | .internal _ => true | _ => false)

def CleanLint (vs : List Viol) : Prop := hasInternal vs = false

theorem ruleStage_internal (rs : List (Nat × Except Exc (List Viol)))
    (hclean : ∀ r vs, (r, Except.ok vs) ∈ rs → CleanLint vs) :
    hasInternal (ruleStage rs) = true ↔ ∃ r x, (r, Except.error x) ∈ rs := by
  induction rs with
  | nil => simp [ruleStage, hasInternal]
  | cons hd tl ih =>
    obtain ⟨r, out⟩ := hd
    have ih' := ih (fun r vs h => hclean r vs (by simp [h]))
    cases out with
    | ok vs =>
      have hc : hasInternal vs = false := hclean r vs (by simp)
      simp only [ruleStage, hasInternal, List.any_append] at *
      rw [hc, Bool.false_or, ih']
      constructor
      · rintro ⟨r', x, h⟩; exact ⟨r', x, by simp [h]⟩
      · rintro ⟨r', x, h⟩
        simp at h
        exact ⟨r', x, h⟩
    | error x =>
      simp only [ruleStage, hasInternal, List.any_cons]
      simp
      exact ⟨r, x, Or.inl ⟨rfl, rfl⟩⟩

/-- C05 is exactly "no rule raises": rules' own violations never look like internal errors (`CleanLint`), so an
    internal-error violation is in the result iff some `_eval` raised. -/
theorem C05_internal_iff (rs : List (Nat × Except Exc (List Viol)))
    (hclean : ∀ r vs, (r, Except.ok vs) ∈ rs → CleanLint vs) :
    hasInternal (ruleStage rs) = false ↔ ∀ r x, (r, Except.error x) ∉ rs := by
  have := ruleStage_internal rs hclean
  constructor
  · intro h r x hm
    have : hasInternal (ruleStage rs) = true := this.mpr ⟨r, x, hm⟩
    simp [h] at this
  · intro h
    cases hh : hasInternal (ruleStage rs) with
    | false => rfl
    | true =>
      obtain ⟨r, x, hm⟩ := this.mp hh
      exact absurd hm (h r x)

/-- a rule that raises never stops the others: their violations are all still reported -/
theorem C05_other_rules_still_run (pre post : List (Nat × Except Exc (List Viol))) (r : Nat) (x : Exc) :
    ruleStage (pre ++ (r, .error x) :: post) = ruleStage pre ++ Viol.internal r :: ruleStage post := by
  induction pre with
  | nil => simp [ruleStage]
  | cons hd tl ih =>
    obtain ⟨r', out⟩ := hd
    cases out <;> simp [ruleStage, ih]


example : hasInternal (ruleStage [(0, .ok [.lint 0]), (1, .error .other), (2, .ok [])]) = true := by decide

end SqlfluffVerif.Funnel
