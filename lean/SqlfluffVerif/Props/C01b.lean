import SqlfluffVerif.Model.IterSeg
/-!
# C01 (continued) — split whitespace keeps contiguous positions

`C01_split_ws_tiles`: for a whitespace element `[e0, e1)` and literal slices that follow each other and cover it, the
pieces `_iter_segments` yields tile the element in the templated file *and* in its text, each piece's text being exactly as
long as its templated slice — for every element, every number of slices (by induction over the slice list).
`C01_split_ws_old_witness`: the loop as it stood before repair f54e85c violates this on three slices (kernel-checked), the
defect the multi-seed sweep found on the real code.
-/
namespace SqlfluffVerif.IterSeg

theorem C01_split_ws_tiles (e0 e1 : Nat) :
    ∀ (ls : List Lit) (c : Nat), e0 + c < e1 → Covers e1 (e0 + c) ls →
      Tiles e1 (e1 - e0) (e0 + c) c (splitWs e0 e1 c ls) := by
  intro ls
  induction ls with
  | nil =>
    intro c hlt hc
    simp only [Covers] at hc
    omega
  | cons l rest ih =>
    intro c hlt hc
    simp only [Covers] at hc
    obtain ⟨h1, h2, h3⟩ := hc
    simp only [splitWs]
    by_cases ha : e1 ≤ l.te
    · simp only [ha, if_true, Tiles]
      refine ⟨by trivial, by trivial, by omega, by omega, by omega, by trivial, by trivial⟩
    · simp only [ha, if_false]
      have hb : (e0 == l.te) = false := by
        simp; omega
      simp only [hb, Bool.false_eq_true, if_false, Tiles]
      refine ⟨by trivial, by trivial, by omega, by omega, by omega, ?_⟩
      have hinc : c + (l.te - e0 - c) = l.te - e0 := by omega
      have hpos : e0 + (c + (l.te - e0 - c)) = l.te := by omega
      have := ih (c + (l.te - e0 - c)) (by omega) (by rw [hpos]; exact h3)
      rw [hpos] at this
      exact this

/-- the total length of the pieces' text is the element's length: nothing is lost or duplicated -/
theorem tiles_total (e1 n : Nat) : ∀ (ps : List Piece) (pos c : Nat), Tiles e1 n pos c ps →
    c + (ps.map (fun p => p.r1 - p.r0)).sum = n ∧ pos + (ps.map (fun p => p.t1 - p.t0)).sum = e1 := by
  intro ps
  induction ps with
  | nil => intro pos c h; simp only [Tiles] at h; simp [h.1, h.2]
  | cons p ps ih =>
    intro pos c h
    simp only [Tiles] at h
    obtain ⟨h1, h2, h3, h4, h5, h6⟩ := h
    have := ih p.t1 p.r1 h6
    simp only [List.map_cons, List.sum_cons]
    omega

/-- three literal slices `[0,7) [7,8) [8,20)` and a whitespace element `[6,9)`: the old loop's second piece claims two
    characters of text for a one-character slice and the third piece is empty -/
theorem C01_split_ws_old_witness :
    (splitWsOld 6 9 0 [⟨0, 7, 0⟩, ⟨7, 8, 266⟩, ⟨8, 20, 290⟩]).map (fun p => (p.t0, p.t1, p.r0, p.r1))
      = [(6, 7, 0, 1), (7, 8, 1, 3), (9, 9, 3, 3)] := by decide

/-- the slice of the list that contains the element's end -/
def lastOf (e1 : Nat) : List Lit → Option Lit
  | [] => none
  | l :: rest => if e1 ≤ l.te then some l else lastOf e1 rest

/-- An unsplittable element spanning literal slices gets the source slice that starts where its first character sits in
    the *first* slice and ends where its last character sits in the slice containing its end — whatever lies between
    (the stash set at the first spill-over is never overwritten). -/
theorem C01_span_source (e0 e1 : Nat) (first : Lit) (rest : List Lit)
    (h0 : e0 < first.te) (hc : Covers e1 e0 (first :: rest)) :
    ∃ last, lastOf e1 (first :: rest) = some last ∧
      spanSrc e0 e1 none (first :: rest) = some ((e0 : Nat) + off first, (e1 : Nat) + off last) := by
  -- generalise over an already stashed start
  have gen : ∀ (ls : List Lit) (pos : Nat) (st : Int), Covers e1 pos ls → e0 ≤ pos → pos < e1 → (∀ l ∈ ls, e0 < l.te) →
      ∃ last, lastOf e1 ls = some last ∧ spanSrc e0 e1 (some st) ls = some (st, (e1 : Nat) + off last) := by
    intro ls
    induction ls with
    | nil => intro pos st hcv _ hlt _; simp only [Covers] at hcv; omega
    | cons l rest ih =>
      intro pos st hcv hp hlt hall
      simp only [Covers] at hcv
      obtain ⟨c1, c2, c3⟩ := hcv
      simp only [spanSrc, lastOf]
      by_cases ha : e1 ≤ l.te
      · simp only [ha, if_true]; exact ⟨l, rfl, by simp⟩
      · simp only [ha, if_false]
        have hne : (e0 == l.te) = false := by
          have := hall l (by simp); simp; omega
        simp only [hne, Bool.false_eq_true, if_false, Option.getD_some]
        exact ih l.te st c3 (by omega) (by omega) (fun x hx => hall x (by simp [hx]))
  simp only [Covers] at hc
  obtain ⟨c1, c2, c3⟩ := hc
  simp only [spanSrc, lastOf]
  by_cases ha : e1 ≤ first.te
  · simp only [ha, if_true]; exact ⟨first, rfl, by simp⟩
  · simp only [ha, if_false]
    have hne : (e0 == first.te) = false := by simp; omega
    simp only [hne, Bool.false_eq_true, if_false, Option.getD_none]
    have hall : ∀ l ∈ rest, e0 < l.te := by
      -- slices follow each other: every later slice ends after the first one does
      have mono : ∀ (ls : List Lit) (pos : Nat), Covers e1 pos ls → ∀ l ∈ ls, pos < l.te := by
        intro ls
        induction ls with
        | nil => intro pos _ l hl; simp at hl
        | cons x xs ihx =>
          intro pos hcv l hl
          simp only [Covers] at hcv
          rcases List.mem_cons.mp hl with rfl | hl'
          · exact hcv.2.1
          · have := ihx x.te hcv.2.2 l hl'; omega
      intro l hl
      have := mono rest first.te c3 l hl
      omega
    exact gen rest first.te _ c3 (by omega) (by omega) hall

example : spanSrc 2 9 none [⟨0, 4, 0⟩, ⟨4, 6, 20⟩, ⟨6, 12, 40⟩] = some (2, 43) := by decide

example : (splitWs 6 9 0 [⟨0, 7, 0⟩, ⟨7, 8, 266⟩, ⟨8, 20, 290⟩]).map (fun p => (p.t0, p.t1, p.s0, p.s1, p.r0, p.r1))
      = [(6, 7, 6, 7, 0, 1), (7, 8, 266, 267, 1, 2), (8, 9, 290, 291, 2, 3)] := by decide

end SqlfluffVerif.IterSeg
