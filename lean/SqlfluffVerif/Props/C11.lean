import SqlfluffVerif.Proofs.Splice
import SqlfluffVerif.Props.C30
/-!
# C11 — Fixing preserves all untouched text

The fixed file is `fixString src bufs []`, which by C30 is `spliceAll src 0 acc` for an ordered, pairwise disjoint
family `acc` of the input patches. Therefore:

* `C11_untouched_preserved` — every source range that none of the applied patches touches is present verbatim in the
  output (at `mapPos`), for every source text and every family of patch buffers;
* `C11_untouched_order` — such ranges keep their relative order;
* `C11_no_patches_identity` — with no patches the text is returned unchanged (`fix_string` then reports "not changed" and
  the CLI does not rewrite the file: decision logic of C18's write gate).

Text is a list of code points: encoding/decoding (including the `backslashreplace` handler for undecodable bytes) and
newline normalisation happen outside this function and are covered by the byte-level differential runs only.
-/
namespace SqlfluffVerif.Patch

theorem C11_untouched_preserved (src : Str) (bufs : List (List Patch))
    (hWF : ∀ p ∈ bufs.flatten, p.start ≤ p.stop) (ta tb : Nat) (hab : ta ≤ tb) (hn : tb ≤ src.length)
    (hu : ∀ p ∈ accepted 0 (mergePatches bufs), p.stop ≤ ta ∨ tb ≤ p.start) :
    let acc := accepted 0 (mergePatches bufs)
    sliceOf (fixString src bufs []) (mapPos 0 acc ta) (mapPos 0 acc ta + (tb - ta)) = sliceOf src ta tb := by
  intro acc
  obtain ⟨h1, h2, _⟩ := C30_fix_string_spec src bufs hWF
  rw [h1]
  exact splice_keeps_range src ta tb hab hn acc 0 h2 (Nat.zero_le _) hu

theorem C11_untouched_order (bufs : List (List Patch)) (hWF : ∀ p ∈ bufs.flatten, p.start ≤ p.stop)
    (a1 b1 a2 : Nat) (h1 : a1 ≤ b1) (h12 : b1 ≤ a2)
    (hu : ∀ p ∈ accepted 0 (mergePatches bufs), p.stop ≤ a1 ∨ b1 ≤ p.start) :
    mapPos 0 (accepted 0 (mergePatches bufs)) a1 + (b1 - a1) ≤ mapPos 0 (accepted 0 (mergePatches bufs)) a2 := by
  have hs := C30_merge_sorted_dedup bufs
  have hwf : ∀ p ∈ mergePatches bufs, p.start ≤ p.stop := fun p hp => hWF p (hs.2.2 p hp)
  exact mapPos_order a1 b1 a2 h1 h12 _ 0 (accepted_chain 0 _ hwf) (Nat.zero_le _) hu

theorem C11_no_patches_identity (src : Str) : spliceAll src 0 [] = src := by
  simp [spliceAll]

/-- a single character outside every patch survives: pointwise form -/
theorem C11_char_preserved (src : Str) (bufs : List (List Patch))
    (hWF : ∀ p ∈ bufs.flatten, p.start ≤ p.stop) (i : Nat) (hi : i < src.length)
    (hu : ∀ p ∈ accepted 0 (mergePatches bufs), p.stop ≤ i ∨ i + 1 ≤ p.start) :
    sliceOf (fixString src bufs []) (mapPos 0 (accepted 0 (mergePatches bufs)) i)
        (mapPos 0 (accepted 0 (mergePatches bufs)) i + 1) = sliceOf src i (i + 1) := by
  have := C11_untouched_preserved src bufs hWF i (i + 1) (by omega) (by omega) hu
  simpa using this

/-- non-vacuity on the C30 example -/
example : spliceAll [1, 2, 3, 4, 5] 0 [⟨1, 2, [9, 9], 0⟩] = [1, 9, 9, 3, 4, 5]
    ∧ mapPos 0 [⟨1, 2, [9, 9], 0⟩] 3 = 4 := by decide

end SqlfluffVerif.Patch
