import SqlfluffVerif.Props.C01
import SqlfluffVerif.Model.Edits
/-!
# C12 — Fixes are lexically stable

`stable toks` : re-lexing the concatenated text of `toks` gives `toks` back (same boundaries, same kinds).

* `C12_lexer_output_stable` — every token list the lexer produces is stable (for every family of matchers, every
  input). Hence instability can only be *introduced by an edit* of the token list: the fix loop is the only place where
  the property can break, which is where the end-to-end check looks.
* `C12_stable_text` — a stable tree spells the file that is written (second clause of the spec used by the check).
* `C12_glue_witness` / `C12_split_witness` — the model exhibits both failure modes named in the property on a three
  matcher mini-dialect (comment `--…`, minus, word): deleting the blank between two minus signs glues them into a comment
  marker; the edit algebra alone therefore cannot guarantee C12, and the real fix engine has no re-lex check either
  (known findings list the fixture inputs on which it fails).
-/
namespace SqlfluffVerif.Lexer

def stable (ms : List Matcher) (lr : Matcher) (es : List Elem) : Prop := lex ms lr (cat es) = .ok es

theorem C12_lexer_output_stable (ms : List Matcher) (lr : Matcher) (hms : ∀ m ∈ ms, TrimOK m) (hlr : TrimOK lr)
    (s : Str) (es : List Elem) (h : lex ms lr s = .ok es) : stable ms lr es := by
  unfold stable
  rw [C01_lex_lossless ms lr hms hlr s es h]
  exact h

theorem C12_stable_text (ms : List Matcher) (lr : Matcher) (hms : ∀ m ∈ ms, TrimOK m) (hlr : TrimOK lr)
    (tree relex : List Elem) (fixed : Str) (h : lex ms lr fixed = .ok relex) (heq : tree = relex) :
    cat tree = fixed := by
  subst heq
  exact C01_lex_lossless ms lr hms hlr fixed tree h

/-! mini dialect: 1 = inline comment `--[^\n]*` approximated by literal `--` followed by anything is not expressible
with `Pat`, so the comment matcher is written directly. -/
def commentM : Matcher :=
  { name := 1,
    mlen := fun s => match s with
      | 45 :: 45 :: rest => some (2 + (rest.takeWhile (fun c => c != 10)).length)
      | _ => none,
    sub := none, trim := none }
def minusM : Matcher := (Pat.lit [45]).matcher 2 none none
def wsM : Matcher := (Pat.cls false [32, 9]).matcher 3 none none
def wordM : Matcher := (Pat.cls false [97, 98, 99]).matcher 4 none none
def mini : List Matcher := [wsM, commentM, minusM, wordM]

def toElems (r : Except LexErr (List Elem)) : List (Nat × Str) :=
  match r with
  | .ok es => es.map (fun e => (e.name, e.raw))
  | .error _ => []

/-- `a - -b` lexes to five tokens … -/
example : toElems (lex mini (lastResortDefault 9) [97, 32, 45, 32, 45, 98])
    = [(4, [97]), (3, [32]), (2, [45]), (3, [32]), (2, [45]), (4, [98])] := by decide

/-- … and after deleting the blank between the two minus signs the same tokens are no longer stable:
    re-lexing glues `-`,`-`,`b` into one comment token. -/
theorem C12_glue_witness :
    toElems (lex mini (lastResortDefault 9) (cat [⟨[97], 4⟩, ⟨[32], 3⟩, ⟨[45], 2⟩, ⟨[45], 2⟩, ⟨[98], 4⟩]))
      = [(4, [97]), (3, [32]), (1, [45, 45, 98])] := by decide

/-- two words glued into one by deleting the blank between them -/
theorem C12_glue_words_witness :
    toElems (lex mini (lastResortDefault 9) (cat [⟨[97], 4⟩, ⟨[98], 4⟩])) = [(4, [97, 98])] := by decide

/-- a replacement text that the lexer splits: one "word" token with text `a-b` -/
theorem C12_split_witness :
    toElems (lex mini (lastResortDefault 9) (cat [⟨[97, 45, 98], 4⟩])) = [(4, [97]), (2, [45]), (4, [98])] := by decide

end SqlfluffVerif.Lexer

namespace SqlfluffVerif.Edits

/-- the executable spec used on real token lists is equality of boundaries and classes -/
theorem C12_spec_iff (tree relex : List Tok) : specC12 tree relex = true ↔ tree = relex := by
  simp [specC12]

theorem C12_spec_lengths (tree relex : List Tok) (h : specC12 tree relex = true) :
    tree.length = relex.length ∧ tree.map (·.raw) = relex.map (·.raw) := by
  rw [C12_spec_iff] at h; subst h; exact ⟨rfl, rfl⟩

end SqlfluffVerif.Edits
