import SqlfluffVerif.Model.Sql3VL
/-!
# C16 — fixes preserve query results (the expression rewrites)

For every environment (row) and all sub-expressions, the rewrites performed by the fix-compatible rules that touch
expressions evaluate to the same value under three-valued logic:

* ST02 `CASE WHEN c THEN TRUE ELSE FALSE END → COALESCE(c, FALSE)`, `… THEN FALSE ELSE TRUE … → NOT COALESCE(c, FALSE)`,
  `CASE WHEN x IS NULL THEN y ELSE x END → COALESCE(x, y)`, `CASE WHEN x IS NOT NULL THEN x ELSE y END → COALESCE(x, y)`
  (the first two need `c` to be a condition, i.e. to evaluate to 0, 1 or NULL — true of comparisons and logic, proved below);
* ST01 `ELSE NULL` removal and ST04 flattening of a CASE nested in ELSE (definitional in the right-nested reading);
* CV02 `IFNULL/NVL(a, b) → COALESCE(a, b)`; CV01 `!=` ↔ `<>` (one operator in the model);
* ST09 reordering of the two sides of `=` in a join condition; conjunction/disjunction order is *not* claimed.

`C16_cv05_changes_results` is the kernel-checked reason CV05 (`= NULL → IS NULL`) is excluded by the property.
Whether each rule emits exactly these shapes is the sampled contract RewriteShape; the evaluator itself is corresponded with
SQLite; statement-level behaviour (joins, grouping, set operations) is covered by differential execution only.
-/
namespace SqlfluffVerif.Sql3VL

/-- conditions: expressions whose value is always 0, 1 or NULL -/
def IsCond (env : Nat → V) (c : E) : Prop := eval env c = none ∨ eval env c = some 0 ∨ eval env c = some 1

theorem cmp_cond (f : Int → Int → Bool) (a b : V) : cmp f a b = none ∨ cmp f a b = some 0 ∨ cmp f a b = some 1 := by
  unfold cmp b2v
  cases a <;> cases b <;> simp

theorem cond_of_comparison (env : Nat → V) (a b : E) : IsCond env (.eq a b) ∧ IsCond env (.ne a b) ∧ IsCond env (.lt a b) := by
  refine ⟨?_, ?_, ?_⟩ <;> (unfold IsCond; simp only [eval]; exact cmp_cond _ _ _)

theorem cond_of_isNull (env : Nat → V) (a : E) : IsCond env (.isNull a) ∧ IsCond env (.isNotNull a) := by
  constructor <;> (unfold IsCond; simp only [eval, b2v]; cases eval env a <;> simp)

/-- ST02: `CASE WHEN c THEN 1 ELSE 0 END = COALESCE(c, 0)` for a condition `c` -/
theorem C16_st02_true_false (env : Nat → V) (c : E) (hc : IsCond env c) :
    eval env (.caseW c (.lit (some 1)) (.lit (some 0))) = eval env (.coalesce c (.lit (some 0))) := by
  simp only [eval]
  rcases hc with h | h | h <;> simp [h, truthy, coalesceV]

/-- ST02: `CASE WHEN c THEN 0 ELSE 1 END = NOT COALESCE(c, 0)` -/
theorem C16_st02_false_true (env : Nat → V) (c : E) (hc : IsCond env c) :
    eval env (.caseW c (.lit (some 0)) (.lit (some 1))) = eval env (.not (.coalesce c (.lit (some 0)))) := by
  simp only [eval]
  rcases hc with h | h | h <;> simp [h, truthy, not3, coalesceV]

theorem isNull_case (vx vy : V) : (if truthy (b2v vx.isNone) then vy else vx) = coalesceV vx vy := by
  cases vx <;> simp [b2v, truthy, coalesceV]

theorem isNotNull_case (vx vy : V) : (if truthy (b2v vx.isSome) then vx else vy) = coalesceV vx vy := by
  cases vx <;> simp [b2v, truthy, coalesceV]

/-- ST02: `CASE WHEN x IS NULL THEN y ELSE x END = COALESCE(x, y)` -/
theorem C16_st02_is_null (env : Nat → V) (x y : E) :
    eval env (.caseW (.isNull x) y x) = eval env (.coalesce x y) := by
  simp only [eval]
  exact isNull_case _ _

/-- ST02: `CASE WHEN x IS NOT NULL THEN x ELSE y END = COALESCE(x, y)` -/
theorem C16_st02_is_not_null (env : Nat → V) (x y : E) :
    eval env (.caseW (.isNotNull x) x y) = eval env (.coalesce x y) := by
  simp only [eval]
  exact isNotNull_case _ _

/-- ST01: an explicit `ELSE NULL` is the same as no ELSE (missing ELSE is `lit none` in the right-nested reading) -/
theorem C16_st01_else_null (env : Nat → V) (c x : E) :
    eval env (.caseW c x (.lit none)) = (if truthy (eval env c) then eval env x else none) := by
  simp [eval]

/-- ST04: a CASE nested in ELSE flattens into further WHEN branches -/
theorem C16_st04_flatten (env : Nat → V) (c1 x1 c2 x2 e : E) :
    eval env (.caseW c1 x1 (.caseW c2 x2 e)) =
      (if truthy (eval env c1) then eval env x1 else if truthy (eval env c2) then eval env x2 else eval env e) := by
  simp [eval]

/-- CV02: `IFNULL(a, b) = COALESCE(a, b)` -/
theorem C16_cv02_ifnull (env : Nat → V) (a b : E) : eval env (.ifnull a b) = eval env (.coalesce a b) := by
  simp [eval]

/-- ST09: the two sides of an equality may be swapped -/
theorem C16_st09_eq_comm (env : Nat → V) (a b : E) : eval env (.eq a b) = eval env (.eq b a) := by
  simp only [eval, cmp]
  cases eval env a <;> cases eval env b <;> simp [b2v]
  rename_i x y
  by_cases h : x = y
  · simp [h]
  · have : ¬ y = x := fun e => h e.symm
    simp [h, this]

/-- …and conjunctions commute as values (used when ST09 reorders a whole ON clause) -/
theorem C16_and_comm (a b : V) : and3 a b = and3 b a := by
  unfold and3
  cases a <;> cases b <;> simp [b2v, Bool.and_comm, Bool.or_comm]
  all_goals (first | rfl | (split <;> simp_all [Bool.and_comm]))

/-- CV05 is not result preserving: `x = NULL` is NULL for every x, `x IS NULL` is 1 for NULL -/
theorem C16_cv05_changes_results :
    eval (fun _ => none) (.eq (.col 0) (.lit none)) ≠ eval (fun _ => none) (.isNull (.col 0)) := by decide

/-- a WHERE clause keeps a row iff the condition is truthy: NULL and 0 agree there, so rewrites need only preserve truthiness
    in filter position -/
theorem C16_filter_null_is_false (v : V) (h : v = none ∨ v = some 0) : truthy v = false := by
  rcases h with h | h <;> simp [h, truthy]

example : IsCond (fun _ => some 3) (.lt (.col 0) (.lit (some 5))) := (cond_of_comparison _ _ _).2.2

end SqlfluffVerif.Sql3VL
