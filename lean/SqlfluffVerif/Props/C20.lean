import SqlfluffVerif.Proofs.Noqa
/-!
# C20 — noqa directives suppress exactly the specified violations

Model: `Model/Noqa.lean`. `hidden ds v` is the property's statement: a plain directive on `v`'s own
line naming its rule (or no rule), or — among the range directives covering its rule, in stable line
order — the last one at or before its line is a `disable`.
Reading adopted for "unused" (DESIGN §10): stated for plain directives (`C20_used_single_sound`);
the rule for `enable`/`disable` marks is held fixed by correspondence.
-/
namespace SqlfluffVerif.Noqa

def WellFormed (ds : List Dir) : Prop := ∀ d ∈ ds, d.action = 0 ∨ d.action = 1 ∨ d.action = 2

/-- The visible violations are exactly those not hidden, for every directive list and every
    violation list. -/
theorem C20_ignoreMasked_spec (ds : List Dir) (vs : List V) (hwf : WellFormed ds) :
    (ignoreMasked ds vs).2 = vs.filter (fun v => !(hidden ds v)) := by
  unfold ignoreMasked
  simp only
  rw [filterRange_visible, applySingles_visible, List.filter_filter]
  apply List.filter_congr
  intro v _
  have hact : ∀ d ∈ ds.filter (fun d => d.action != 0), d.action = 1 ∨ d.action = 2 := by
    intro d hd
    have h1 := List.mem_filter.mp hd
    have h2 : d.action ≠ 0 := by simpa using h1.2
    rcases hwf d h1.1 with h | h | h
    · exact absurd h h2
    · exact Or.inl h
    · exact Or.inr h
  have hdec := shouldIgnore_decision v.line (relevant (ds.filter (fun d => d.action != 0)) v) false none []
    (relevant_actions _ v hact)
  rw [hdec]
  have hsingle : (ds.filter (fun d => d.action == 0)).any (fun d => matchesSingle d v) = hiddenSingle ds v := by
    unfold hiddenSingle
    rw [List.any_filter]
  rw [hsingle]
  unfold hidden hiddenRange effective
  cases hk : (relevant (ds.filter (fun d => d.action != 0)) v).takeWhile (fun d => d.line ≤ v.line) with
  | nil => simp [lastDisable, Bool.and_comm]
  | cons x xs => simp [Bool.and_comm]

/-- Masking is pointwise: masking a batch equals masking its pieces (the rule crawler masks
    one violation at a time, `get_violations` masks the whole list). -/
theorem C20_mask_is_pointwise (ds : List Dir) (a b : List V) (hwf : WellFormed ds) :
    (ignoreMasked ds (a ++ b)).2 = (ignoreMasked ds a).2 ++ (ignoreMasked ds b).2 := by
  rw [C20_ignoreMasked_spec _ _ hwf, C20_ignoreMasked_spec _ _ hwf, C20_ignoreMasked_spec _ _ hwf,
    List.filter_append]

/-- A range directive that hides `v` is a `disable` that covers `v`'s rule, lies at or before `v`'s
    line, and no covering range directive at or before that line is later than it. -/
theorem C20_hiddenRange_latest (ds : List Dir) (v : V) (h : hiddenRange ds v = true) :
    ∃ d ∈ ds, d.action = 2 ∧ covers d v = true ∧ d.line ≤ v.line ∧
      ∀ d' ∈ ds, d'.action ≠ 0 → covers d' v = true → d'.line ≤ v.line → d'.line ≤ d.line := by
  unfold hiddenRange effective at h
  obtain ⟨d, hlast, hact⟩ := lastDisable_mem _ h
  have hsorted : (relevant (ds.filter (fun d => d.action != 0)) v).Pairwise (fun a b => lineLe a b = true) :=
    List.pairwise_mergeSort lineLe_trans lineLe_total _
  obtain ⟨hm, hl, hall⟩ := takeWhile_last_latest _ v.line hsorted d hlast
  have hperm := List.mergeSort_perm ((ds.filter (fun d => d.action != 0)).filter (fun d => covers d v)) lineLe
  have hm' := (List.mem_filter.mp (hperm.mem_iff.mp hm))
  have hm'' := List.mem_filter.mp hm'.1
  refine ⟨d, hm''.1, hact, hm'.2, hl, ?_⟩
  intro d' hd' hne hcov hle
  apply hall d' _ hle
  apply hperm.mem_iff.mpr
  exact List.mem_filter.mpr ⟨List.mem_filter.mpr ⟨hd', by simpa using hne⟩, hcov⟩

/-- A plain directive is reported as used only if it matched (hence hid) a violation. -/
theorem C20_used_single_sound (ds : List Dir) (vs : List V) (u : Nat)
    (h : u ∈ (applySingles ds vs).1) :
    ∃ d ∈ ds, d.uid = u ∧ ∃ v ∈ vs, matchesSingle d v = true :=
  applySingles_marks ds vs u h

/-- With no directives (noqa processing off) nothing is hidden and nothing is marked. -/
theorem C20_noqa_off_hides_nothing (vs : List V) : ignoreMasked [] vs = ([], vs) := by
  induction vs with
  | nil => simp [ignoreMasked, applySingles, filterRange]
  | cons v vs ih =>
    simp only [ignoreMasked, List.filter_nil, applySingles] at ih ⊢
    simp only [filterRange, relevant, List.filter_nil]
    have : ([] : List Dir).mergeSort lineLe = [] := by simp
    simp [this, shouldIgnore]
    have h2 : (filterRange [] vs) = ([], vs) := by
      have := ih; simp at this; exact Prod.ext this.1 this.2
    simp [h2]

/-- References that match no key of the reference map are kept literally (so `PRS`, `LXR`, `TMP`
    still work as noqa targets). -/
theorem C20_parse_unmatched_kept (refMap : List (Str × List Str)) (r : Str)
    (h : ∀ kv ∈ refMap, Glob.fnmatch r kv.1 = false) : expandRef refMap r = [r] := by
  unfold expandRef
  have : refMap.filter (fun kv => Glob.fnmatch r kv.1) = [] := by
    rw [List.filter_eq_nil_iff]; intro kv hkv; simp [h kv hkv]
  simp [this]

/-! Non-vacuity -/
def exDs : List Dir :=
  [⟨0, 2, some [7], 0⟩, ⟨1, 1, none, 2⟩, ⟨2, 3, none, 1⟩]

example : WellFormed exDs := by unfold WellFormed exDs; decide
example : matchesSingle ⟨0, 2, some [7], 0⟩ ⟨0, 2, 7⟩ = true := by decide
example : parseNoqa [110, 111, 113, 97, 58, 32, 80, 82, 83] [] = Parsed.dir (some [[80, 82, 83]]) 0 [110, 111, 113, 97, 58, 32, 80, 82, 83] := by
  decide

end SqlfluffVerif.Noqa
