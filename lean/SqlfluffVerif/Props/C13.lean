import SqlfluffVerif.Model.FixLoop
/-!
# C13 — Fixing never makes a parsable file unparsable (fix-loop gate)

Every tree the loop ever adopts comes out of `apply_fixes` with `_valid = true`; the final tree is the
initial one or an adopted one; on the loop limit the initial tree is returned. Hence, if validation is
sound (`valid = true ⇒ the new tree's text parses` — the contract `ValidateSound`, which is exactly
what the property doubts and is therefore *sampled*, never assumed proved), parsability is preserved.
-/
namespace SqlfluffVerif.FixLoop

theorem ruleStep_adopted (sys : Sys) (t0 : Nat) (fp : Bool) (st : St) (r : Rule)
    (h : Adopted sys t0 st.tree) : Adopted sys t0 (ruleStep sys fp st r).tree := by
  unfold ruleStep
  by_cases h1 : (!fp && !r.fixCompat) = true
  · simp only [h1, if_true]; exact h
  · simp only [h1, Bool.false_eq_true, if_false]
    cases hp : sys.propose r.id st.tree with
    | none => exact h
    | some fx =>
      simp only
      by_cases h2 : sys.conflicting fx = true
      · simp only [h2, if_true]; exact h
      · simp only [h2, Bool.false_eq_true, if_false]
        by_cases h3 : (st.last == some fx) = true
        · simp only [h3, if_true]; exact h
        · simp only [h3, Bool.false_eq_true, if_false]
          by_cases h4 : ((sys.applyF st.tree fx).1 == st.tree) = true
          · simp only [h4, if_true]; exact h
          · simp only [h4, Bool.false_eq_true, if_false]
            by_cases h5 : (!(sys.applyF st.tree fx).2) = true
            · simp only [h5, if_true]; exact h
            · simp only [h5, Bool.false_eq_true, if_false]
              have hv : (sys.applyF st.tree fx).2 = true := by
                cases hh : (sys.applyF st.tree fx).2 <;> simp_all
              by_cases h6 : (!st.prev.contains (sys.applyF st.tree fx).1) = true
              · simp only [h6, if_true]
                exact Adopted.step st.tree fx h hv
              · simp only [h6, Bool.false_eq_true, if_false]; exact h

theorem pass_adopted (sys : Sys) (t0 : Nat) (rules : List Rule) (fp : Bool) (st : St)
    (h : Adopted sys t0 st.tree) : Adopted sys t0 (pass sys rules fp st).tree := by
  unfold pass
  have : ∀ (rs : List Rule) (s : St), Adopted sys t0 s.tree → Adopted sys t0 (rs.foldl (ruleStep sys fp) s).tree := by
    intro rs
    induction rs with
    | nil => intro s hs; exact hs
    | cons r rs ih => intro s hs; exact ih _ (ruleStep_adopted sys t0 fp s r hs)
  exact this rules _ h

theorem phaseLoop_adopted (sys : Sys) (t0 : Nat) (all pr : List Rule) (ifp : Bool) :
    ∀ (fuel idx : Nat) (st : St), Adopted sys t0 st.tree →
      Adopted sys t0 (phaseLoop sys all pr ifp fuel idx st).1.tree := by
  intro fuel
  induction fuel with
  | zero => intro idx st h; exact h
  | succ fuel ih =>
    intro idx st h
    simp only [phaseLoop]
    have hp := pass_adopted sys t0 (if ifp = true then all else pr) (ifp && idx == 0) st h
    by_cases hc : (!(pass sys (if ifp = true then all else pr) (ifp && idx == 0) st).changed) = true
    · simp only [hc, if_true]; exact hp
    · simp only [hc, Bool.false_eq_true, if_false]; exact ih _ _ hp

/-- every tree the loop returns was adopted through valid applications only -/
theorem C13_result_is_initial_or_accepted (sys : Sys) (rules : List Rule) (limit t0 : Nat) :
    Adopted sys t0 (fixLoop sys rules limit t0).1 := by
  unfold fixLoop
  simp only
  split
  · exact Adopted.init
  · rename_i st1 h1
    have a1 : Adopted sys t0 st1.tree := by
      have := phaseLoop_adopted sys t0 rules (rules.filter (fun r => !r.post)) true limit 0
        { tree := t0, last := none, prev := [t0], changed := false } Adopted.init
      rw [h1] at this; exact this
    split
    · exact Adopted.init
    · rename_i st2 h2
      have := phaseLoop_adopted sys t0 rules (rules.filter (fun r => r.post)) false 2 0 st1 a1
      rw [h2] at this; exact this

/-- when the loop cannot reach a stable result the original tree is returned (C18, last sentence) -/
theorem C13_limit_rolls_back (sys : Sys) (rules : List Rule) (limit t0 : Nat)
    (h : (fixLoop sys rules limit t0).2 = true) : (fixLoop sys rules limit t0).1 = t0 := by
  unfold fixLoop at h ⊢
  simp only at h ⊢
  generalize phaseLoop sys rules (rules.filter (fun r => !r.post)) true limit 0
    { tree := t0, last := none, prev := [t0], changed := false } = r1 at h ⊢
  obtain ⟨st1, b1⟩ := r1
  cases b1 with
  | true => rfl
  | false =>
    simp only at h ⊢
    generalize phaseLoop sys rules (rules.filter (fun r => r.post)) false 2 0 st1 = r2 at h ⊢
    obtain ⟨st2, b2⟩ := r2
    cases b2 with
    | true => rfl
    | false => simp at h

/-- partial: under sound validation a parsable input stays parsable -/
theorem C13_parsable_preserved_partial (sys : Sys) (parsable : Nat → Prop)
    (hsound : ∀ t fx, (sys.applyF t fx).2 = true → parsable (sys.applyF t fx).1)
    (rules : List Rule) (limit t0 : Nat) (h0 : parsable t0) : parsable (fixLoop sys rules limit t0).1 := by
  have hgen : ∀ t, Adopted sys t0 t → parsable t := by
    intro t ht
    induction ht with
    | init => exact h0
    | step t fx _ hv _ => exact hsound t fx hv
  exact hgen _ (C13_result_is_initial_or_accepted sys rules limit t0)

/-! Non-vacuity: a rule rewriting tree 0 to tree 1 (valid), nothing to do on tree 1. -/
def exSys : Sys := { propose := fun r t => if r == 1 && t == 0 then some 7 else none, applyF := fun t _ => (t + 1, true) }
example : fixLoop exSys [⟨1, false, true⟩] 10 0 = (1, false) := by decide
/-- an invalid fix is never adopted -/
example : fixLoop { exSys with applyF := fun t _ => (t + 1, false) } [⟨1, false, true⟩] 10 0 = (0, false) := by decide

end SqlfluffVerif.FixLoop
