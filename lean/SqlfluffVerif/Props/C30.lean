import SqlfluffVerif.Proofs.Patch
/-!
# C30 — Edits are applied to disjoint source ranges exactly once

Model: `Model/Patch.lean` (`_patches_conflict`, `merge_source_patches`,
`_slice_source_file_using_patches`, `_build_up_fixed_source_string`).
The statements quantify over every source text and every finite family of patch buffers.
`spliceAll src 0 acc` replaces each range of the ordered, pairwise-disjoint list `acc` by its text
exactly once and copies every other character; `accepted` selects the patches that survive.
Source-only slices: the theorems below are for an empty source-only list (the slicing then only
cuts at patch boundaries); the general case is tied by correspondence only — see `DESIGN.md` C30.
-/
namespace SqlfluffVerif.Patch

/-- Merged patches never conflict pairwise. -/
theorem C30_merge_nonconflicting (bufs : List (List Patch)) : NoConf (mergePatches bufs) :=
  (mergeLoop_spec [] [] _ List.Pairwise.nil (by simp) List.Pairwise.nil).1

/-- Merged patches are sorted by (start, stop), duplicate-free, and each is one of the inputs
    (nothing is invented, nothing is applied from outside the input). -/
theorem C30_merge_sorted_dedup (bufs : List (List Patch)) :
    (mergePatches bufs).Pairwise (fun a b => keyLe a b = true) ∧
    (mergePatches bufs).Pairwise (fun a b => key a ≠ key b) ∧
    ∀ p ∈ mergePatches bufs, p ∈ bufs.flatten := by
  refine ⟨?_, (mergeLoop_spec [] [] _ List.Pairwise.nil (by simp) List.Pairwise.nil).2.1, ?_⟩
  · exact List.Pairwise.sublist (mergePatches_sublist bufs)
      (List.pairwise_mergeSort keyLe_trans keyLe_total _)
  · intro p hp
    have := (mergePatches_sublist bufs).subset hp
    exact (List.mergeSort_perm _ _).mem_iff.mp this

/-- Applying a sorted, non-conflicting, well-formed patch list: the result is the splice of the
    accepted patches, which are ordered and pairwise disjoint; every other patch contributes
    nothing. -/
theorem C30_apply_exact (src : Str) (P : List Patch)
    (hSorted : P.Pairwise (fun a b => keyLe a b = true)) (hNC : NoConf P)
    (hWF : ∀ p ∈ P, p.start ≤ p.stop) :
    applyPatches src P [] = spliceAll src 0 (accepted 0 P) ∧
    Chain 0 (accepted 0 P) ∧ (accepted 0 P).Sublist P := by
  refine ⟨?_, accepted_chain 0 P hWF, accepted_sublist 0 P⟩
  have := sliceLoop_noSo src [] P [] 0 (by intro q hq; simp at hq) (by simpa using hSorted)
    (by simpa using noConf_same P hNC) (by simpa using hWF)
  simpa [applyPatches, sliceFile, buildFixed] using this

/-- End to end (`fix_string` on merged variant buffers): whatever buffers the variants produce,
    the fixed text is the splice of an ordered, pairwise-disjoint family of *input* patches. -/
theorem C30_fix_string_spec (src : Str) (bufs : List (List Patch))
    (hWF : ∀ p ∈ bufs.flatten, p.start ≤ p.stop) :
    let acc := accepted 0 (mergePatches bufs)
    fixString src bufs [] = spliceAll src 0 acc ∧ Chain 0 acc ∧ ∀ p ∈ acc, p ∈ bufs.flatten := by
  intro acc
  have hs := C30_merge_sorted_dedup bufs
  have hwf : ∀ p ∈ mergePatches bufs, p.start ≤ p.stop := fun p hp => hWF p (hs.2.2 p hp)
  obtain ⟨h1, h2, h3⟩ := C30_apply_exact src (mergePatches bufs) hs.1 (C30_merge_nonconflicting bufs) hwf
  exact ⟨h1, h2, fun p hp => hs.2.2 p (h3.subset hp)⟩

/-! Non-vacuity: a concrete sorted input with an overlap, a duplicate and an insertion
    (`List.mergeSort` is defined by well-founded recursion and does not reduce in the kernel, so the
    example starts from the sorted list). -/
def exSorted : List Patch :=
  [{ start := 1, stop := 3, raw := [88] }, { start := 1, stop := 3, raw := [88] },
   { start := 2, stop := 4, raw := [90] }, { start := 5, stop := 5, raw := [89] }]

def exMerged : List Patch := mergeLoop [] [] exSorted

example : exMerged = [{ start := 1, stop := 3, raw := [88] }, { start := 5, stop := 5, raw := [89] }] := by
  decide
example : exMerged.Pairwise (fun a b => keyLe a b = true) ∧ NoConf exMerged ∧
    ∀ p ∈ exMerged, p.start ≤ p.stop := by
  unfold NoConf; decide
example : applyPatches [48, 49, 50, 51, 52, 53] exMerged [] = [48, 88, 51, 52, 89, 53] := by decide

end SqlfluffVerif.Patch
