import SqlfluffVerif.Proofs.MatchResult
/-!
# C02 — Parsing is lossless: tree leaves are exactly the lexed tokens

Model: `Model/MatchResult.lean` (`MatchResult.apply/append/wrap`, `root_parse`).
`wfF`/`wf` is the decidable well-formedness predicate on match results; it is evaluated by the driver
on every real root match (contract `GrammarWF`), and the theorems below say that materialising a
well-formed match never raises and yields exactly the tokens of its slice, in order, each once.
-/
namespace SqlfluffVerif.MatchResult

/-- Materialising a well-formed match result never raises and its leaves (ignoring inserted
    zero-width metas) are exactly the tokens `start … stop-1`, in order. By induction on nesting. -/
theorem C02_apply_lossless (n : Nat) : ∀ (f : Nat) (m : MR), wfF n f m = true →
    ∃ ts, applyF n f m = .ok ts ∧ leavesL ts = List.range' m.start (m.stop - m.start) := by
  intro f
  induction f with
  | zero => intro m h; simp [wfF] at h
  | succ f ih =>
    intro m h
    obtain ⟨s, e, cls, ins, ch⟩ := m
    simp only [wfF, Bool.and_eq_true, decide_eq_true_eq] at h
    obtain ⟨⟨⟨hse, hen⟩, hbody⟩, hch⟩ := h
    simp only [MR.start, MR.stop]
    by_cases hz : e ≤ s
    · -- zero-length: only inserts
      simp only [hz, if_true, Bool.and_eq_true, Bool.or_eq_true, decide_eq_true_eq] at hbody
      obtain ⟨⟨⟨hcls, hche⟩, hins⟩, hn0⟩ := hbody
      have hcls' : cls.isSome = false := by cases cls <;> simp_all
      have hany : ins.any (fun i => i.1 != s) = false := by
        rw [List.any_eq_false]; intro i hi
        have := (List.all_eq_true.mp hins) i hi
        simp only [beq_iff_eq] at this; simp [this]
      have hse' : e - s = 0 := by omega
      have hguard : (!ins.isEmpty && n == 0) = false := by
        rcases hn0 with h | h
        · simp [h]
        · have : (n == 0) = false := by simp; omega
          simp [this]
      simp only [applyF, hz, if_true, hcls', hche, hany, hguard, Bool.false_eq_true, if_false,
        Bool.not_true]
      exact ⟨_, rfl, by simp [leavesL_map_ins, hse']⟩
    · simp only [hz, if_false] at hbody
      have hne : ¬ n < e := by omega
      -- children
      have hchild : ∀ c ∈ ch, ∃ ts, applyF n f c = .ok ts ∧
          leavesL ts = List.range' c.start (c.stop - c.start) :=
        fun c hc => ih c ((List.all_eq_true.mp hch) c hc)
      obtain ⟨r, hr, hsp, hok⟩ := mapTrigs_ok (applyF n f) ch hchild
      have hspans : spans (sortByKey (insTrigs ins ++ r)) =
          sortByKey (ins.map (fun i => (i.1, i.1)) ++ ch.map (fun c => (c.start, c.stop))) := by
        rw [spans_sort]
        have : spans (insTrigs ins ++ r) = spans (insTrigs ins) ++ spans r := by simp [spans]
        rw [this, spans_insTrigs, hsp]
      have hallok : ∀ t ∈ sortByKey (insTrigs ins ++ r), TrigOK t := by
        intro t ht
        rcases List.mem_append.mp ((mem_sortByKey t _).mp ht) with h' | h'
        · simp only [insTrigs, List.mem_map] at h'
          obtain ⟨i, _, rfl⟩ := h'; simp [TrigOK]
        · exact hok t h'
      obtain ⟨res, hres, hl⟩ := runTriggers_ok n e hen _ s none [] (by rw [hspans]; exact hbody) hallok
        (by intro i hi; cases hi)
      simp only [applyF, hz, if_false, hne, hr, hres]
      cases cls with
      | none => exact ⟨res, rfl, by simpa using hl⟩
      | some c => exact ⟨[Tree.node c res], rfl, by simpa using hl⟩

/-- No `ValueError`/`AssertionError` for well-formed input (totality of `apply`). -/
theorem C02_apply_total (n f : Nat) (m : MR) (h : wfF n f m = true) :
    ∃ ts, applyF n f m = .ok ts :=
  let ⟨ts, h1, _⟩ := C02_apply_lossless n f m h; ⟨ts, h1⟩

/-- Nothing is duplicated: the token leaves of a well-formed match have no repetition. -/
theorem C02_apply_nodup (n f : Nat) (m : MR) (h : wfF n f m = true) :
    ∀ ts, applyF n f m = .ok ts → (leavesL ts).Nodup := by
  intro ts hts
  obtain ⟨ts', h1, h2⟩ := C02_apply_lossless n f m h
  rw [hts] at h1; cases h1
  rw [h2]; exact List.nodup_range'

/-- `root_parse`: for a well-formed root match that starts at the first code token and stays inside
    the trimmed range (contract `MatchStartsAtIdx`, forced by the proof: a later start silently
    drops the tokens in between), the file tree's leaves are exactly all tokens, in order. -/
theorem C02_root_parse_lossless (codes : List Bool) (m : MR)
    (hwf : wf codes.length m = true)
    (hstart : m.truthy = true → m.start = firstCode codes ∧
      m.stop ≤ lastCodeEnd codes (firstCode codes)) :
    ∃ t, rootParse codes m = .ok t ∧ leaves t = List.range' 0 codes.length := by
  have hs := firstCode_le codes
  obtain ⟨hse, hen⟩ := lastCodeEnd_bounds codes (firstCode codes) hs
  unfold rootParse
  simp only
  by_cases heq : (firstCode codes == lastCodeEnd codes (firstCode codes)) = true
  · simp only [heq, if_true]
    exact ⟨_, rfl, by simp⟩
  · simp only [heq, Bool.false_eq_true, if_false]
    obtain ⟨ts, hts, hl⟩ := C02_apply_lossless codes.length (depth m) m hwf
    have happ : MatchResult.apply codes.length m = .ok ts := hts
    simp only [happ]
    refine ⟨_, rfl, ?_⟩
    simp only [leaves_node, leavesL_append, leavesL_toks]
    by_cases htr : m.truthy = true
    · obtain ⟨h1, h2⟩ := hstart htr
      simp only [htr, Bool.not_true, Bool.false_eq_true, if_false]
      by_cases hlt : m.stop < lastCodeEnd codes (firstCode codes)
      · simp only [hlt, if_true]
        have hkb := unmatchedSplit_bounds codes m.stop _ hlt
        generalize unmatchedSplit codes m.stop (lastCodeEnd codes (firstCode codes)) = k at hkb ⊢
        have hms : m.start ≤ m.stop := (wfF_start_le _ _ m hwf).1
        rw [h1] at hms
        simp only [leavesL_append, leavesL_cons, leaves_node, leavesL_toks, leavesL_nil,
          List.append_nil]
        rw [hl, h1]
        rw [List.append_assoc (List.range' (firstCode codes) _)]
        rw [range'_split _ _ _ hkb.1 hkb.2, range'_split _ _ _ hms (by omega)]
        have := range'_three (firstCode codes) (lastCodeEnd codes (firstCode codes)) codes.length hse hen
        simpa using this
      · simp only [hlt, if_false]
        have hstop : m.stop = lastCodeEnd codes (firstCode codes) := by omega
        rw [hl, h1, hstop]
        have := range'_three (firstCode codes) (lastCodeEnd codes (firstCode codes)) codes.length hse hen
        simpa using this
    · have : m.truthy = false := by cases h : m.truthy <;> simp_all
      simp only [this, Bool.not_false, if_true, leavesL_cons, leaves_node, leavesL_toks, leavesL_nil,
        List.append_nil]
      have := range'_three (firstCode codes) (lastCodeEnd codes (firstCode codes)) codes.length hse hen
      simpa using this

/-- The parser's built-in completeness check compares concatenated *text* only; that is strictly
    weaker than leaves = tokens: two equal-text tokens swapped pass the text check. Hence the check
    evaluates leaf identity and positions, not text. -/
theorem C02_text_check_weaker :
    ∃ (texts : List String) (leafOrder : List Nat),
      String.join (leafOrder.map (fun i => texts.getD i "")) = String.join texts ∧
      leafOrder ≠ List.range texts.length :=
  ⟨["a", "a"], [1, 0], by decide, by decide⟩

/-- Ill-formed matches with *separated* overlapping children are caught by the runtime check
    (`Segment skip ahead error`). -/
example : (match applyF 6 2 (.mk 0 6 (some 0) [] [.mk 1 4 (some 1) [] [], .mk 3 5 (some 1) [] []]) with
    | .error e => e == Err.skipAhead
    | .ok _ => false) = true := by decide

/-- …but two children starting at the same index are *not* caught: tokens are duplicated silently
    (so well-formedness of grammar results is a real obligation, validated as contract `GrammarWF`). -/
example : (applyF 6 2 (.mk 0 6 none [] [.mk 1 4 (some 1) [] [], .mk 1 2 (some 1) [] []])).toOption.map leavesL =
    some [0, 1, 2, 3, 1, 2, 3, 4, 5] := by decide

/-! Non-vacuity: a nested well-formed match with inserts at group boundaries. -/
def exMR : MR :=
  .mk 1 6 (some 7) [(1, 0), (6, 1)] [.mk 2 4 (some 8) [(4, 1)] [.mk 2 3 none [] []], .mk 4 4 none [(4, 0)] [], .mk 5 6 (some 9) [] []]

example : wfF 8 3 exMR = true := by decide
example : (applyF 8 3 exMR).toOption.map leavesL = some [1, 2, 3, 4, 5] := by decide

end SqlfluffVerif.MatchResult
