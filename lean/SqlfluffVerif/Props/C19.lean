import SqlfluffVerif.Proofs.Exit
/-!
# C19 — All entry points agree (glue over one abstract core)

The three entry points share one core (`Linter.lint_string` / `lint_paths` produce the same
violations); what differs is glue: which counters gate the fixed text and which expressions give the
exit code. Over the attribute-vector model of that glue:
* `lint` exit is the same function for path and stdin (by construction);
* the fixed text agrees between path and stdin (after the repair of `_stdin_fix`), and with the API
  whenever a countable fixable violation exists;
* the `fix` exit codes of path and stdin agree except in two situations that are characterised
  exactly below and listed as known findings.
-/
namespace SqlfluffVerif.Exit

/-- path and stdin emit the same fixed text (no fatal lint errors) -/
theorem C19_fix_text_path_eq_stdin (fe : Bool) (f : File) (hnf : ∀ v ∈ f.viols, v.fatal = false) :
    pathWrites fe f = (stdinFix fe f).1 := by
  have hcount : count f.viols anyType true false (some true) = count f.viols isLint true false (some true) := by
    unfold count getViolations
    simp only [if_true, Bool.false_eq_true, if_false, List.filter_filter]
    congr 1
    apply List.filter_congr
    intro v hv
    have := hnf v hv
    simp only [anyType, Bool.and_true, this, Bool.or_false, Viol.fixable, isLint]
    cases h : (v.kind == 3) <;> simp
  unfold pathWrites stdinFix
  simp only
  by_cases hb : (fe || unfilteredTmpPrs f == 0) = true
  · have hd : afterDiscard fe f = f := by
      unfold afterDiscard
      simp only [Bool.or_eq_true, beq_iff_eq] at hb
      rcases hb with h | h
      · simp [h]
      · simp [h]
    rw [hd, hb, hcount]; simp
  · have hb' : (fe || unfilteredTmpPrs f == 0) = false := by cases h : (fe || unfilteredTmpPrs f == 0) <;> simp_all
    simp only [Bool.or_eq_false_iff, beq_eq_false_iff_ne] at hb'
    have hfe : fe = false := hb'.1
    have hpos : unfilteredTmpPrs f > 0 := by omega
    have hd : decide (unfilteredTmpPrs f > 0) = true := by simpa using hpos
    subst hfe
    simp only [Bool.false_or, afterDiscard, Bool.not_false, Bool.true_and, hd, if_true]
    have hz : (unfilteredTmpPrs f == 0) = false := by simp; omega
    rw [hz, count_fixable_zero]
    · simp
    · intro v hv hk
      obtain ⟨w, _, rfl⟩ := List.mem_map.mp hv
      by_cases hw : w.kind = 3 <;> simp_all
    · intro v hv
      obtain ⟨w, hw, rfl⟩ := List.mem_map.mp hv
      have := hnf w hw
      by_cases hk : w.kind = 3 <;> simp_all

/-- the API agrees with the path whenever the file has a tree and a countable fixable violation -/
theorem C19_fix_text_api_partial (fe : Bool) (f : File) (ht : f.hasTree = true)
    (hc : count f.viols anyType true false (some true) > 0) :
    apiFix fe f = some (pathWrites fe f) := by
  unfold apiFix pathWrites
  have : decide (count f.viols anyType true false (some true) > 0) = true := by simpa using hc
  simp only [ht, this, Bool.and_true, Bool.true_and]
  cases h : (fe || unfilteredTmpPrs f == 0) <;> simp

/-- Known finding (API): every lint violation ignored (`ignore = linting`) — the CLI skips, the API
    returns the fixed text. -/
example : pathWrites false { viols := [⟨3, true, false, false, true, false⟩], changed := true } = false ∧
    apiFix false { viols := [⟨3, true, false, false, true, false⟩], changed := true } = some true := by decide

/-- Known finding (stdin exit, A): blocked by a suppressed TMP error + an unsuppressed fixable lint. -/
example : pathsFixExit false [{ viols := [⟨0, false, false, true, false, false⟩, ⟨3, false, false, false, true, false⟩], changed := true }] 0 false = 1 ∧
    (stdinFix false { viols := [⟨0, false, false, true, false, false⟩, ⟨3, false, false, false, true, false⟩], changed := true }).2 = 0 := by decide

/-- Known finding (stdin exit, B): fix_even_unparsable with an unsuppressed TMP error. -/
example : pathsFixExit true [{ viols := [⟨0, false, false, false, false, false⟩], changed := false }] 0 false = 0 ∧
    (stdinFix true { viols := [⟨0, false, false, false, false, false⟩], changed := false }).2 = 1 := by decide

end SqlfluffVerif.Exit
