import SqlfluffVerif.Model.Funnel
/-!
# C04 — parse, lint and fix never crash (the funnel)

* `C04_total` — if the templater raises only SQLTemplaterError/SQLFluffSkipFile, the lexer only SQLLexError and the
  parser only SQLParseError (contract `StagesRaiseOwnErrors`, sampled by the stress runs), `lintFile` returns a result
  for every environment: whatever the rules do, whatever the limits are.
* `C04_reports_*` — and the problem is reported as TMP / LXR / PRS.
* `C04_node_limit`, `C04_depth_limit` — inputs over the node or depth limit give a PRS result, never an exception
  (the parser is not even called for the node limit; `descend` raises only SQLParseError, for every depth).
* `C04_escape_witness` — a stage raising anything else does escape: the hypothesis is what the code relies on.
-/
namespace SqlfluffVerif.Funnel

def OwnErrors (e : Env) : Prop :=
  (∀ x, e.render = .error x → x = .templater ∨ x = .skipFile) ∧
  (∀ x, e.lex = .error x → x = .lexErr) ∧
  (∀ x, e.parse = .error x → x = .parseErr)

theorem C04_total (maxNodes : Nat) (e : Env) (h : OwnErrors e) : ∃ vs, lintFile maxNodes e = .ok vs := by
  obtain ⟨h1, h2, h3⟩ := h
  unfold lintFile renderStage
  cases hr : e.render with
  | error x =>
    rcases h1 x hr with rfl | rfl <;> exact ⟨_, rfl⟩
  | ok v1 =>
    simp only [bind, Except.bind, Bool.not_true, Bool.false_eq_true, if_false]
    unfold lexStage
    cases hl : e.lex with
    | error x => have := h2 x hl; subst this; exact ⟨_, rfl⟩
    | ok v2 =>
      simp only [Bool.not_true, Bool.false_eq_true, if_false]
      unfold parseStage
      by_cases hn : (decide (maxNodes > 0) && decide (e.nTokens > maxNodes)) = true
      · simp only [hn, if_true]; exact ⟨_, rfl⟩
      · simp only [hn, Bool.false_eq_true, if_false]
        cases hp : e.parse with
        | error x => have := h3 x hp; subst this; exact ⟨_, rfl⟩
        | ok v3 => exact ⟨_, rfl⟩

theorem C04_reports_tmp (maxNodes : Nat) (e : Env) (h : e.render = .error .templater) :
    lintFile maxNodes e = .ok [.TMP] := by
  simp [lintFile, renderStage, h, bind, Except.bind, pure, Except.pure]

theorem C04_reports_lxr (maxNodes : Nat) (e : Env) (v1 : List Viol) (h1 : e.render = .ok v1) (h : e.lex = .error .lexErr) :
    lintFile maxNodes e = .ok (v1 ++ [.LXR]) := by
  simp [lintFile, renderStage, lexStage, h1, h, bind, Except.bind, pure, Except.pure]

theorem C04_reports_prs (maxNodes : Nat) (e : Env) (v1 v2 : List Viol) (h1 : e.render = .ok v1) (h2 : e.lex = .ok v2)
    (h : e.parse = .error .parseErr) : lintFile maxNodes e = .ok (v1 ++ v2 ++ [.PRS]) := by
  simp only [lintFile, renderStage, lexStage, parseStage, h1, h2, h, bind, Except.bind, pure, Except.pure]
  by_cases c : (decide (maxNodes > 0) && decide (e.nTokens > maxNodes)) = true
  · simp [c]
  · simp [c]

/-- over the node limit: PRS, whatever the parser would have done (it is not called) -/
theorem C04_node_limit (maxNodes : Nat) (e : Env) (v1 v2 : List Viol) (h1 : e.render = .ok v1) (h2 : e.lex = .ok v2)
    (hpos : 0 < maxNodes) (hover : maxNodes < e.nTokens) : lintFile maxNodes e = .ok (v1 ++ v2 ++ [.PRS]) := by
  have : (decide (maxNodes > 0) && decide (e.nTokens > maxNodes)) = true := by simp [hpos, hover]
  simp [lintFile, renderStage, lexStage, parseStage, h1, h2, this, bind, Except.bind, pure, Except.pure]

/-- the depth limit raises SQLParseError only, for every starting depth and every nesting -/
theorem C04_depth_limit (limit : Nat) : ∀ (n depth : Nat), (∃ d, descend limit depth n = .ok d) ∨ descend limit depth n = .error .parseErr := by
  intro n
  induction n with
  | zero => intro depth; exact Or.inl ⟨depth, rfl⟩
  | succ n ih =>
    intro depth
    simp only [descend]
    split
    · exact Or.inr rfl
    · exact ih (depth + 1)

theorem C04_depth_exceeded (limit : Nat) (hl : 0 < limit) : ∀ (n depth : Nat), limit < depth + n → depth ≤ limit →
    descend limit depth n = .error .parseErr := by
  intro n
  induction n with
  | zero => intro depth h1 h2; omega
  | succ n ih =>
    intro depth h1 h2
    simp only [descend]
    by_cases c : depth + 1 > limit
    · simp [hl, c]
    · have : (decide (limit > 0) && decide (depth + 1 > limit)) = false := by simp [c]
      simp only [this, Bool.false_eq_true, if_false]
      exact ih (depth + 1) (by omega) (by omega)

theorem C04_escape_witness : lintFile 0 ⟨.error .other, .ok [], 0, .ok [], []⟩ = .error .other := by
  simp [lintFile, renderStage, bind, Except.bind]

example : OwnErrors ⟨.error .templater, .ok [], 0, .ok [], [(1, .error .other)]⟩ := by
  refine ⟨?_, ?_, ?_⟩ <;> intro x h <;> simp_all

end SqlfluffVerif.Funnel
