import SqlfluffVerif.Proofs.RefGraph
/-!
# C29 — Dialect definitions are complete

General theorem (once): a closed adjacency table implies that every reference reachable from the root
resolves (or is a listed known finding). The per-dialect tables and their `closed`/`complete`
theorems are generated on every run into `Gen/Dialect_<name>.lean` by
`harness/translate/dialect_graph.py` from the live dialect objects and re-checked by the kernel
(`decide +kernel` per 100-row chunk).
-/
namespace SqlfluffVerif.RefGraph

theorem C29_closed_implies_reachable_defined (adj : List (List Nat)) (n : Nat) (known : List Nat)
    (hn : 0 < n) (hc : closedRows n known adj = true) :
    ∀ k, Reach adj k → k < n ∨ k ∈ known :=
  closed_reach adj n known hn hc

/-- With no known findings the conclusion is plain definedness. -/
theorem C29_closed_no_findings (adj : List (List Nat)) (n : Nat)
    (hn : 0 < n) (hc : closedRows n [] adj = true) : ∀ k, Reach adj k → k < n := by
  intro k hk
  rcases closed_reach adj n [] hn hc k hk with h | h
  · exact h
  · simp at h

/-! Non-vacuity: a 3-node graph with a cycle; and a dangling edge is rejected. -/
example : closedRows 3 [] [[1, 2], [0], [2]] = true := by decide
example : closedRows 3 [] [[1, 3], [0], [2]] = false := by decide
example : Reach [[1, 2], [0], [2]] 2 := Reach.step 0 2 Reach.root (by decide)

end SqlfluffVerif.RefGraph
