import SqlfluffVerif.Model.Select
/-!
# C21 — Rule selection is exact and rules are independent

General theorems here; the obligations on the live rule table (`every_ref_reaches_its_rule`,
`code_selects_only_itself`, `all_group_is_everything`, `codes_nodup`) are generated into
`Gen/Rules.lean` on every run.
-/
namespace SqlfluffVerif.Select
open SqlfluffVerif.Noqa (Str)

/-- The rules that run are exactly the registered rules matched by the selection and not matched by
    the exclusion (an empty selection means every rule). -/
theorem C21_select_spec (ms : List Manifest) (allow deny : List Str) (c : Str) :
    c ∈ select ms allow deny ↔
      c ∈ ms.map (·.code) ∧
      matchesRule ms (if allow.isEmpty then ms.map (·.code) else allow) c = true ∧
      matchesRule ms deny c = false := by
  unfold select matchesRule
  simp only [List.mem_filter, Bool.and_eq_true, Bool.not_eq_true']

/-- Selection only ever yields registered rules, in register order, without repetition. -/
theorem C21_select_sublist (ms : List Manifest) (allow deny : List Str) :
    (select ms allow deny).Sublist (ms.map (·.code)) := by
  unfold select; exact List.filter_sublist

/-- Excluding everything that is selected leaves nothing. -/
theorem C21_deny_wins (ms : List Manifest) (refs : List Str) (hne : refs ≠ []) :
    select ms refs refs = [] := by
  unfold select
  have : refs.isEmpty = false := by cases refs <;> simp_all
  simp only [this]
  rw [List.filter_eq_nil_iff]
  intro c _
  cases h : (expandRefs (referenceMap ms) refs).contains c with
  | true => simp
  | false =>
    simp only [Bool.not_false, Bool.and_true]
    intro hm
    simp only [Bool.false_eq_true, if_false] at hm
    rw [hm] at h; exact absurd h (by simp)

/-! ### Lint-mode frame rule: one pass, every rule crawls the same tree. -/

structure Viol where
  rule : Nat
  payload : Nat
deriving DecidableEq

/-- One lint pass: each selected rule crawls the (unchanged) tree; results are concatenated. -/
def lintOnce (crawl : Nat → List Viol) (rules : List Nat) : List Viol := rules.flatMap crawl

/-- If a rule's crawl depends only on the tree (it is a function `crawl r`) and tags its own
    violations, then what it reports is the same under every selection containing it once. -/
theorem C21_lint_independent (crawl : Nat → List Viol) (rules : List Nat) (r : Nat)
    (htag : ∀ q, ∀ v ∈ crawl q, v.rule = q) (hnd : rules.Nodup) (hr : r ∈ rules) :
    (lintOnce crawl rules).filter (fun v => v.rule == r) = crawl r := by
  unfold lintOnce
  induction rules with
  | nil => simp at hr
  | cons q qs ih =>
    rw [List.nodup_cons] at hnd
    simp only [List.flatMap_cons, List.filter_append]
    by_cases hq : q = r
    · subst hq
      have h1 : (crawl q).filter (fun v => v.rule == q) = crawl q := by
        apply List.filter_eq_self.mpr; intro v hv; simp [htag q v hv]
      have h2 : (qs.flatMap crawl).filter (fun v => v.rule == q) = [] := by
        rw [List.filter_eq_nil_iff]
        intro v hv
        obtain ⟨p, hp, hvp⟩ := List.mem_flatMap.mp hv
        have := htag p v hvp
        simp only [beq_iff_eq]
        intro h; rw [this] at h; subst h; exact hnd.1 hp
      rw [h1, h2]; simp
    · have hr' : r ∈ qs := by
        rcases List.mem_cons.mp hr with h | h
        · exact absurd h.symm hq
        · exact h
      have h1 : (crawl q).filter (fun v => v.rule == r) = [] := by
        rw [List.filter_eq_nil_iff]
        intro v hv; simp [htag q v hv, hq]
      rw [h1, ih hnd.2 hr']; simp

/-! Non-vacuity -/
def exMs : List Manifest :=
  [{ code := [65], name := [110, 49], groups := [[97, 108, 108], [103]], aliases := [[76, 49]] },
   { code := [66], name := [110, 50], groups := [[97, 108, 108]], aliases := [[65]] }]   -- alias collides with code A

example : select exMs [[103]] [] = [[65]] := by decide
example : select exMs [[65]] [] = [[65]] := by decide        -- the colliding alias of B is dropped
example : select exMs [] [[110, 49]] = [[66]] := by decide

end SqlfluffVerif.Select
