import SqlfluffVerif.Model.Edits
/-!
# C14 — Layout fixes change only whitespace (composition)

If every edit applied by the layout rules is whitespace-only — the tokens it removes and the tokens it
inserts have the same code projection and the same comments — then any sequence of such edits leaves
the code-token sequence and the comment multiset unchanged. Whether each real `LintFix` is
whitespace-only is the sampled contract; the end-to-end statement `specC14` is evaluated on real fixes.
-/
namespace SqlfluffVerif.Edits

theorem codeProj_append (a b : List Tok) : codeProj (a ++ b) = codeProj a ++ codeProj b := by
  simp [codeProj, List.filter_append]

theorem comments_append (a b : List Tok) : comments (a ++ b) = comments a ++ comments b := by
  simp [comments, List.filter_append]

/-- an edit that keeps the code projection of the range it replaces keeps the whole file's -/
theorem C14_ws_edit_preserves_code (ts : List Tok) (a b : Nat) (news : List Tok) (hab : a ≤ b)
    (h : codeProj ((ts.drop a).take (b - a)) = codeProj news) :
    codeProj (applyEdit ts a b news) = codeProj ts := by
  have hsplit : ts = ts.take a ++ ((ts.drop a).take (b - a) ++ ts.drop b) := by
    have h1 : ts = ts.take a ++ ts.drop a := (List.take_append_drop a ts).symm
    have h2 : ts.drop a = (ts.drop a).take (b - a) ++ (ts.drop a).drop (b - a) := (List.take_append_drop _ _).symm
    have h3 : (ts.drop a).drop (b - a) = ts.drop b := by rw [List.drop_drop]; congr 1; omega
    rw [h3] at h2
    exact h1.trans (by rw [← h2])
  unfold applyEdit
  conv => rhs; rw [hsplit]
  simp only [codeProj_append, List.append_assoc, h]

/-- same for the comments (as a list, hence as a multiset) when the edit keeps them in place -/
theorem C14_ws_edit_preserves_comments (ts : List Tok) (a b : Nat) (news : List Tok) (hab : a ≤ b)
    (h : comments ((ts.drop a).take (b - a)) = comments news) :
    comments (applyEdit ts a b news) = comments ts := by
  have hsplit : ts = ts.take a ++ ((ts.drop a).take (b - a) ++ ts.drop b) := by
    have h1 : ts = ts.take a ++ ts.drop a := (List.take_append_drop a ts).symm
    have h2 : ts.drop a = (ts.drop a).take (b - a) ++ (ts.drop a).drop (b - a) := (List.take_append_drop _ _).symm
    have h3 : (ts.drop a).drop (b - a) = ts.drop b := by rw [List.drop_drop]; congr 1; omega
    rw [h3] at h2
    exact h1.trans (by rw [← h2])
  unfold applyEdit
  conv => rhs; rw [hsplit]
  simp only [comments_append, List.append_assoc, h]

/-- a whole sequence of whitespace-only edits: by induction over the edit list -/
theorem C14_ws_edits_preserve (edits : List (Nat × Nat × List Tok)) :
    ∀ (ts : List Tok),
      (∀ (pre : List (Nat × Nat × List Tok)) (e : Nat × Nat × List Tok) (post : List (Nat × Nat × List Tok)),
        edits = pre ++ e :: post →
        let cur := pre.foldl (fun acc x => applyEdit acc x.1 x.2.1 x.2.2) ts
        e.1 ≤ e.2.1 ∧ codeProj ((cur.drop e.1).take (e.2.1 - e.1)) = codeProj e.2.2) →
      codeProj (edits.foldl (fun acc x => applyEdit acc x.1 x.2.1 x.2.2) ts) = codeProj ts := by
  induction edits with
  | nil => intro ts _; rfl
  | cons e es ih =>
    intro ts h
    simp only [List.foldl_cons]
    have h0 := h [] e es rfl
    simp only [List.foldl_nil] at h0
    rw [ih (applyEdit ts e.1 e.2.1 e.2.2)]
    · exact C14_ws_edit_preserves_code ts e.1 e.2.1 e.2.2 h0.1 h0.2
    · intro pre e' post heq
      have := h (e :: pre) e' post (by rw [heq]; rfl)
      simpa [List.foldl_cons] using this

/-- tokens of whitespace or newline class contribute neither code nor comments: inserting them (a `create_before` /
    `create_after` of constructed segments) or replacing whitespace by them is a whitespace-only edit -/
theorem C14_inserted_ws_neutral (news : List Tok) (h : ∀ t ∈ news, t.cls ≤ 1) :
    codeProj news = [] ∧ comments news = [] := by
  constructor
  · unfold codeProj
    have : news.filter isCode = [] := by
      apply List.filter_eq_nil_iff.mpr
      intro t ht
      have := h t ht
      simp [isCode]; omega
    simp [this]
  · unfold comments
    have : news.filter isComment = [] := by
      apply List.filter_eq_nil_iff.mpr
      intro t ht
      have := h t ht
      simp [isComment]; omega
    simp [this]

/-! Non-vacuity: collapse a double space and move a newline; a gluing edit is rejected by the spec. -/
def exBefore : List Tok := [⟨3, [97]⟩, ⟨0, [32, 32]⟩, ⟨3, [98]⟩, ⟨2, [45, 45]⟩, ⟨1, [10]⟩]
example : specC14 exBefore (applyEdit exBefore 1 2 [⟨0, [32]⟩]) = true := by decide
example : specC14 exBefore (applyEdit exBefore 1 3 [⟨3, [97, 98]⟩]) = false := by decide

end SqlfluffVerif.Edits
