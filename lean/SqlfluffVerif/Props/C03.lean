import SqlfluffVerif.Proofs.Balance
import SqlfluffVerif.Model.TreeSpec
/-!
# C03 — Parse trees are well-formed and indentation markers balance

What is proved here (for every match tree): the indent values that appear at the leaves of a
materialised tree are exactly the inserts of the match result — `apply` neither invents, drops nor
duplicates an indent marker — and a bracket pair contributes zero. Whether the *grammars* emit
balanced inserts is decided per dialect by the generated obligations (see `harness/c03.py`) and, on
real trees, by the decidable statement `TreeSpec.specC03`, evaluated by the driver.
-/
namespace SqlfluffVerif.MatchResult

/-- Indent accounting: the sum of indent values over the leaves of the materialised tree equals the
    sum over every insert of the match tree. -/
theorem C03_apply_balance (n : Nat) : ∀ (f : Nat) (m : MR) (ts : List Tree),
    applyF n f m = .ok ts → metaSumL ts = insSumF f m := by
  intro f
  induction f with
  | zero => intro m ts h; simp [applyF] at h
  | succ f ih =>
    intro m ts h
    obtain ⟨s, e, cls, ins, ch⟩ := m
    simp only [applyF] at h
    split at h
    · -- zero length
      split at h; · cases h
      split at h; · cases h
      split at h; · cases h
      split at h; · cases h
      rename_i hch _ _
      cases h
      have : ch = [] := by cases ch <;> simp_all
      subst this
      simp [insSumF, metaSumL_map_ins]
    · split at h; · cases h
      split at h; · cases h
      rename_i childTrigs hct
      split at h; · cases h
      rename_i res hres
      have hsum := runTriggers_sum n e _ s none [] res hres
      have hch := mapTrigs_sum (applyF n f) (insSumF f) ch (fun c _ ts hts => ih c ts hts) childTrigs hct
      rw [trigsSum_sort, trigsSum_append, trigsSum_insTrigs, hch] at hsum
      simp only [metaSumL_nil, Int.zero_add] at hsum
      cases cls with
      | none => cases h; simpa [insSumF] using hsum
      | some c => cases h; simpa [insSumF] using hsum

/-- A bracket pair (`Indent` after the opening bracket, `Dedent` before the closing one) is neutral. -/
theorem C03_bracket_pair_zero : insVals [(1, 0), (5, 1)] = 0 := by decide

/-- If every insert list in a match tree sums to zero (what complete `Sequence`/`Bracketed` matches
    with balanced element lists produce), the materialised tree's final balance is zero. -/
theorem C03_balanced_inserts_balanced_tree (n f : Nat) (m : MR) (ts : List Tree)
    (h : applyF n f m = .ok ts) (hz : insSumF f m = 0) : metaSumL ts = 0 := by
  rw [C03_apply_balance n f m ts h, hz]

/-- The defect on the unchanged tree: a `Sequence` that runs out of segments (greedy modes) flushes
    its buffered `Indent` without the partner `Dedent`; the resulting match has insert sum +1, so the
    tree's final balance is +1 (witness: the text `SELECT`). -/
example : insSumF 2 (.mk 0 1 (some 1) [(1, 0)] [.mk 0 1 (some 5) [] []]) = 1 := by decide

end SqlfluffVerif.MatchResult

namespace SqlfluffVerif.TreeSpec

/-- `from_child_markers` is what `nodeOK` demands: a node built from its children satisfies the span
    clause by construction. -/
theorem C03_span_from_children (k : Nat) (c : PT) (cs : List PT) :
    let sp := spanOfChildren (c :: cs)
    let p := PT.mk k sp.1 sp.2.1 sp.2.2.1 sp.2.2.2 0 (c :: cs)
    (p.ts == sp.1 && p.te == sp.2.1 && p.ss == sp.2.2.1 && p.se == sp.2.2.2) = true := by
  simp [PT.ts, PT.te, PT.ss, PT.se]

/-! Non-vacuity: a small tree `file( stmt( kw  ws  Indent  id  Dedent ) nl )` passes; the same tree
    with the Dedent removed has final balance +1. -/
def exTree : PT :=
  .mk 1 0 9 0 9 0 [
    .mk 0 0 8 0 8 0 [.mk 3 0 6 0 6 0 [], .mk 4 6 7 6 7 0 [], .mk 5 7 7 7 7 1 [], .mk 3 7 8 7 8 0 [], .mk 5 8 8 8 8 (-1) []],
    .mk 4 8 9 8 9 0 []]

example : specC03 10 exTree = (true, true, 0) := by decide

end SqlfluffVerif.TreeSpec
