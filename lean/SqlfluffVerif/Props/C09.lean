import SqlfluffVerif.Proofs.Placeholder
import SqlfluffVerif.Model.PyFormat
/-!
# C09 — Python-format and placeholder templaters render faithfully

Placeholder (full): the rendered text is the source with every matched parameter replaced by its
configured value, or by its name, with the matched quotation re-applied; nameless styles count 1, 2, ….
Python (partial): the dot-notation rewrite is modelled exactly (`Model/PyFormat.lean`, tied to `re.sub`
by correspondence); `str.format` is external.
-/
namespace SqlfluffVerif.Placeholder
open SqlfluffVerif.Slices

/-- the statement: copy the text between matches, substitute each match -/
def renderSpec (src : Str) (ctx : List (Str × Str)) : Nat → Nat → List Found → Str
  | pos, _, [] => src.drop pos
  | pos, counter, f :: fs =>
    let r := replacement ctx f counter
    sliceOf src pos f.a ++ r.1 ++ renderSpec src ctx f.b r.2 fs

theorem fold_render (src : Str) (ctx : List (Str × Str)) :
    ∀ (ms : List Found) (st : St),
      (finish src (ms.foldl (step src ctx) st)).1 = st.out ++ renderSpec src ctx st.lastRaw st.counter ms := by
  intro ms
  induction ms with
  | nil =>
    intro st
    simp only [List.foldl_nil, finish, renderSpec]
    by_cases h : src.length > st.lastRaw
    · simp [h]
    · have : src.drop st.lastRaw = [] := List.drop_eq_nil_of_le (by omega)
      simp [h, this]
  | cons f fs ih =>
    intro st
    simp only [List.foldl_cons, renderSpec]
    rw [ih]
    simp only [step]
    generalize replacement ctx f st.counter = rc
    obtain ⟨rep, c'⟩ := rc
    simp [List.append_assoc]

/-- for every source, context and match list the placeholder templater renders the substitution -/
theorem C09_placeholder_render (src : Str) (ctx : List (Str × Str)) (ms : List Found) :
    (process src ctx ms).1 = renderSpec src ctx 0 1 ms := by
  unfold process
  have := fold_render src ctx ms {}
  simpa using this

/-- a parameter with a configured value renders that value; without one it renders its name -/
theorem C09_value_or_name (ctx : List (Str × Str)) (nm : Str) (c : Nat) :
    (replacement ctx ⟨0, 0, some nm, none⟩ c).1 = (lookupCtx ctx nm).getD nm := by
  simp only [replacement]
  cases lookupCtx ctx nm <;> rfl

end SqlfluffVerif.Placeholder

namespace SqlfluffVerif.PyFormat

/-- a field without a dot is left alone; a dotted field is redirected to the `sqlfluff` mapping,
    keeping its format spec -/
example : dotRewrite ("{a} {b.c} {d.e:>8}".toList.map Char.toNat) =
    "{a} {sqlfluff[b.c]} {sqlfluff[d.e]:>8}".toList.map Char.toNat := by decide

/-- Witness of the defect named by the property: escaped braces are not recognised by the rewrite —
    in `{{ x {a.b}` the pattern starts at the first (escaped) brace and swallows it. -/
theorem C09_dot_rewrite_escaped_witness :
    dotRewrite ("{{ x {a.b}".toList.map Char.toNat) = "{sqlfluff[{ x {a.b]}".toList.map Char.toNat := by decide

end SqlfluffVerif.PyFormat
