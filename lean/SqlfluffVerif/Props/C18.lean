import SqlfluffVerif.Proofs.Exit
/-!
# C18 — Files with template or parse errors are never modified by fix

Model: `Model/Exit.lean`. "Suppressed" = `ignore=` configuration, `noqa`, or `warnings=` downgrade.
All three gates use the *unfiltered* TMP/PRS count, so suppression does not re-enable fixing. (The
Python API used the filtered count and crashed without a tree; repaired by a `fix:` commit, see
known_findings.json.)
-/
namespace SqlfluffVerif.Exit

/-- CLI paths: a file with any TMP/PRS violation — suppressed or not — is never written. -/
theorem C18_path_gate_spec (f : File) (h : ∃ v ∈ f.viols, v.isTmpPrs = true) :
    pathWrites false f = false := by
  have hp := (unfilteredTmpPrs_pos f).mpr h
  have : (unfilteredTmpPrs f == 0) = false := by simp; omega
  simp [pathWrites, this]

/-- CLI stdin: with any TMP/PRS violation the output equals the input (no fatal lint errors). -/
theorem C18_stdin_gate_spec (f : File) (h : ∃ v ∈ f.viols, v.isTmpPrs = true)
    (hnf : ∀ v ∈ f.viols, v.fatal = false) : (stdinFix false f).1 = false := by
  have hp := (unfilteredTmpPrs_pos f).mpr h
  have hd : decide (unfilteredTmpPrs f > 0) = true := by simpa using hp
  simp only [stdinFix, afterDiscard, Bool.not_false, Bool.true_and, hd, if_true]
  rw [count_fixable_zero]
  · simp
  · intro v hv hk
    obtain ⟨w, _, rfl⟩ := List.mem_map.mp hv
    by_cases hw : w.kind = 3 <;> simp_all
  · intro v hv
    obtain ⟨w, hw, rfl⟩ := List.mem_map.mp hv
    have := hnf w hw
    by_cases hk : w.kind = 3 <;> simp_all

/-- Python API (after the repair): any TMP/PRS violation — suppressed or not — blocks fixing. -/
theorem C18_api_gate_spec (f : File) (h : ∃ v ∈ f.viols, v.isTmpPrs = true) :
    apiFix false f = some false := by
  have hp := (unfilteredTmpPrs_pos f).mpr h
  have : (unfilteredTmpPrs f == 0) = false := by simp; omega
  simp [apiFix, this]

/-- The API never raises, whatever the file looks like (no tree included). -/
theorem C18_api_total (fe : Bool) (f : File) : (apiFix fe f).isSome = true := by
  unfold apiFix; simp only; split <;> rfl

/-- The input that exposed the defect before the repair (one `noqa`-masked PRS violation plus one
    fixable lint violation): all three entry points now leave it alone. -/
def apiWitness : File :=
  { viols := [⟨1, false, false, true, false, false⟩, ⟨3, false, false, false, true, false⟩], changed := true }

theorem C18_entry_points_agree_on_witness :
    apiFix false apiWitness = some false ∧ apiFix false { apiWitness with hasTree := false } = some false ∧
    pathWrites false apiWitness = false ∧ (stdinFix false apiWitness).1 = false := by decide

/-- With `fix_even_unparsable` the gates reduce to "has a fixable violation and the text changes". -/
theorem C18_fix_even_unparsable (f : File) :
    pathWrites true f = (decide (count f.viols anyType true false (some true) > 0) && f.changed) := by
  simp [pathWrites]

end SqlfluffVerif.Exit
