import SqlfluffVerif.Model.Assemble
/-!
# C24 — Parallel and serial runs agree (assembly part)

If every file's result is a function of the file alone (contract `PerFileFunctional`, sampled by the
harness with injected worker delays), then whatever order the workers finish in — any permutation of
the arrival list — the assembled counters and the exit code are the same. The OS scheduler and
`multiprocessing` are not modelled.
-/
namespace SqlfluffVerif.Assemble
open SqlfluffVerif.Exit

theorem addRes_comm (t : Totals) (a b : Res) : addRes (addRes t a) b = addRes (addRes t b) a := by
  simp only [addRes, Totals.mk.injEq]
  refine ⟨?_, ?_, ?_, ?_, ?_⟩ <;> simp only [Nat.add_assoc] <;> congr 1 <;> exact Nat.add_comm _ _

theorem foldl_perm (l₁ l₂ : List Res) (h : l₁.Perm l₂) : ∀ t, l₁.foldl addRes t = l₂.foldl addRes t := by
  induction h with
  | nil => intro t; rfl
  | cons x _ ih => intro t; exact ih _
  | swap x y l => intro t; simp only [List.foldl_cons]; rw [addRes_comm]
  | trans _ _ ih1 ih2 => intro t; rw [ih1, ih2]

/-- Any arrival order gives the same totals. -/
theorem C24_assemble_perm_invariant (l₁ l₂ : List Res) (h : l₁.Perm l₂) : assemble l₁ = assemble l₂ :=
  foldl_perm l₁ l₂ h _

/-- …hence the same exit code. -/
theorem C24_exit_perm_invariant (l₁ l₂ : List Res) (h : l₁.Perm l₂) :
    exitOf (assemble l₁) = exitOf (assemble l₂) := by rw [C24_assemble_perm_invariant l₁ l₂ h]

/-- The per-file results themselves are the same set in any arrival order. -/
theorem C24_same_files (l₁ l₂ : List Res) (h : l₁.Perm l₂) (r : Res) : r ∈ l₁ ↔ r ∈ l₂ := h.mem_iff

/-- The totals' violation count is the sum the `lint` exit code is computed from. -/
theorem C24_assemble_violations (l : List Res) :
    (assemble l).violations = ((l.map (·.2)).map numViolations).sum := by
  have : ∀ (t : Totals), (l.foldl addRes t).violations = t.violations + ((l.map (·.2)).map numViolations).sum := by
    induction l with
    | nil => intro t; simp
    | cons x xs ih => intro t; simp only [List.foldl_cons, List.map_cons, List.sum_cons]; rw [ih]; simp [addRes]; omega
  simpa [assemble] using this ⟨0, 0, 0, 0, 0⟩

/-! Non-vacuity -/
def f1 : File := { viols := [⟨3, false, false, false, true, false⟩], changed := true }
def f2 : File := { viols := [], changed := false }
example : assemble [(0, f1), (1, f2)] = assemble [(1, f2), (0, f1)] := by decide

end SqlfluffVerif.Assemble
