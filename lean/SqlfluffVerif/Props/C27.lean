import SqlfluffVerif.Model.Config
/-!
# C27 — Configuration precedence and isolation

Precedence is proved over the path-map view of configurations: combining layers gives, for each
setting, the value from the last (highest-precedence) layer that sets it; inline directives win over
everything for that file. Isolation (no leaking between files) is a property of object sharing in the
real code and is checked by the history correspondence in `harness/c27.py`.
-/
namespace SqlfluffVerif.Config

theorem find_filter_of {α} (q r : α → Bool) (l : List α) (h : ∀ e ∈ l, q e = true → r e = true) :
    (l.filter r).find? q = l.find? q := by
  induction l with
  | nil => rfl
  | cons x xs ih =>
    have ih' := ih (fun e he => h e (List.mem_cons_of_mem _ he))
    by_cases hq : q x = true
    · have hr := h x (by simp) hq
      simp [List.filter, hr, List.find?, hq]
    · have hq' : q x = false := by cases hx : q x <;> simp_all
      by_cases hr : r x = true
      · simp [List.filter, hr, List.find?, hq', ih']
      · have hr' : r x = false := by cases hx : r x <;> simp_all
        simp [List.filter, hr', List.find?, hq', ih']

theorem lookup_append (p : Path) (a b : Layer) :
    lookup p (a ++ b) = (lookup p b).or (lookup p a) := by
  unfold lookup
  rw [List.reverse_append, List.find?_append]
  cases h : b.reverse.find? (fun e => e.1 == p) <;> simp [Option.or]

theorem lookup_none_iff (p : Path) (b : Layer) : lookup p b = none ↔ ∀ y ∈ b, y.1 ≠ p := by
  unfold lookup
  constructor
  · intro h y hy hyp
    have : b.reverse.find? (fun e => e.1 == p) = none := by
      cases h' : b.reverse.find? (fun e => e.1 == p) <;> simp_all
    rw [List.find?_eq_none] at this
    exact this y (by simpa using hy) (by simp [hyp])
  · intro h
    have : b.reverse.find? (fun e => e.1 == p) = none := by
      rw [List.find?_eq_none]
      intro y hy; have := h y (by simpa using hy); simpa using this
    simp [this]

theorem lookup_filter_survives (p : Path) (a b : Layer) (hb : lookup p b = none) (hpf : prefixFree a b = true) :
    lookup p (a.filter (survives b)) = lookup p a := by
  have hnb := (lookup_none_iff p b).mp hb
  unfold lookup
  congr 1
  rw [← List.filter_reverse]
  apply find_filter_of
  intro e he hep
  have hep' : e.1 = p := by simpa using hep
  have hea : e ∈ a := by simpa using he
  unfold survives
  simp only [Bool.not_eq_true', List.any_eq_false, Bool.or_eq_true, beq_iff_eq, not_or]
  intro y hy
  refine ⟨fun hyp => hnb y hy (hyp.trans hep'), ?_⟩
  intro hpre
  unfold prefixFree at hpf
  simp only [Bool.not_eq_true', List.any_eq_false, List.any_eq_true, Bool.or_eq_true, not_exists, not_and,
    not_or] at hpf
  exact (hpf e hea y hy).1 hpre

/-- Two layers: each setting takes its value from the later layer if that layer sets it, else from
    the earlier one (no section/value clash between the layers). -/
theorem C27_combine_later_wins (a b : Layer) (p : Path) (hpf : prefixFree a b = true) :
    ∃ r, combine a b = .ok r ∧ lookup p r = (lookup p b).or (lookup p a) := by
  have hclash : clash a b = false := by
    unfold prefixFree at hpf
    unfold clash
    simp only [Bool.not_eq_true', List.any_eq_false, List.any_eq_true, Bool.or_eq_true, not_exists, not_and,
      not_or] at hpf ⊢
    intro y hy x hx
    exact (hpf x hx y hy).2
  refine ⟨a.filter (survives b) ++ b, by simp [combine, hclash], ?_⟩
  rw [lookup_append]
  cases hb : lookup p b with
  | some v => simp [Option.or]
  | none => simp [Option.or, lookup_filter_survives p a b hb hpf]

/-- A setting only a lower layer defines is inherited unchanged. -/
theorem C27_inherits (a b : Layer) (p : Path) (hpf : prefixFree a b = true) (hb : lookup p b = none) :
    ∃ r, combine a b = .ok r ∧ lookup p r = lookup p a := by
  obtain ⟨r, h1, h2⟩ := C27_combine_later_wins a b p hpf
  exact ⟨r, h1, by rw [h2, hb]; simp [Option.or]⟩

/-- Inline directives override every layer, for that file's configuration. -/
theorem C27_inline_wins (l : Layer) (p : Path) (v : Nat) : lookup p (setValue l p v) = some v := by
  unfold setValue
  rw [lookup_append]
  simp [lookup, Option.or]

/-- …and leave every other setting of that configuration alone. -/
theorem C27_inline_frame (l : Layer) (p q : Path) (v : Nat) (h : q ≠ p) :
    lookup q (setValue l p v) = lookup q l := by
  unfold setValue
  rw [lookup_append]
  have h1 : lookup q [(p, v)] = none := by
    simp [lookup, List.find?]; intro hpq; exact h hpq.symm
  rw [h1]
  simp only [Option.or]
  unfold lookup
  congr 1
  rw [← List.filter_reverse]
  apply find_filter_of
  intro e _ heq
  have : e.1 = q := by simpa using heq
  simp [this, h]

/-- The section/value clash that makes `nested_combine` raise `ValueError` is exactly `clash`. -/
example : (combine [([1, 2], 5)] [([1], 7)]).toOption = none := by decide
/-- A value silently replaced by a section. -/
example : (combine [([1], 7)] [([1, 2], 5)]).toOption = some [([1, 2], 5)] := by decide

/-! Non-vacuity: defaults ⊕ project ⊕ overrides. -/
example : (combineAll [[([0, 1], 80), ([0, 2], 4)], [([0, 1], 100)], [([0, 2], 2)]]).toOption.map (lookup [0, 1]) = some (some 100) := by decide
example : prefixFree [([0, 1], 80)] [([0, 1], 100), ([3, 4, 5], 1)] = true := by decide

end SqlfluffVerif.Config
