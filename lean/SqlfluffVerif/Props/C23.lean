import SqlfluffVerif.Proofs.Pos
/-!
# C23 — Reported violation positions are accurate (conversions)

`source_position_dict_from_slice` builds the six machine-readable keys from one slice with the
C31 conversion, so start/end offsets and line/column pairs agree by construction; positions lie
inside the file; and because the conversion is injective, the hoisting in `SQLLintError.to_dict`
(copying a fix's offsets when its (line, column) equals the error's) can never attach wrong offsets.
That rules *anchor* violations on code present in the source is a contract, sampled by the harness.
-/
namespace SqlfluffVerif.Pos

/-- `source_position_dict_from_slice` -/
def posDict (s : Str) (start stop : Nat) : (Nat × Nat × Nat) × (Nat × Nat × Nat) :=
  (((linePos s start).1, (linePos s start).2, start), ((linePos s stop).1, (linePos s stop).2, stop))

/-- every key of the dict agrees with the definition of line/column for its offset -/
theorem C23_dict_consistent (s : Str) (a b : Nat) (ha : a ≤ s.length) (hb : b ≤ s.length) :
    let d := posDict s a b
    (d.1.1, d.1.2.1) = walk (s.take d.1.2.2) (1, 1) ∧ (d.2.1, d.2.2.1) = walk (s.take d.2.2.2) (1, 1) := by
  simp only [posDict]
  exact ⟨by rw [← linePos_eq_walk s a ha], by rw [← linePos_eq_walk s b hb]⟩

/-- reported positions lie within the file -/
theorem C23_position_in_file (s : Str) (p : Nat) (hp : p ≤ s.length) :
    1 ≤ (linePos s p).1 ∧ (linePos s p).1 ≤ 1 + s.count NL ∧ 1 ≤ (linePos s p).2 ∧ (linePos s p).2 ≤ p + 1 :=
  C31_linePos_inrange_aux s p hp
where
  C31_linePos_inrange_aux (s : Str) (p : Nat) (hp : p ≤ s.length) :
      1 ≤ (linePos s p).1 ∧ (linePos s p).1 ≤ 1 + s.count NL ∧ 1 ≤ (linePos s p).2 ∧ (linePos s p).2 ≤ p + 1 := by
    rw [linePos_eq_walk s p hp, walk_closed]
    have h1 := trailing_le (s.take p)
    have h2 : (s.take p).length = p := by simp [Nat.min_eq_left hp]
    have h3 : (s.take p).count NL ≤ s.count NL := (List.take_sublist p s).count_le NL
    simp only
    omega

/-- equal (line, column) ⇒ equal offset: the hoisting of fix offsets into the violation is sound -/
theorem C23_hoist_sound (s : Str) (p q : Nat) (hp : p ≤ s.length) (hq : q ≤ s.length)
    (h : linePos s p = linePos s q) : p = q := linePos_injective s p q hp hq h

example : posDict [97, 10, 98, 99] 2 4 = ((2, 1, 2), (2, 3, 4)) := by decide

end SqlfluffVerif.Pos
