import SqlfluffVerif.Proofs.Dedupe
/-!
# C33 — Violations are reported once and in source order

"Distinct" is the code's own source signature (rule, line, column, description, fix edit texts,
source fixes); the harness recomputes it independently from public attributes (DESIGN §10).
-/
namespace SqlfluffVerif.Dedupe

/-- Each distinct violation (signature) is reported at most once. -/
theorem C33_dedupe_nodup_sig (vs : List Viol) :
    (dedupeSort vs).Pairwise (fun a b => a.sig ≠ b.sig) := by
  unfold dedupeSort
  exact (List.Perm.pairwise_iff (fun h => Ne.symm h) (List.mergeSort_perm _ _)).mpr
    (keepFirst_nodup [] vs)

/-- Violations are listed in source order (line, then column). -/
theorem C33_dedupe_sorted (vs : List Viol) :
    (dedupeSort vs).Pairwise (fun a b => posLe a b = true) :=
  List.pairwise_mergeSort posLe_trans posLe_total _

/-- Nothing is lost: every input signature is still reported. -/
theorem C33_dedupe_covers (vs : List Viol) :
    ∀ v ∈ vs, ∃ w ∈ dedupeSort vs, w.sig = v.sig := by
  intro v hv
  rcases keepFirst_covers [] vs v hv with h | ⟨w, hw, hs⟩
  · simp at h
  · exact ⟨w, (List.mergeSort_perm _ _).mem_iff.mpr hw, hs⟩

/-- Nothing is invented: every reported violation is one of the inputs. -/
theorem C33_dedupe_sub (vs : List Viol) : ∀ w ∈ dedupeSort vs, w ∈ vs := by
  intro w hw
  exact (keepFirst_sub [] vs).subset ((List.mergeSort_perm _ _).mem_iff.mp hw)

/-- The serialised records of a file are sorted by (line, column, code) and are a permutation. -/
theorem C33_records_sorted (vs : List Viol) :
    (recordSort vs).Pairwise (fun a b => recLe a b = true) ∧ (recordSort vs).Perm vs :=
  ⟨List.pairwise_mergeSort recLe_trans recLe_total _, List.mergeSort_perm _ _⟩

/-! Non-vacuity (on the un-sorted core; `mergeSort` does not reduce in the kernel). -/
example : keepFirst [] [⟨1, 3, 1, 0, 0⟩, ⟨2, 1, 1, 0, 1⟩, ⟨1, 3, 1, 0, 2⟩] =
    [⟨1, 3, 1, 0, 0⟩, ⟨2, 1, 1, 0, 1⟩] := by decide

end SqlfluffVerif.Dedupe
