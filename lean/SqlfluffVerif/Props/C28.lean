import SqlfluffVerif.Model.Serialise
/-!
# C28 — Parse output is a faithful serialisation of the tree

`as_record(show_raw=True)` lists every token of the tree (those the meta option keeps) with its type
and text, in file order, whichever of the two layouts (`dict` when child keys are distinct, `list`
otherwise — always `list` with positions) `structural_simplify` picks at each level.
-/
namespace SqlfluffVerif.Serialise

theorem flatten_map_flatten {α β} (f : α → List β) (ls : List (List α)) :
    (ls.flatten.map f).flatten = (ls.map (fun l => (l.map f).flatten)).flatten := by
  induction ls with
  | nil => rfl
  | cons l ls ih =>
    simp only [List.flatten_cons, List.map_append, List.flatten_append, List.map_cons]
    rw [ih]

/-- the tuple form keeps exactly the leaves of the tree, in order -/
theorem C28_tuple_leaves (im : Bool) : ∀ (f : Nat) (s : Seg),
    tupLeaves f (toTuple false true im f s) = segLeaves (fun c => im || !c.isMeta) f s := by
  intro f
  induction f with
  | zero => intro s; simp [tupLeaves, segLeaves]
  | succ f ih =>
    intro s
    simp only [toTuple, segLeaves, Bool.true_and]
    by_cases he : s.children.isEmpty = true
    · simp [he, tupLeaves]
    · simp only [he, Bool.false_eq_true, if_false, tupLeaves, List.map_map]
      congr 1
      apply List.map_congr_left
      intro c _
      exact ih c

/-- simplification to a record preserves the leaves and their order (both layouts, with or without
    positions), for any sufficient traversal fuel -/
theorem C28_record_leaves (pos : Bool) : ∀ (f : Nat) (t : Tup) (g : Nat), f ≤ g →
    recLeaves g (simplify pos f t) = tupLeaves f t := by
  intro f
  induction f with
  | zero => intro t g _; simp [simplify, recLeaves, tupLeaves]
  | succ f ih =>
    intro t g hg
    obtain ⟨g', rfl⟩ : ∃ g', g = g' + 1 := ⟨g - 1, by omega⟩
    have hg' : f ≤ g' := by omega
    have hpos : recLeaves (g' + 1) (if pos then [(posKey, Val.null)] else []) = [] := by
      cases pos <;> simp [recLeaves, valLeaves]
    have happ : ∀ (a b : Rec), recLeaves (g' + 1) (a ++ b) = recLeaves (g' + 1) a ++ recLeaves (g' + 1) b := by
      intro a b; simp [recLeaves]
    cases t with
    | str k v => simp only [simplify, happ, hpos, tupLeaves]; simp [recLeaves, valLeaves]
    | kids k ch =>
      cases ch with
      | nil => simp only [simplify, happ, hpos, tupLeaves]; simp [recLeaves, valLeaves]
      | cons c cs =>
        have hkids : ((c :: cs).map (fun x => recLeaves g' (simplify pos f x))).flatten =
            ((c :: cs).map (tupLeaves f)).flatten := by
          congr 1
          apply List.map_congr_left
          intro x _; exact ih x g' hg'
        simp only [simplify, tupLeaves]
        split
        · simp only [happ, hpos, List.nil_append]
          simp only [recLeaves, List.map_cons, List.map_nil, List.flatten_cons, List.flatten_nil, List.append_nil,
            valLeaves, List.map_map]
          simpa [recLeaves, Function.comp_def] using hkids
        · simp only [happ, hpos, List.nil_append]
          simp only [recLeaves, List.map_cons, List.map_nil, List.flatten_cons, List.flatten_nil, List.append_nil,
            valLeaves]
          have hk2 := hkids
          simp only [recLeaves, List.map_cons, List.flatten_cons] at hk2
          simp only [List.map_append, List.flatten_append]
          rw [flatten_map_flatten]
          simpa [List.map_map, Function.comp_def] using hk2

/-- end to end: the record lists the tree's tokens (type, text) in file order -/
theorem C28_as_record_leaves (im pos : Bool) (f : Nat) (s : Seg) :
    recLeaves f (asRecord false true im pos f s) = segLeaves (fun c => im || !c.isMeta) f s := by
  unfold asRecord
  rw [C28_record_leaves pos f _ f (Nat.le_refl _), C28_tuple_leaves]

/-! Non-vacuity: `file(stmt(kw 'SELECT', ws ' ', Indent, lit '1'), nl)`; duplicate child types force the list layout. -/
def exSeg : Seg :=
  .mk 1 [] true false [.mk 2 [] true false [.mk 3 [83] true false [], .mk 4 [32] false false [], .mk 5 [] true true [], .mk 3 [49] true false []],
                       .mk 6 [10] false false []]

example : recLeaves 4 (asRecord false true false false 4 exSeg) = [(3, [83]), (4, [32]), (3, [49]), (6, [10])] := by decide
example : recLeaves 4 (asRecord false true true true 4 exSeg) = [(3, [83]), (4, [32]), (5, []), (3, [49]), (6, [10])] := by decide

end SqlfluffVerif.Serialise
