import SqlfluffVerif.Model.FixLoop
/-!
# C17 — Fix and format are idempotent (fix-loop composition)

If the first run ends on a *quiescent* tree — no enabled rule proposes a fix on it — a second run
changes nothing (theorem). A stable exit of the loop is weaker than quiescence: `C17_oscillation_witness` is a concrete rule
system, evaluated by the kernel, in which the loop stops (`not changed`) on a tree that a fresh run does change — an oscillating
pair stopped by the seen-before check. `C17_post_rules_run_in_main_loops` records what the trace correspondence established
about the phases: post-phase rules run in every loop of the main phase as the code stands.
Whether real rules reach quiescence is sampled end-to-end (`fix(fix(x)) = fix(x)`).
-/
namespace SqlfluffVerif.FixLoop

def Quiescent (sys : Sys) (rules : List Rule) (t : Nat) : Prop := ∀ r ∈ rules, sys.propose r.id t = none

theorem ruleStep_quiescent (sys : Sys) (fp : Bool) (st : St) (r : Rule)
    (h : sys.propose r.id st.tree = none) : ruleStep sys fp st r = st := by
  unfold ruleStep
  by_cases h1 : (!fp && !r.fixCompat) = true
  · simp [h1]
  · simp [h1, h]

theorem pass_quiescent (sys : Sys) (rules sub : List Rule) (fp : Bool) (st : St)
    (hsub : ∀ r ∈ sub, r ∈ rules) (h : Quiescent sys rules st.tree) :
    pass sys sub fp st = { st with changed := false } := by
  unfold pass
  have : ∀ (rs : List Rule) (s : St), (∀ r ∈ rs, r ∈ rules) → Quiescent sys rules s.tree →
      rs.foldl (ruleStep sys fp) s = s := by
    intro rs
    induction rs with
    | nil => intro s _ _; rfl
    | cons r rs ih =>
      intro s hs hq
      simp only [List.foldl_cons]
      rw [ruleStep_quiescent sys fp s r (hq r (hs r (by simp)))]
      exact ih s (fun x hx => hs x (by simp [hx])) hq
  exact this sub _ hsub h

theorem phaseLoop_quiescent (sys : Sys) (rules all pr : List Rule) (ifp : Bool) (fuel idx : Nat) (st : St)
    (h1 : ∀ r ∈ all, r ∈ rules) (h2 : ∀ r ∈ pr, r ∈ rules) (h : Quiescent sys rules st.tree) :
    phaseLoop sys all pr ifp (fuel + 1) idx st = ({ st with changed := false }, false) := by
  simp only [phaseLoop]
  have hp : pass sys (if ifp = true then all else pr) (ifp && idx == 0) st = { st with changed := false } := by
    apply pass_quiescent sys rules _ _ st _ h
    intro r hr
    split at hr
    · exact h1 r hr
    · exact h2 r hr
  rw [hp]; simp

/-- running fix on a quiescent tree returns it unchanged (idempotence of a run that reached quiescence) -/
theorem C17_idempotent_of_quiescent (sys : Sys) (rules : List Rule) (limit t : Nat) (hl : 0 < limit)
    (h : Quiescent sys rules t) : fixLoop sys rules limit t = (t, false) := by
  obtain ⟨l, rfl⟩ : ∃ l, limit = l + 1 := ⟨limit - 1, by omega⟩
  unfold fixLoop
  simp only
  rw [phaseLoop_quiescent sys rules rules _ true l 0 _ (fun r hr => hr) (fun r hr => (List.mem_filter.mp hr).1) h]
  simp only
  rw [phaseLoop_quiescent sys rules rules _ false 1 0 _ (fun r hr => hr) (fun r hr => (List.mem_filter.mp hr).1) h]

/-- a stable exit is not quiescence: rules 1 (0→1) and 2 (1→0) oscillate; the first run stops on tree 1
    because going back to 0 was "seen before", a second run from tree 1 moves to 0 -/
def oscSys : Sys :=
  { propose := fun r t => if r == 1 && t == 0 then some 10 else if r == 2 && t == 1 then some 20 else none,
    applyF := fun t fx => (if fx == 10 then 1 else if fx == 20 then 0 else t, true) }

theorem C17_oscillation_witness :
    fixLoop oscSys [⟨1, false, true⟩, ⟨2, false, true⟩] 10 0 = (1, false) ∧
    fixLoop oscSys [⟨1, false, true⟩, ⟨2, false, true⟩] 10 1 = (0, false) := by decide

/-- As the code stands, the "run all rules" override of the first pass is never undone, so post-phase rules take part in every
    loop of the main phase: main rule 1 rewrites 0→1→2 and 3→4, post rule 2 rewrites 2→3; one run goes all the way to 4 and a second
    run changes nothing. (With the post rules confined to the post phase, as the comments in the code describe, the first run would
    stop at 3 and a second run would move on to 4 — the two-phase gap; the trace correspondence is what showed which of the two the
    code does.) -/
def gapSys : Sys :=
  { propose := fun r t => if r == 1 && (t == 0 || t == 1 || t == 3) then some (10 + t) else if r == 2 && t == 2 then some 20 else none,
    applyF := fun t _ => (t + 1, true) }

theorem C17_post_rules_run_in_main_loops :
    fixLoop gapSys [⟨1, false, true⟩, ⟨2, true, true⟩] 10 0 = (4, false) ∧
    fixLoop gapSys [⟨1, false, true⟩, ⟨2, true, true⟩] 10 4 = (4, false) := by decide

end SqlfluffVerif.FixLoop
