import SqlfluffVerif.Proofs.Exit
/-!
# C22 — Exit codes reflect only unsuppressed failures
-/
namespace SqlfluffVerif.Exit

/-- `lint` exits 1 exactly when some file has a violation that is neither ignored, nor hidden by
    noqa, nor downgraded to a warning (no skipped files). -/
theorem C22_lint_exit_spec (fs : List File) :
    lintExit fs false 0 false = 1 ↔
      ∃ f ∈ fs, ∃ v ∈ f.viols, v.ignore = false ∧ v.masked = false ∧ v.warning = false := by
  unfold lintExit
  simp only [Bool.false_eq_true, if_false, Nat.lt_irrefl, decide_false, Bool.false_and]
  have key : (fs.map numViolations).sum > 0 ↔
      ∃ f ∈ fs, ∃ v ∈ f.viols, v.ignore = false ∧ v.masked = false ∧ v.warning = false := by
    rw [sum_pos_iff]
    constructor
    · rintro ⟨x, hx, hp⟩
      obtain ⟨f, hf, rfl⟩ := List.mem_map.mp hx
      exact ⟨f, hf, (numViolations_pos f).mp hp⟩
    · rintro ⟨f, hf, hv⟩
      exact ⟨numViolations f, List.mem_map.mpr ⟨f, hf, rfl⟩, (numViolations_pos f).mpr hv⟩
  by_cases h : (fs.map numViolations).sum > 0
  · simp [h, key.mp h]
  · have : ¬ ∃ f ∈ fs, ∃ v ∈ f.viols, v.ignore = false ∧ v.masked = false ∧ v.warning = false :=
      fun hx => h (key.mpr hx)
    simp [h, this]

/-- Warnings never fail `lint`. -/
theorem C22_warnings_never_fail_lint (fs : List File)
    (h : ∀ f ∈ fs, ∀ v ∈ f.viols, v.warning = true) : lintExit fs false 0 false = 0 := by
  have hne : ¬ lintExit fs false 0 false = 1 := by
    rw [C22_lint_exit_spec]
    rintro ⟨f, hf, v, hv, _, _, hw⟩
    rw [h f hf v hv] at hw; cases hw
  unfold lintExit at hne ⊢
  simp only [Bool.false_eq_true, if_false, Nat.lt_irrefl, decide_false, Bool.false_and] at hne ⊢
  split <;> simp_all

/-- `--nofail` always exits 0; `large_file_skip_fail` with a skipped file exits 1. -/
theorem C22_nofail (fs : List File) (k : Nat) (b : Bool) : lintExit fs true k b = 0 := by simp [lintExit]

theorem C22_skip_fail (fs : List File) (k : Nat) (hk : k > 0) : lintExit fs false k true = 1 := by
  unfold lintExit
  have : decide (k > 0) = true := by simpa using hk
  simp only [Bool.false_eq_true, if_false, this, Bool.and_self, if_true]
  split <;> simp

/-- `fix` exit, partial: with no TMP/PRS violation anywhere the exit is 1 exactly when an unsuppressed
    lint violation without fixes remains. -/
theorem C22_fix_exit_spec_partial (fs : List File) (h : ∀ f ∈ fs, unfilteredTmpPrs f = 0)
    (h2 : ∀ f ∈ fs, filteredTmpPrs f = 0) :
    pathsFixExit false fs 0 false = (if (fs.map unfixableLint).sum > 0 then 1 else 0) := by
  unfold pathsFixExit handleUnparsable
  have s1 : (fs.map filteredTmpPrs).sum = 0 := by
    apply sum_zero_of_all; intro x hx; obtain ⟨f, hf, rfl⟩ := List.mem_map.mp hx; exact h2 f hf
  have s2 : (fs.map discardExtra).sum = 0 := by
    apply sum_zero_of_all; intro x hx; obtain ⟨f, hf, rfl⟩ := List.mem_map.mp hx
    simp [discardExtra, h f hf]
  simp [s1, s2]

/-- Warnings never fail `fix` either (after the repair): if every violation is a warning, or is
    suppressed TMP/PRS, the exit code is 0. The input that exposed the defect — a `noqa`-suppressed
    PRS error plus a warning-level fixable violation — is the non-vacuity example. -/
def warnWitness : File :=
  { viols := [⟨1, false, false, true, false, false⟩, ⟨3, false, true, false, true, false⟩], changed := true }

theorem C22_fix_exit_warning_witness :
    lintExit [warnWitness] false 0 false = 0 ∧ pathsFixExit false [warnWitness] 0 false = 0 := by decide

theorem C22_warnings_never_fail_fix (fs : List File) (fe : Bool)
    (h : ∀ f ∈ fs, ∀ v ∈ f.viols, v.warning = true) : pathsFixExit fe fs 0 false = 0 := by
  have hz : ∀ f ∈ fs, filteredTmpPrs f = 0 ∧ unfixableLint f = 0 ∧ discardExtra f = 0 := by
    intro f hf
    have hw := h f hf
    refine ⟨?_, ?_, ?_⟩
    · unfold filteredTmpPrs count getViolations
      simp only [if_true, List.length_eq_zero_iff, List.filter_eq_nil_iff, List.mem_filter]
      rintro v ⟨⟨⟨hv, _⟩, _⟩, _⟩
      simp [hw v hv]
    · unfold unfixableLint count getViolations
      simp only [if_true, List.length_eq_zero_iff, List.filter_eq_nil_iff, List.mem_filter]
      rintro v ⟨⟨⟨⟨hv, _⟩, _⟩, _⟩, _⟩
      simp [hw v hv]
    · unfold discardExtra
      split
      · simp only [List.length_eq_zero_iff, List.filter_eq_nil_iff]
        intro v hv
        have : v ∈ f.viols := by
          unfold records getViolations at hv
          simp only [if_true, Bool.false_eq_true, if_false, List.mem_filter] at hv
          exact hv.1.1.1
        simp [hw v this]
      · rfl
  unfold pathsFixExit handleUnparsable
  have s1 : (fs.map filteredTmpPrs).sum = 0 := by
    apply sum_zero_of_all; intro x hx; obtain ⟨f, hf, rfl⟩ := List.mem_map.mp hx; exact (hz f hf).1
  have s2 : (fs.map unfixableLint).sum = 0 := by
    apply sum_zero_of_all; intro x hx; obtain ⟨f, hf, rfl⟩ := List.mem_map.mp hx; exact (hz f hf).2.1
  have s3 : (fs.map discardExtra).sum = 0 := by
    apply sum_zero_of_all; intro x hx; obtain ⟨f, hf, rfl⟩ := List.mem_map.mp hx; exact (hz f hf).2.2
  cases fe <;> simp [s1, s2, s3]

end SqlfluffVerif.Exit
