import SqlfluffVerif.Model.Rectify
/-!
# C07 (continued) — rectifying the source slices of an alternate variant

* `C07_rectify_contiguous` — if the variant's slices are contiguous in the modified template (a variant without loops: every
  source position is visited once, in order) then, whatever the deltas, the rectified slices are contiguous again: each starts
  where the previous one stops, from the shifted start on — by induction over the slice list with the carried delta generalised.
  The hypothesis that a stretched slice keeps a non-negative length is explicit (it holds when the deltas are the true length
  differences of the overridden tags, which is outside this function).
* `C07_rectify_loop_witness` — with a loop (the slice list revisits an earlier source position) the single pass over the sorted
  delta stack applies a delta once only: the second visit of the same tag is shifted but not stretched, and the slices that
  follow it no longer line up with the file. This is the known finding of C07/C01 on alternate variants, as a kernel-checked
  instance of the transcribed function; the same input is replayed on the real function by the correspondence.
-/
namespace SqlfluffVerif.Rectify

/-- one output slice per input slice -/
theorem rectify_length (sl : List (Int × Int)) :
    ∀ (carried : Int) (ds : List (Int × Int)),
      (rectify carried ds sl).length = sl.length := by
  induction sl with
  | nil => intro c ds; cases ds <;> simp [rectify]
  | cons hd tl ih =>
    intro c ds
    obtain ⟨a, b⟩ := hd
    cases ds with
    | nil => simp [rectify, ih]
    | cons d ds' =>
      obtain ⟨idx, dd⟩ := d
      simp only [rectify]
      split <;> simp [ih]

/-- loop-free and every delta met: contiguity is restored -/
theorem C07_rectify_contiguous (sl : List (Int × Int)) :
    ∀ (pos carried : Int) (ds : List (Int × Int)), Contig pos sl →
      -- the stretched slices keep a non-negative length
      (∀ a b, (a, b) ∈ sl → ∀ idx d, (idx, d) ∈ ds → a ≤ b - d) →
      Contig (pos + carried) (rectify carried ds sl) := by
  induction sl with
  | nil => intro pos c ds _ _; cases ds <;> simp [rectify, Contig]
  | cons hd tl ih =>
    intro pos c ds hc hlen
    obtain ⟨a, b⟩ := hd
    simp only [Contig] at hc
    obtain ⟨h1, h2, h3⟩ := hc
    cases ds with
    | nil =>
      simp only [rectify, Contig]
      refine ⟨by omega, by omega, ?_⟩
      exact ih b c [] h3 (fun _ _ _ _ _ hm => by simp at hm)
    | cons d ds' =>
      obtain ⟨idx, dd⟩ := d
      simp only [rectify]
      by_cases he : (idx == a + c) = true
      · simp only [he, if_true, Contig]
        have hl := hlen a b (by simp) idx dd (by simp)
        refine ⟨by omega, by omega, ?_⟩
        have := ih b (c - dd) ds' h3 (fun x y hm i e he' => hlen x y (by simp [hm]) i e (by simp [he']))
        have e : b + (c - dd) = b + c - dd := by omega
        rw [e] at this
        exact this
      · simp only [he, Bool.false_eq_true, if_false, Contig]
        refine ⟨by omega, by omega, ?_⟩
        exact ih b c ((idx, dd) :: ds') h3 (fun x y hm i e he' => hlen x y (by simp [hm]) i e he')

/-- A loop: the tag at modified position 10 (original 10, two characters shorter in the original: delta 2) is visited twice.
    First visit: stretched to (10, 13). Second visit: only shifted, (8, 13) — it now starts *before* the tag and overlaps the
    literal in front of it, and everything after is off by the unapplied delta. -/
theorem C07_rectify_loop_witness :
    rectify 0 [(10, 2)] [(0, 10), (10, 15), (15, 20), (10, 15), (15, 20), (20, 30)]
      = [(0, 10), (10, 13), (13, 18), (8, 13), (13, 18), (18, 28)] := by decide

example : Contig 0 [(0, 10), (10, 15), (15, 20)] := by simp [Contig]

end SqlfluffVerif.Rectify
