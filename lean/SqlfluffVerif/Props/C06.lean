import SqlfluffVerif.Model.ParseOpt
/-!
# C06 — Parsing is unaffected by the parser's optimisations

* `C06_prune_transparent` — if every option that `prune_options` drops would have failed to match (`HintSound`: the
  contract every `simple()` hint has to meet), `longest_match` returns the same match and the same matcher with and
  without pruning — for every option list, every match function, every terminator predicate.
* `C06_cache_transparent` — if a cache key determines the fresh result (`KeyDetermines`: whenever two evaluations share a
  key they would compute the same match) then, from an empty cache, any sequence of `longest_match` calls returns exactly
  what the uncached calls return; by induction over the history with the invariant "every entry equals what a fresh match
  under that key gives".
* `C06_cache_unsound_witness` — without `KeyDetermines` the claim is false (two calls sharing a key with different fresh
  results): this is exactly what a cache key that forgets the limit or the terminators produces, so the hypothesis is not
  decoration; it is sampled on the real parser by shadow recomputation.
-/
namespace SqlfluffVerif.ParseOpt

/-- options that are dropped fail: not truthy and of length 0 -/
def HintSound (m : Nat → Res) (keep : Nat → Bool) (opts : List Nat) : Prop :=
  ∀ o ∈ opts, keep o = false → (m o).len = 0 ∧ (m o).ins = false

theorem loop_failing (m : Nat → Res) (term : Res → Bool) (hasTerms : Bool) (room : Nat) (hroom : room ≠ 0) :
    ∀ (l : List Nat) (b : Res × Option Nat), (∀ o ∈ l, (m o).len = 0 ∧ (m o).ins = false) →
      loop m term hasTerms room l b = b := by
  intro l
  induction l with
  | nil => intro b _; rfl
  | cons o rest ih =>
    intro b h
    obtain ⟨best, bm⟩ := b
    have ho := h o (by simp)
    simp only [loop, Res.truthy, ho.1, ho.2]
    simp
    exact ih _ (fun x hx => h x (by simp [hx]))

theorem loop_prune (m : Nat → Res) (term : Res → Bool) (hasTerms : Bool) (room : Nat) (hroom : room ≠ 0) (keep : Nat → Bool) :
    ∀ (l : List Nat) (b : Res × Option Nat), HintSound m keep l →
      loop m term hasTerms room (prune keep l) b = loop m term hasTerms room l b := by
  intro l
  induction l with
  | nil => intro b _; rfl
  | cons o rest ih =>
    intro b h
    obtain ⟨best, bm⟩ := b
    have hrest : HintSound m keep rest := fun x hx hk => h x (by simp [hx]) hk
    by_cases hk : keep o = true
    · simp only [prune, List.filter_cons, hk, if_true]
      simp only [loop]
      have ih1 := ih (m o, some o) hrest
      have ih2 := ih (best, bm) hrest
      simp only [prune] at ih1 ih2
      by_cases c1 : ((m o).truthy && (m o).len == room) = true
      · simp [c1]
      · simp only [c1, Bool.false_eq_true, if_false]
        by_cases c2 : (m o).len > best.len
        · simp only [c2, if_true]
          by_cases c4 : (hasTerms && term (m o)) = true
          · simp [c4]
          · simp only [c4, Bool.false_eq_true, if_false]
            -- "last option" shortcut: stopping equals continuing over nothing / over failing options
            by_cases e1 : (List.filter keep rest).isEmpty = true
            · have hall : ∀ x ∈ rest, (m x).len = 0 ∧ (m x).ins = false := by
                intro x hx
                have : keep x = false := by
                  cases hkx : keep x with
                  | false => rfl
                  | true =>
                    have : x ∈ List.filter keep rest := List.mem_filter.mpr ⟨hx, hkx⟩
                    rw [List.isEmpty_iff.mp e1] at this; simp at this
                exact h x (by simp [hx]) this
              have hf := loop_failing m term hasTerms room hroom rest (m o, some o) hall
              simp only [e1, if_true]
              by_cases e2 : rest.isEmpty = true
              · simp [e2]
              · simp only [e2, Bool.false_eq_true, if_false]; exact hf.symm
            · simp only [e1, Bool.false_eq_true, if_false]
              have e2 : rest.isEmpty = false := by
                cases rest with
                | nil => simp at e1
                | cons _ _ => rfl
              simp only [e2, Bool.false_eq_true, if_false]
              exact ih1
        · simp only [c2, if_false]; exact ih2
    · have hk' : keep o = false := by cases hh : keep o <;> simp_all
      have ho := h o (by simp) hk'
      simp only [prune, List.filter_cons, hk', Bool.false_eq_true, if_false]
      have ih2 := ih (best, bm) hrest
      simp only [prune] at ih2
      rw [ih2]
      simp only [loop, Res.truthy, ho.1, ho.2]
      simp

/-- Pruning is transparent. -/
theorem C06_prune_transparent (m : Nat → Res) (term : Res → Bool) (hasTerms : Bool) (room : Nat) (keep : Nat → Bool)
    (opts : List Nat) (h : HintSound m keep opts) :
    longestPruned m term hasTerms room keep opts = longestPlain m term hasTerms room opts := by
  unfold longestPruned longestPlain longestOn
  by_cases h0 : (opts.length == 0 || room == 0) = true
  · simp [h0]
  · simp only [h0, Bool.false_eq_true, if_false]
    have hroom : room ≠ 0 := by
      intro hr; simp [hr] at h0
    have hne : opts.isEmpty = false := by
      cases opts with
      | nil => simp at h0
      | cons _ _ => rfl
    simp only [hne, Bool.false_eq_true, if_false]
    by_cases he : (prune keep opts).isEmpty = true
    · simp only [he, if_true]
      have hall : ∀ x ∈ opts, (m x).len = 0 ∧ (m x).ins = false := by
        intro x hx
        have : keep x = false := by
          cases hkx : keep x with
          | false => rfl
          | true =>
            have : x ∈ prune keep opts := List.mem_filter.mpr ⟨hx, hkx⟩
            rw [List.isEmpty_iff.mp he] at this; simp at this
        exact h x hx this
      exact (loop_failing m term hasTerms room hroom opts _ hall).symm
    · simp only [he, Bool.false_eq_true, if_false]
      exact loop_prune m term hasTerms room hroom keep opts _ h

/-! ### cache -/

/-- every entry of the cache is what a fresh match under that key computes -/
def CacheSound (fresh : Key → Res) (c : Cache) : Prop := ∀ k r, c.get k = some r → r = fresh k

theorem cacheSound_nil (fresh : Key → Res) : CacheSound fresh [] := by
  intro k r h; simp [Cache.get] at h

theorem cacheSound_put (fresh : Key → Res) (c : Cache) (k : Key) (h : CacheSound fresh c) :
    CacheSound fresh (c.put k (fresh k)) := by
  intro k' r hr
  simp only [Cache.get, Cache.put, List.find?_cons] at hr
  by_cases e : (k == k') = true
  · simp only [e] at hr
    have : k = k' := by simpa using e
    subst this; simpa using hr.symm
  · have e' : (k == k') = false := by cases hh : (k == k') <;> simp_all
    simp only [e'] at hr
    exact h k' r hr

theorem cachedMatch_sound (fresh : Key → Res) (c : Cache) (k : Key) (h : CacheSound fresh c) :
    (cachedMatch c k (fresh k)).1 = fresh k ∧ CacheSound fresh (cachedMatch c k (fresh k)).2 := by
  unfold cachedMatch
  cases hg : c.get k with
  | some r => exact ⟨h k r hg, h⟩
  | none => exact ⟨rfl, cacheSound_put fresh c k h⟩

/-- the call's fresh matches are determined by their keys -/
def Call.KeyDetermines (fresh : Key → Res) (cl : Call) : Prop := ∀ o ∈ cl.opts, cl.m o = fresh (cl.key o)

theorem loopC_eq (fresh : Key → Res) (m : Nat → Res) (key : Nat → Key) (term : Res → Bool) (hasTerms : Bool) (room : Nat) :
    ∀ (l : List Nat) (b : Res × Option Nat) (c : Cache), (∀ o ∈ l, m o = fresh (key o)) → CacheSound fresh c →
      (loopC m key term hasTerms room l b c).1 = loop m term hasTerms room l b ∧
      CacheSound fresh (loopC m key term hasTerms room l b c).2 := by
  intro l
  induction l with
  | nil => intro b c _ hc; exact ⟨rfl, hc⟩
  | cons o rest ih =>
    intro b c hk hc
    obtain ⟨best, bm⟩ := b
    have hko := hk o (by simp)
    have hcm := cachedMatch_sound fresh c (key o) hc
    have hrest : ∀ x ∈ rest, m x = fresh (key x) := fun x hx => hk x (by simp [hx])
    simp only [loopC, loop]
    rw [hko]
    generalize hcmr : cachedMatch c (key o) (fresh (key o)) = cm at hcm
    obtain ⟨r, c'⟩ := cm
    simp only at hcm
    obtain ⟨hr, hc'⟩ := hcm
    subst hr
    simp only
    split
    · exact ⟨rfl, hc'⟩
    · split
      · split
        · exact ⟨rfl, hc'⟩
        · split
          · exact ⟨rfl, hc'⟩
          · have := ih (fresh (key o), some o) c' hrest hc'
            rw [← hko] at this ⊢
            exact this
      · exact ih (best, bm) c' hrest hc'

/-- The parse cache is transparent over any history of calls starting from a sound (e.g. empty) cache. -/
theorem C06_cache_transparent (fresh : Key → Res) :
    ∀ (calls : List Call) (c : Cache), (∀ cl ∈ calls, cl.KeyDetermines fresh) → CacheSound fresh c →
      (runCalls calls c).1 = runCallsPlain calls := by
  intro calls
  induction calls with
  | nil => intro c _ _; rfl
  | cons cl rest ih =>
    intro c hk hc
    have h1 := loopC_eq fresh cl.m cl.key cl.term cl.hasTerms cl.room cl.opts (emptyRes, none) c (hk cl (by simp)) hc
    simp only [runCalls, runCallsPlain, List.map_cons]
    generalize loopC cl.m cl.key cl.term cl.hasTerms cl.room cl.opts (emptyRes, none) c = lr at h1
    obtain ⟨r, c'⟩ := lr
    simp only at h1
    have h2 := ih c' (fun x hx => hk x (by simp [hx])) h1.2
    simp only [runCallsPlain] at h2
    rw [← h2, h1.1]

theorem C06_cache_transparent_from_empty (fresh : Key → Res) (calls : List Call)
    (hk : ∀ cl ∈ calls, cl.KeyDetermines fresh) : (runCalls calls []).1 = runCallsPlain calls :=
  C06_cache_transparent fresh calls [] hk (cacheSound_nil fresh)

/-- Without `KeyDetermines` the cache changes the outcome: two calls at the same key whose fresh matches differ
    (the second window is longer than the first). -/
def callA : Call := ⟨fun _ => ⟨2, false, 1⟩, fun _ => (7, 1), fun _ => false, false, 5, [0]⟩
def callB : Call := ⟨fun _ => ⟨4, false, 2⟩, fun _ => (7, 1), fun _ => false, false, 9, [0]⟩

theorem C06_cache_unsound_witness :
    (runCalls [callA, callB] []).1 ≠ runCallsPlain [callA, callB] := by decide

/-- non-vacuity: a two-call history that satisfies the hypotheses with a non-trivial cache hit -/
def freshEx : Key → Res := fun k => ⟨k.1, false, k.2⟩
def callC : Call := ⟨fun o => freshEx (3, o), fun o => (3, o), fun _ => false, false, 5, [0, 1]⟩
example : (∀ cl ∈ [callC, callC], cl.KeyDetermines freshEx) ∧ ((runCalls [callC] []).2.get (3, 1)).isSome = true := by
  constructor
  · intro cl h; simp at h; subst h; intro o _; rfl
  · decide

end SqlfluffVerif.ParseOpt
