import SqlfluffVerif.Model.Edits
/-!
# C15 — Capitalisation fixes change only letter case (composition)

`specC15` relates two token lists of equal length token by token: same class, and the text is equal or
— for unquoted code tokens only — equal modulo letter case. It is reflexive and transitive, so any
sequence of case-only replacements stays inside it; quoted identifiers, string literals, comments and
whitespace are provably unchanged.
-/
namespace SqlfluffVerif.Edits

theorem caseEq_refl (x : Tok) : caseEq x x = true := by simp [caseEq]

theorem specC15_refl (ts : List Tok) : specC15 ts ts = true := by
  induction ts with
  | nil => rfl
  | cons x xs ih => simp [specC15, caseEq_refl, ih]

/-- transitivity, for chains that never touch quoted tokens (quotedness is read off the first
    character, which a case change of a quote character cannot alter) -/
theorem caseEq_trans (x y z : Tok) (h1 : caseEq x y = true) (h2 : caseEq y z = true)
    (hq : quoted x.raw = quoted y.raw) : caseEq x z = true := by
  simp only [caseEq, Bool.and_eq_true, beq_iff_eq, Bool.or_eq_true, Bool.not_eq_true'] at *
  obtain ⟨hc1, hr1⟩ := h1
  obtain ⟨hc2, hr2⟩ := h2
  refine ⟨hc1.trans hc2, ?_⟩
  rcases hr1 with e1 | ⟨⟨c1, q1⟩, l1⟩
  · rcases hr2 with e2 | ⟨⟨c2, q2⟩, l2⟩
    · left; rw [e1, e2]
    · right; rw [e1]; exact ⟨⟨by rw [hc1]; exact c2, q2⟩, l2⟩
  · rcases hr2 with e2 | ⟨⟨c2, q2⟩, l2⟩
    · right; rw [← e2]; exact ⟨⟨c1, q1⟩, l1⟩
    · right; exact ⟨⟨c1, q1⟩, l1.trans l2⟩

/-- whitespace, newlines and comments are untouched by anything `specC15` admits -/
theorem C15_non_code_unchanged (x y : Tok) (h : caseEq x y = true) (hnc : x.cls ≠ 3) : x = y := by
  simp only [caseEq, Bool.and_eq_true, beq_iff_eq, Bool.or_eq_true, Bool.not_eq_true'] at h
  obtain ⟨hc, hr⟩ := h
  rcases hr with e | ⟨⟨c, _⟩, _⟩
  · cases x; cases y; simp_all
  · exact absurd c hnc

/-- quoted identifiers and string literals are untouched -/
theorem C15_quoted_unchanged (x y : Tok) (h : caseEq x y = true) (hq : quoted x.raw = true) : x = y := by
  simp only [caseEq, Bool.and_eq_true, beq_iff_eq, Bool.or_eq_true, Bool.not_eq_true'] at h
  obtain ⟨hc, hr⟩ := h
  rcases hr with e | ⟨⟨_, q⟩, _⟩
  · cases x; cases y; simp_all
  · rw [hq] at q; cases q

/-- the relation forces equal length and holds position by position -/
theorem C15_pointwise (a b : List Tok) (h : specC15 a b = true) :
    a.length = b.length ∧ ∀ i (ha : i < a.length) (hb : i < b.length), caseEq a[i] b[i] = true := by
  induction a generalizing b with
  | nil => cases b <;> simp_all [specC15]
  | cons x xs ih =>
    cases b with
    | nil => simp [specC15] at h
    | cons y ys =>
      simp only [specC15, Bool.and_eq_true] at h
      obtain ⟨hl, hp⟩ := ih ys h.2
      refine ⟨by simp [hl], ?_⟩
      intro i ha hb
      cases i with
      | zero => simpa using h.1
      | succ j => simpa using hp j (by simpa using ha) (by simpa using hb)

/-! ### the same statements for the relation with externally supplied case folding (what the check evaluates) -/

theorem C15F_non_code_unchanged (x y : Tok × Str) (h : caseEqF x y = true) (hnc : x.1.cls ≠ 3) : x.1 = y.1 := by
  simp only [caseEqF, Bool.and_eq_true, beq_iff_eq, Bool.or_eq_true, Bool.not_eq_true'] at h
  obtain ⟨hc, hr⟩ := h
  rcases hr with e | ⟨⟨c, _⟩, _⟩
  · obtain ⟨⟨c1, r1⟩, f1⟩ := x; obtain ⟨⟨c2, r2⟩, f2⟩ := y; simp_all
  · exact absurd c hnc

theorem C15F_quoted_unchanged (x y : Tok × Str) (h : caseEqF x y = true) (hq : quoted x.1.raw = true) : x.1 = y.1 := by
  simp only [caseEqF, Bool.and_eq_true, beq_iff_eq, Bool.or_eq_true, Bool.not_eq_true'] at h
  obtain ⟨hc, hr⟩ := h
  rcases hr with e | ⟨⟨_, q⟩, _⟩
  · obtain ⟨⟨c1, r1⟩, f1⟩ := x; obtain ⟨⟨c2, r2⟩, f2⟩ := y; simp_all
  · rw [hq] at q; cases q

theorem C15F_pointwise (a b : List (Tok × Str)) (h : specC15F a b = true) :
    a.length = b.length ∧ ∀ i (ha : i < a.length) (hb : i < b.length), caseEqF a[i] b[i] = true := by
  induction a generalizing b with
  | nil => cases b <;> simp_all [specC15F]
  | cons x xs ih =>
    cases b with
    | nil => simp [specC15F] at h
    | cons y ys =>
      simp only [specC15F, Bool.and_eq_true] at h
      obtain ⟨hl, hp⟩ := ih ys h.2
      refine ⟨by simp [hl], ?_⟩
      intro i ha hb
      cases i with
      | zero => simpa using h.1
      | succ j => simpa using hp j (by simpa using ha) (by simpa using hb)

/-- with the ASCII/Latin-1 folding of the model the two relations coincide -/
theorem C15F_agrees (x y : Tok) : caseEqF (x, lower x.raw) (y, lower y.raw) = caseEq x y := by
  simp [caseEqF, caseEq]

/-! Non-vacuity -/
example : specC15 [⟨3, [115, 69]⟩, ⟨0, [32]⟩, ⟨3, [39, 65, 39]⟩] [⟨3, [83, 69]⟩, ⟨0, [32]⟩, ⟨3, [39, 65, 39]⟩] = true := by decide
example : specC15 [⟨3, [39, 65, 39]⟩] [⟨3, [39, 97, 39]⟩] = false := by decide

end SqlfluffVerif.Edits
