import SqlfluffVerif.Proofs.Placeholder
/-!
# C07 — Template source maps are consistent (placeholder templater: full; jinja/python: by evaluation)

`Slices.consistent` is the property's statement on a templated file (raw slices tile the source with
matching text, templated slices tile the rendered text, source slices in bounds, non-empty literal
slices map to identical text). It is proved here for *every* source string and *every* ordered,
disjoint family of parameter matches of the placeholder templater; for the Jinja and Python templaters
the same predicate is evaluated by the driver on every variant the real templaters produce.
-/
namespace SqlfluffVerif.Placeholder
open SqlfluffVerif.Slices

theorem C07_placeholder_consistent (src : Str) (ctx : List (Str × Str)) (ms : List Found)
    (hs : spansOK src.length 0 ms = true) :
    let r := process src ctx ms
    (consistent src r.1 r.2.2 r.2.1).ok = true := by
  intro r
  obtain ⟨hinv, _⟩ := inv_fold src ctx ms {} (inv_init src) hs
  obtain ⟨hle, hout, hraws, htiles, hb, hl⟩ := hinv
  generalize hst : ms.foldl (step src ctx) {} = st at *
  have hr : r = finish src st := by simp [r, process, hst]
  rw [hr]
  unfold finish
  by_cases hlt : src.length > st.lastRaw
  · simp only [hlt, if_true, Verdict.ok, consistent, Bool.and_eq_true]
    have hdl : (src.drop st.lastRaw).length = src.length - st.lastRaw := by simp
    refine ⟨⟨⟨?_, ?_⟩, ?_⟩, ?_⟩
    · rw [rawTiles_iff, rawEnd_append, hraws]
      simp only [Option.bind, rawEnd, hdl, beq_self_eq_true, Bool.true_and]
      have e : st.lastRaw + (src.length - st.lastRaw) = src.length := by omega
      have : sliceOf src st.lastRaw (st.lastRaw + (src.length - st.lastRaw)) = src.drop st.lastRaw := by
        rw [e]; unfold sliceOf; apply List.take_of_length_le; simp
      rw [e] at this
      simp [this, e]
    · rw [tmplTiles_iff, tmplEnd_append, htiles]
      simp [Option.bind, tmplEnd, hout, hdl]
    · simp only [srcInBounds, List.all_append, Bool.and_eq_true, List.all_eq_true, decide_eq_true_eq]
      refine ⟨fun t ht => ⟨(hb t ht).1, (hb t ht).2⟩, ?_⟩
      intro t ht; simp at ht; subst ht; simp; omega
    · simp only [literalsMatch, List.all_append, Bool.and_eq_true, List.all_eq_true]
      refine ⟨?_, ?_⟩
      · intro t ht
        by_cases hty : t.ty = 0
        · obtain ⟨q1, q2, q3⟩ := hl t ht hty
          simp only [hty, bne_self_eq_false, Bool.false_or, Bool.or_eq_true, beq_iff_eq,
            Bool.and_eq_true]
          right
          exact ⟨q2, by rw [q3, sliceOf_append_left _ _ _ _ q1]⟩
        · simp [hty]
      · intro t ht; simp at ht; subst ht
        simp only [bne_self_eq_false, Bool.false_or, Bool.or_eq_true, beq_iff_eq, Bool.and_eq_true]
        right
        refine ⟨by omega, ?_⟩
        have h1 : sliceOf src st.lastRaw src.length = src.drop st.lastRaw := by
          unfold sliceOf; apply List.take_of_length_le; simp
        have h2 := sliceOf_at_end st.out (src.drop st.lastRaw) []
        rw [hout, hdl, List.append_nil] at h2
        rw [h1, h2]
  · simp only [hlt, if_false, Verdict.ok, consistent, Bool.and_eq_true]
    have he : st.lastRaw = src.length := by omega
    refine ⟨⟨⟨?_, ?_⟩, ?_⟩, ?_⟩
    · rw [rawTiles_iff, hraws, he]; simp
    · rw [tmplTiles_iff, htiles, hout]; simp
    · simp only [srcInBounds, List.all_eq_true, Bool.and_eq_true, decide_eq_true_eq]
      exact fun t ht => ⟨(hb t ht).1, (hb t ht).2⟩
    · simp only [literalsMatch, List.all_eq_true]
      intro t ht
      by_cases hty : t.ty = 0
      · obtain ⟨q1, q2, q3⟩ := hl t ht hty
        simp only [hty, bne_self_eq_false, Bool.false_or, Bool.or_eq_true, beq_iff_eq, Bool.and_eq_true]
        right; exact ⟨q2, q3⟩
      · simp [hty]

/-! Non-vacuity: two parameters (one named with a configured value and quotes, one nameless). -/
def exSrc : Str := [97, 58, 120, 32, 63, 98]       -- "a:x ?b"
def exMs : List Found := [⟨1, 3, some [120], some [39]⟩, ⟨4, 5, none, none⟩]

example : spansOK exSrc.length 0 exMs = true := by decide
example : (process exSrc [([120], [86, 65, 76])] exMs).1 = [97, 39, 86, 65, 76, 39, 32, 49, 98] := by decide

end SqlfluffVerif.Placeholder
