import SqlfluffVerif.Proofs.Lexer
/-!
# C01 — Lexing is lossless, ordered and total (lexer loop part)

Model: `Model/Lexer.lean`. The regex engines are parameters; the theorems hold for every family of
matchers whose trim searchers satisfy `NoStartAfterMid` (forced by the proof: `_trim_match` would
otherwise emit a trimmed piece before buffered content — true of the maximal-run whitespace patterns
every bundled dialect uses; validated at run time as contract `SubdivideLossless`).
-/
namespace SqlfluffVerif.Lexer

/-- Lossless: whatever the matchers do, if `lex` returns, the elements concatenate to the input. -/
theorem C01_lex_lossless (ms : List Matcher) (lr : Matcher) (hms : ∀ m ∈ ms, TrimOK m) (hlr : TrimOK lr)
    (s : Str) (es : List Elem) (h : lex ms lr s = .ok es) : cat es = s := by
  have := lexLoop_cat ms lr hms hlr _ s [] es h
  simpa using this

/-- Contiguous increasing positions: the slices assigned by `map_template_slices` start at 0, each
    starts where the previous one stops, and has the length of its element. -/
theorem C01_map_slices_contiguous (es : List Elem) :
    ∀ (pre : List (Elem × Nat × Nat)) (off : Nat),
      (es.foldl (fun (acc : List (Elem × Nat × Nat) × Nat) e =>
        (acc.1 ++ [(e, acc.2, acc.2 + e.raw.length)], acc.2 + e.raw.length)) (pre, off)).2
        = off + (cat es).length := by
  induction es with
  | nil => intro pre off; simp
  | cons e es ih => intro pre off; simp only [List.foldl_cons]; rw [ih]; simp; omega

/-- Whitespace is covered: some dialect matcher accepts any input starting with tab, newline or space. -/
def WsCovered (ms : List Matcher) : Prop :=
  ∀ (c : Nat) (cs : Str), (c = 9 ∨ c = 10 ∨ c = 32) → (firstMatch ms (c :: cs)).isSome

theorem lastResort_matches (name : Nat) (c : Nat) (cs : Str) (hc : c ≠ 9 ∧ c ≠ 10 ∧ c ≠ 32) :
    ∃ es k, matchOne (lastResortDefault name) (c :: cs) = some (es, k) ∧ es ≠ [] := by
  have hin : inCls true [9, 10, 32] c = true := by
    simp [inCls, hc.1, hc.2.1, hc.2.2]
  have hk : 0 < ((c :: cs).takeWhile (inCls true [9, 10, 32])).length := by
    simp [List.takeWhile, hin]
  have hle : ((c :: cs).takeWhile (inCls true [9, 10, 32])).length ≤ (c :: cs).length :=
    (List.takeWhile_sublist _).length_le
  refine ⟨[⟨(c :: cs).take ((c :: cs).takeWhile (inCls true [9, 10, 32])).length, name⟩],
    ((c :: cs).takeWhile (inCls true [9, 10, 32])).length, ?_, by simp⟩
  have hne : ¬ ((c :: cs).takeWhile (inCls true [9, 10, 32])).length = 0 := by omega
  simp only [matchOne, lastResortDefault, Pat.matcher, Pat.mlen, hne, if_false, hk, hle, and_self,
    if_true, subdivide, Option.map]

/-- Total: if the dialect's matchers cover whitespace, the lexer never raises (the last-resort
    matcher `[^\t\n ]*` takes everything else), for every input string. -/
theorem C01_lex_total (ms : List Matcher) (hms : ∀ m ∈ ms, TrimOK m) (hws : WsCovered ms) (name : Nat) :
    ∀ (fuel : Nat) (s : Str) (acc : List Elem), s.length < fuel →
      ∃ es, lexLoop ms (lastResortDefault name) fuel s acc = .ok es := by
  intro fuel
  induction fuel with
  | zero => intro s acc h; omega
  | succ fuel ih =>
    intro s acc hf
    simp only [lexLoop]
    have hstop := lexMatch_stop ms hms (s.length + 1) s [] (by omega)
    have hlen := lexMatch_len ms hms (s.length + 1) s []
    generalize lexMatch ms (s.length + 1) s [] = r at hstop hlen
    by_cases hemp : r.1.isEmpty = true
    · simp [hemp]
    · simp only [hemp, Bool.false_eq_true, if_false]
      have hne : r.1 ≠ [] := by simpa using hemp
      rcases hstop with h | hnone
      · exact absurd h hne
      · obtain ⟨c, cs, hr⟩ := List.exists_cons_of_ne_nil hne
        have hc : c ≠ 9 ∧ c ≠ 10 ∧ c ≠ 32 := by
          refine ⟨?_, ?_, ?_⟩ <;> (intro hce; have := hws c cs (by simp [hce]); rw [← hr, hnone] at this; simp at this)
        obtain ⟨es, k, hmo, hes⟩ := lastResort_matches name c cs hc
        rw [hr, hmo]
        have hese : es.isEmpty = false := by cases es <;> simp_all
        simp only [hese, Bool.false_eq_true, if_false]
        have hk : 0 < k ∧ k ≤ (c :: cs).length := by
          have := matchOne_cat (lastResortDefault name) (by simp [TrimOK, lastResortDefault, Pat.matcher]) _ es k hmo
          exact this.2
        apply ih
        rw [hr] at hlen
        simp at hlen hk ⊢; omega

/-! Non-vacuity: a two-matcher family (whitespace run, the literal `ab`) with the default last resort. -/
def exMs : List Matcher := [(Pat.cls false [9, 10, 32]).matcher 1 none none, (Pat.lit [97, 98]).matcher 2 none none]

example : (lex exMs (lastResortDefault 0) [97, 98, 32, 120, 121, 10]).toOption =
    some [⟨[97, 98], 2⟩, ⟨[32], 1⟩, ⟨[120, 121], 0⟩, ⟨[10], 1⟩] := by decide

end SqlfluffVerif.Lexer
