import SqlfluffVerif.Model.Shared
/-!
# C32 — linting is repeatable: the shared mutable state cannot change a later result

* `C32_refmap_history_independent` — `allowed_rule_ref_map` mutates the shared reference map, but the mutation is
  idempotent: after any number of earlier calls the noqa map it returns is the one a first call returns (same keys, same
  order, same values) and the shared map is left in the same state.
* `C32_block_ids_pattern` — block ids come from a map shared by every file lexed in the process; from any reachable state
  of that map (injective, ids below the fresh-id supply) the ids handed to a sequence of blocks are equal exactly when the
  blocks' source slices are equal — which is all the indent logic looks at. So the tree is the same up to the names of the ids.

Read-only-ness of lint/parse/render and equality of whole violation lists across histories and processes are checked by the
history runs (files' bytes, mtime, inode; same-process, new-Linter and fresh-process lints).
-/
namespace SqlfluffVerif.Shared

theorem setKey_get_same (m : RefMap) (k : Nat) (v : List Nat) : get (setKey m k v) k = some v := by
  induction m with
  | nil => simp [setKey, get]
  | cons hd tl ih =>
    obtain ⟨k', v'⟩ := hd
    simp only [setKey]
    by_cases h : (k' == k) = true
    · simp [h, get]
    · simp only [h, Bool.false_eq_true, if_false]
      unfold get at ih ⊢
      simp only [List.find?_cons, h]
      exact ih

theorem setKey_idem_of_get (m : RefMap) (k : Nat) (v : List Nat) (h : get m k = some v) : setKey m k v = m := by
  induction m with
  | nil => simp [get] at h
  | cons hd tl ih =>
    obtain ⟨k', v'⟩ := hd
    simp only [setKey]
    by_cases hk : (k' == k) = true
    · simp only [hk, if_true]
      have hkk : k' = k := by simpa using hk
      unfold get at h
      simp only [List.find?_cons, hk, Option.map_some] at h
      subst hkk
      simp at h
      rw [h]
    · simp only [hk, Bool.false_eq_true, if_false]
      unfold get at h ih
      simp only [List.find?_cons, hk] at h
      rw [ih h]

theorem setKey_get_other (m : RefMap) (k k2 : Nat) (v : List Nat) (h : k2 ≠ k) : get (setKey m k v) k2 = get m k2 := by
  induction m with
  | nil =>
    have : (k == k2) = false := by simp; exact fun e => h e.symm
    simp [setKey, get, this]
  | cons hd tl ih =>
    obtain ⟨k', v'⟩ := hd
    simp only [setKey]
    by_cases hk : (k' == k) = true
    · have hkk : k' = k := by simpa using hk
      subst hkk
      have : (k' == k2) = false := by simp; exact fun e => h e.symm
      simp [hk, get, this]
    · simp only [hk, Bool.false_eq_true, if_false]
      unfold get at ih ⊢
      simp only [List.find?_cons]
      split
      · rfl
      · exact ih

/-- after `mutate`, every special key holds exactly itself -/
theorem mutate_get (m : RefMap) : ∀ s ∈ specials, get (mutate m) s = some [s] := by
  intro s hs
  simp only [specials, List.mem_cons, List.mem_nil_iff, or_false] at hs
  unfold mutate specials
  simp only [List.foldl_cons, List.foldl_nil]
  rcases hs with rfl | rfl | rfl
  · rw [setKey_get_other _ _ _ _ (by decide), setKey_get_other _ _ _ _ (by decide)]; exact setKey_get_same _ _ _
  · rw [setKey_get_other _ _ _ _ (by decide)]; exact setKey_get_same _ _ _
  · exact setKey_get_same _ _ _

theorem mutate_idem (m : RefMap) : mutate (mutate m) = mutate m := by
  have h := mutate_get m
  generalize mutate m = mm at h
  unfold mutate specials
  simp only [List.foldl_cons, List.foldl_nil]
  have h1 := h 1000001 (by simp [specials])
  have h2 := h 1000002 (by simp [specials])
  have h3 := h 1000003 (by simp [specials])
  rw [setKey_idem_of_get mm _ _ h1, setKey_idem_of_get mm _ _ h2, setKey_idem_of_get mm _ _ h3]

theorem allowed_state (m : RefMap) (glob : Nat → Bool) : (allowed m glob).2 = mutate m := rfl

theorem allowed_of_mutated (m : RefMap) (glob : Nat → Bool) : allowed (mutate m) glob = allowed m glob := by
  unfold allowed
  simp only [mutate_idem]

/-- **History independence of the noqa reference map.** -/
theorem C32_refmap_history_independent (m : RefMap) (glob : Nat → Bool) (n : Nat) :
    allowedAfter m glob n = allowed m glob := by
  induction n generalizing m with
  | zero => rfl
  | succ n ih =>
    simp only [allowedAfter, allowed_state]
    rw [ih (mutate m), allowed_of_mutated]

/-! ### block ids -/

/-- reachable states: ids in the map are distinct and below the supply -/
def BT.Inj (b : BT) : Prop :=
  (∀ e ∈ b.map, e.2 < b.next) ∧ b.map.Pairwise (fun e1 e2 => e1.1 ≠ e2.1 ∧ e1.2 ≠ e2.2)

theorem BT.inj_init : ({} : BT).Inj := by
  refine ⟨?_, ?_⟩
  · intro e he; simp at he
  · exact List.Pairwise.nil

theorem lookup_mem (b : BT) (k : Nat × Nat) (u : Nat) (h : b.lookup k = some u) : (k, u) ∈ b.map := by
  unfold BT.lookup at h
  cases hf : b.map.find? (fun e => e.1 == k) with
  | none => simp [hf] at h
  | some e =>
    simp [hf] at h
    have hm := List.mem_of_find?_eq_some hf
    have hk := List.find?_some hf
    have : e.1 = k := by simpa using hk
    cases e; simp_all

theorem lookup_none_not_mem (b : BT) (k : Nat × Nat) (h : b.lookup k = none) : ∀ e ∈ b.map, e.1 ≠ k := by
  intro e he hk
  unfold BT.lookup at h
  have : (b.map.find? (fun e => e.1 == k)).isSome := by
    rw [List.find?_isSome]; exact ⟨e, he, by simp [hk]⟩
  cases hf : b.map.find? (fun e => e.1 == k) <;> simp_all

theorem BT.enter_inj (b : BT) (k : Nat × Nat) (h : b.Inj) : (b.enter k).Inj := by
  unfold BT.enter
  cases hl : b.lookup k with
  | some u => exact h
  | none =>
    obtain ⟨h1, h2⟩ := h
    refine ⟨?_, ?_⟩
    · intro e he
      simp only [List.mem_cons] at he
      rcases he with rfl | he
      · simp
      · have := h1 e he; simp; omega
    · simp only [List.pairwise_cons]
      refine ⟨?_, h2⟩
      intro e he
      refine ⟨fun hk => lookup_none_not_mem b k hl e he hk.symm, ?_⟩
      have := h1 e he
      simp; omega

/-- in a reachable state the id of a slice determines the slice and vice versa -/
theorem BT.lookup_injective (b : BT) (h : b.Inj) (k1 k2 : Nat × Nat) (u : Nat)
    (h1 : b.lookup k1 = some u) (h2 : b.lookup k2 = some u) : k1 = k2 := by
  have m1 := lookup_mem b k1 u h1
  have m2 := lookup_mem b k2 u h2
  by_cases hne : k1 = k2
  · exact hne
  exfalso
  have hp := h.2
  have : ∀ (l : List ((Nat × Nat) × Nat)), l.Pairwise (fun e1 e2 => e1.1 ≠ e2.1 ∧ e1.2 ≠ e2.2) →
      (k1, u) ∈ l → (k2, u) ∈ l → False := by
    intro l hl
    induction hl with
    | nil => intro a; simp at a
    | cons hhd _ ih =>
      intro a1 a2
      simp only [List.mem_cons] at a1 a2
      rcases a1 with e1 | e1 <;> rcases a2 with e2 | e2
      · rw [← e1] at e2; exact hne (by cases e2; rfl)
      · have := (hhd _ e2).2; rw [← e1] at this; exact this rfl
      · have := (hhd _ e1).2; rw [← e2] at this; exact this rfl
      · exact ih e1 e2
  exact this b.map hp m1 m2

theorem BT.enter_top (b : BT) (k : Nat × Nat) : (b.enter k).lookup k = (b.enter k).top := by
  unfold BT.enter
  cases hl : b.lookup k with
  | some u =>
    simp only [BT.top, List.head?_cons]
    unfold BT.lookup at hl ⊢
    exact hl
  | none => simp [BT.top, BT.lookup]

theorem BT.enter_lookup_stable (b : BT) (k k' : Nat × Nat) (u : Nat) (h : b.lookup k' = some u) :
    (b.enter k).lookup k' = some u := by
  unfold BT.enter
  cases hl : b.lookup k with
  | some _ => simpa [BT.lookup] using h
  | none =>
    have hne : (k == k') = false := by
      cases hh : (k == k') with
      | false => rfl
      | true => have : k = k' := by simpa using hh
                subst this; rw [hl] at h; simp at h
    simp only [BT.lookup, List.find?_cons, hne]
    exact h

/-- **Equality pattern of block ids.** From any reachable shared state, entering slice `k1` and later slice `k2`
    gives equal ids iff the slices are equal. -/
theorem C32_block_ids_pattern (b : BT) (h : b.Inj) (k1 k2 : Nat × Nat) (mid : List (Nat × Nat)) :
    let b1 := b.enter k1
    let b2 := (mid.foldl (fun s k => (s.enter k).exit) b1.exit).enter k2
    (b1.top = b2.top) ↔ k1 = k2 := by
  intro b1 b2
  have hb1 : b1.Inj := BT.enter_inj b k1 h
  -- reachable-state invariant and lookup stability along the middle of the file
  have hfold : ∀ (l : List (Nat × Nat)) (s : BT), s.Inj → (∀ k u, b1.lookup k = some u → s.lookup k = some u) →
      (l.foldl (fun s k => (s.enter k).exit) s).Inj ∧
      (∀ k u, b1.lookup k = some u → (l.foldl (fun s k => (s.enter k).exit) s).lookup k = some u) := by
    intro l
    induction l with
    | nil => intro s hs hst; exact ⟨hs, hst⟩
    | cons x xs ih =>
      intro s hs hst
      simp only [List.foldl_cons]
      apply ih
      · have := BT.enter_inj s x hs
        exact ⟨this.1, this.2⟩
      · intro k u hku
        have := BT.enter_lookup_stable s x k u (hst k u hku)
        simpa [BT.exit, BT.lookup] using this
  have hexit : b1.exit.Inj := ⟨hb1.1, hb1.2⟩
  obtain ⟨hmidInj, hmidStable⟩ := hfold mid b1.exit hexit (by intro k u hku; simpa [BT.exit, BT.lookup] using hku)
  have hb2 : b2.Inj := BT.enter_inj _ k2 hmidInj
  have t1 : b1.lookup k1 = b1.top := BT.enter_top b k1
  have t2 : b2.lookup k2 = b2.top := BT.enter_top _ k2
  -- b1's id for k1 is still b2's id for k1
  cases hu : b1.top with
  | none =>
    -- cannot happen: entering always leaves an id on top
    exfalso
    have : b1.top ≠ none := by
      simp only [b1, BT.enter]
      cases b.lookup k1 <;> simp [BT.top]
    exact this hu
  | some u =>
    have l1 : b1.lookup k1 = some u := by rw [t1, hu]
    have l1' : b2.lookup k1 = some u := BT.enter_lookup_stable _ k2 k1 u (hmidStable k1 u l1)
    constructor
    · intro heq
      have l2 : b2.lookup k2 = some u := by rw [t2, ← heq]
      exact BT.lookup_injective b2 hb2 k1 k2 u l1' l2
    · intro hk
      subst hk
      rw [← t2, l1']

example : (BT.ids {} [(0, 5), (7, 9), (0, 5)]).1 = [0, 1, 0] := by decide

end SqlfluffVerif.Shared
