import SqlfluffVerif.Model.Discovery
/-!
# C25 — File discovery honours ignore files regardless of path spelling

`walk` transcribes the directory walk (inner specs scoped to the sub-tree of the directory they were
found in, outer specs always active, pruning of ignored sub-directories); `selectedSpec` is the
property's statement for one file. The theorem says they coincide for every tree, every set of ignore
files and every `pathspec` behaviour `m`. The model has no notion of path *spelling*: that the real
function computes the same set for relative, absolute and `.` spellings (and equals `walk`) is the
correspondence obligation checked by `harness/c25.py` on exhaustively enumerated small trees.
-/
namespace SqlfluffVerif.Discovery

theorem selectedSpec_nil (m : Nat → Path → Bool → Bool) (f : Nat) (act : List Active) (nodes : List Node) :
    selectedSpec m f act nodes [] = false := by
  cases f <;> simp [selectedSpec]

/-- The files returned by the walk are exactly those the statement selects. -/
theorem C25_walk_spec (m : Nat → Path → Bool → Bool) :
    ∀ (f : Nat) (cur : Path) (act : List Active) (nodes : List Node) (p : Path),
      p ∈ walk m f cur act nodes ↔ ∃ q, p = cur ++ q ∧ selectedSpec m f act nodes q = true := by
  intro f
  induction f with
  | zero => intro cur act nodes p; simp [walk, selectedSpec]
  | succ f ih =>
    intro cur act nodes p
    simp only [walk, List.mem_flatMap]
    constructor
    · rintro ⟨n, hn, hp⟩
      cases n with
      | file name ext =>
        simp only at hp
        split at hp
        · rename_i hc
          simp only [List.mem_singleton] at hp
          refine ⟨[name], hp, ?_⟩
          simp only [selectedSpec, List.any_eq_true]
          exact ⟨_, hn, by simpa using hc⟩
        · simp at hp
      | dir name specs ch =>
        simp only at hp
        split at hp
        · simp at hp
        · rename_i hc
          obtain ⟨q', hq', hs⟩ := (ih _ _ _ _).mp hp
          cases q' with
          | nil => rw [selectedSpec_nil] at hs; cases hs
          | cons r rs =>
            refine ⟨name :: r :: rs, by rw [hq']; simp, ?_⟩
            simp only [selectedSpec, List.any_eq_true]
            refine ⟨_, hn, ?_⟩
            have : anyMatch m act name true = false := by simpa using hc
            simp [this, hs]
    · rintro ⟨q, hq, hs⟩
      cases q with
      | nil => simp [selectedSpec] at hs
      | cons a rest =>
        cases rest with
        | nil =>
          simp only [selectedSpec, List.any_eq_true] at hs
          obtain ⟨n, hn, hcond⟩ := hs
          cases n with
          | file nm ext =>
            simp only [Bool.and_eq_true, beq_iff_eq, Bool.not_eq_true'] at hcond
            obtain ⟨⟨h1, h2⟩, h3⟩ := hcond
            refine ⟨_, hn, ?_⟩
            simp [h1, h2, h3, hq]
          | dir nm specs ch => simp at hcond
        | cons r rs =>
          simp only [selectedSpec, List.any_eq_true] at hs
          obtain ⟨n, hn, hcond⟩ := hs
          cases n with
          | file nm ext => simp at hcond
          | dir nm specs ch =>
            simp only [Bool.and_eq_true, beq_iff_eq, Bool.not_eq_true'] at hcond
            obtain ⟨⟨h1, h2⟩, h3⟩ := hcond
            refine ⟨_, hn, ?_⟩
            subst h1
            simp only [h2, Bool.false_eq_true, if_false]
            exact (ih _ _ _ _).mpr ⟨r :: rs, by rw [hq]; simp, h3⟩

/-- A file below a pruned directory is never returned (the gitignore rule). -/
theorem C25_pruned_subtree_empty (m : Nat → Path → Bool → Bool) (f : Nat) (cur : Path) (act : List Active)
    (name : Name) (specs : List Nat) (ch : List Node) (h : anyMatch m act name true = true) :
    walk m (f + 1) cur act [Node.dir name specs ch] = [] := by
  simp [walk, h]

/-- Without any ignore spec every file with a listed extension is returned (only the extension filters). -/
theorem C25_no_specs_no_filter (m : Nat → Path → Bool → Bool) (name : Name) (cur : Path) :
    walk m 1 cur [] [Node.file name true] = [cur ++ [name]] ∧ walk m 1 cur [] [Node.file name false] = [] := by
  simp [walk, anyMatch]

/-! Non-vacuity: `root/{a.sql, sub/{.ignore(spec 0), b.sql, deep/{c.sql}}}` where spec 0 (in `sub`)
    matches `deep/c.sql`: the inner spec still applies two levels down. -/
def exM : Nat → Path → Bool → Bool := fun _ p _ => p == [3, 4]
def exTree : List Node :=
  [.file 1 true, .dir 2 [0] [.file 5 true, .dir 3 [] [.file 4 true]]]

example : pathsFromDir exM [] [] exTree = [[1], [2, 5]] := by decide

end SqlfluffVerif.Discovery
