import SqlfluffVerif.Proofs.Exit
/-!
# C34 — Oversized files are skipped, never parsed or modified (decision logic)
-/
namespace SqlfluffVerif.Exit

theorem C34_byte_skip_spec (limit size : Nat) : byteSkip limit size = true ↔ 0 < limit ∧ limit < size := by
  simp [byteSkip]; omega

theorem C34_char_skip_spec (limit len : Nat) : charSkip limit len = true ↔ 0 < limit ∧ limit < len := by
  simp [charSkip]; omega

/-- a zero limit disables the check -/
theorem C34_zero_limit_never_skips (n : Nat) : byteSkip 0 n = false ∧ charSkip 0 n = false := by
  simp [byteSkip, charSkip]

/-- a skipped file makes the run fail only when `large_file_skip_fail` is set -/
theorem C34_skip_fail_exit (fs : List File) (k : Nat) (hk : k > 0)
    (hclean : ∀ f ∈ fs, numViolations f = 0) :
    lintExit fs false k true = 1 ∧ lintExit fs false k false = 0 := by
  refine ⟨C22_skip_fail_aux fs k hk, ?_⟩
  unfold lintExit
  have : (fs.map numViolations).sum = 0 := by
    apply sum_zero_of_all; intro x hx; obtain ⟨f, hf, rfl⟩ := List.mem_map.mp hx; exact hclean f hf
  simp [this]
where
  C22_skip_fail_aux (fs : List File) (k : Nat) (hk : k > 0) : lintExit fs false k true = 1 := by
    unfold lintExit
    have : decide (k > 0) = true := by simpa using hk
    simp only [Bool.false_eq_true, if_false, this, Bool.and_self, if_true]
    split <;> simp

example : byteSkip 20000 20001 = true ∧ byteSkip 20000 20000 = false := by decide

end SqlfluffVerif.Exit
