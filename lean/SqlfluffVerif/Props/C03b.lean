import SqlfluffVerif.Proofs.GrammarSkel
/-!
# C03 (stage 2) — indentation markers balance, from the grammar

`C03_grammar_balanced`: let `tbl` be a table of grammar skeletons (the library entries of a dialect that can insert metas;
entries without metas are `leaf`). If every row is `neutral` — `vecs` computes `{0}` for it counting references as 0 —
then every complete match of every row, with references resolved to *any* rows of the table to *any* depth, has net indent
vector 0: zero unconditional balance and zero balance of the metas of each `Conditional` rule, i.e. the indentation markers
balance under every configuration. By induction on the height of the derivation, with `vecs_sound` as the step.

The rows are regenerated from the live dialect objects on every run (`harness/translate/grammar_balance.py` →
`Gen/GrammarSkel.lean`) and their neutrality is re-checked by the kernel (`decide +kernel`); the entries that are not
neutral are listed with the vector sets the analysis computes for them (known findings of C03).
-/
namespace SqlfluffVerif.Skel

/-- derivations of height at most `h` over a table: a reference may resolve to any row -/
def Dh (tbl : List Node) : Nat → Node → Vec → Prop
  | 0, n, w => D (fun _ => False) n w
  | h + 1, n, w => D (fun w' => ∃ e ∈ tbl, Dh tbl h e w') n w

theorem neutral_zero (R : Vec → Prop) (hR : ∀ w, R w → w = zero) (n : Node) (hn : neutral n = true) (w : Vec)
    (hd : D R n w) : w = zero := by
  unfold neutral at hn
  cases hv : vecs 40 n with
  | none => simp [hv] at hn
  | some s =>
    simp only [hv] at hn
    exact all_zero_mem s hn w (vecs_sound R hR n w hd 40 s hv)

theorem C03_grammar_balanced (tbl : List Node) (hall : ∀ e ∈ tbl, neutral e = true) :
    ∀ (h : Nat), ∀ e ∈ tbl, ∀ w, Dh tbl h e w → w = zero := by
  intro h
  induction h with
  | zero =>
    intro e he w hd
    exact neutral_zero _ (fun _ hf => absurd hf (fun x => x)) e (hall e he) w hd
  | succ h ih =>
    intro e he w hd
    refine neutral_zero _ ?_ e (hall e he) w hd
    rintro w' ⟨e', he', hd'⟩
    exact ih e' he' w' hd'

/-- a Sequence that opens an indent and closes it around a reference is neutral; one that forgets the Dedent is not -/
example : neutral (.seq [.leaf, .ind 1 0, .ref, .opt (.seq [.ind 1 3, .ref, .ind (-1) 3]), .ind (-1) 0]) = true := by decide +kernel
example : neutral (.seq [.ind 1 0, .leaf, .ind 1 0, .ref, .ind (-1) 0]) = false := by decide +kernel
/-- conditional metas under different rules do not cancel -/
example : neutral (.seq [.ind 1 1, .ref, .ind (-1) 4]) = false := by decide +kernel
/-- the derivation relation is inhabited at a row with metas (premises of the theorem are satisfiable) -/
example : Dh [.seq [.ind 1 0, .leaf, .ind (-1) 0]] 0 (.seq [.ind 1 0, .leaf, .ind (-1) 0]) zero := by
  show D _ _ _
  have e : zero = vadd (unitV 0 1) (vadd zero (vadd (unitV 0 (-1)) zero)) := by decide
  rw [e]
  exact D.seqCons _ _ _ _ (D.ind 1 0) (D.seqCons _ _ _ _ D.leaf (D.seqCons _ _ _ _ (D.ind (-1) 0) D.seqNil))

end SqlfluffVerif.Skel
