import SqlfluffVerif.Model.WritePath
/-!
# C26 — Writing fixed files is atomic and faithful

The fault space is finite (8 steps × {exception, death} + no fault), so the quantification over every
failure point is discharged by case analysis on the step, for arbitrary old/new contents and modes.
Assumed (named in DESIGN): `rename` within one directory is atomic and `shutil.move` does not fall back
to copy (the temp file is created in the target's directory); a *death* may leave the temp file.
-/
namespace SqlfluffVerif.WritePath

def stepOf : Fault → Option Nat
  | .none => none | .exc s => some s | .death s => some s

theorem le8_cases (s : Nat) (h : s ≤ 8) :
    s = 0 ∨ s = 1 ∨ s = 2 ∨ s = 3 ∨ s = 4 ∨ s = 5 ∨ s = 6 ∨ s = 7 ∨ s = 8 := by omega

/-- At every failure point the target holds either its complete original content or the complete
    new content (with the original mode when one existed). -/
theorem C26_target_old_or_new (old : Option (Bytes × Nat)) (new : Bytes) (fault : Fault)
    (hs : ∀ s, stepOf fault = some s → s ≤ 8) :
    let r := safeReplace { target := old, input := none, tmp := none } new fault
    r.1.target = old ∨ r.1.target = some (new, (old.map (·.2)).getD defaultTmpMode) := by
  intro r
  cases fault with
  | none => cases old <;> simp [r, safeReplace, runFrom, applyStep, Option.map]
  | exc s =>
    rcases le8_cases s (hs s rfl) with rfl | rfl | rfl | rfl | rfl | rfl | rfl | rfl | rfl <;>
      cases old <;> simp [r, safeReplace, runFrom, applyStep, cleanup, Option.map]
  | death s =>
    rcases le8_cases s (hs s rfl) with rfl | rfl | rfl | rfl | rfl | rfl | rfl | rfl | rfl <;>
      cases old <;> simp [r, safeReplace, runFrom, applyStep, Option.map]

/-- A failed write (exception) leaves no temporary file behind, wherever it failed. -/
theorem C26_exception_leaves_no_tmp (old : Option (Bytes × Nat)) (new : Bytes) (s : Nat) (hs : s ≤ 8) :
    let r := safeReplace { target := old, input := none, tmp := none } new (.exc s)
    r.1.tmp = none := by
  intro r
  rcases le8_cases s hs with rfl | rfl | rfl | rfl | rfl | rfl | rfl | rfl | rfl <;>
    cases old <;> simp [r, safeReplace, runFrom, applyStep, cleanup, Option.map]

/-- A successful write is faithful: new content, original permissions, no temp file. -/
theorem C26_success_faithful (old : Bytes) (mode : Nat) (new : Bytes) :
    safeReplace { target := some (old, mode), input := none, tmp := none } new .none =
      ({ target := some (new, mode), input := none, tmp := none }, .ok) := by
  simp [safeReplace, runFrom, applyStep, Option.map]

/-- With a fixed-file suffix the original file is never modified, whatever happens. -/
theorem C26_suffix_original_untouched (orig : Bytes × Nat) (out : Option (Bytes × Nat)) (new : Bytes) (fault : Fault)
    (hs : ∀ s, stepOf fault = some s → s ≤ 8) :
    (safeReplace { target := out, input := some orig, tmp := none } new fault).1.input = some orig := by
  cases fault with
  | none => simp [safeReplace, runFrom, applyStep, Option.map]
  | exc s =>
    rcases le8_cases s (hs s rfl) with rfl | rfl | rfl | rfl | rfl | rfl | rfl | rfl | rfl <;>
      simp [safeReplace, runFrom, applyStep, cleanup, Option.map]
  | death s =>
    rcases le8_cases s (hs s rfl) with rfl | rfl | rfl | rfl | rfl | rfl | rfl | rfl | rfl <;>
      simp [safeReplace, runFrom, applyStep, Option.map]

/-! Non-vacuity -/
example : (safeReplace { target := some ([1, 2], 420), input := none, tmp := none } [3] (.exc 6)).1 =
    { target := some ([1, 2], 420), input := none, tmp := none } := by decide
example : (safeReplace { target := some ([1, 2], 420), input := none, tmp := none } [3] (.death 6)).1.tmp = some ([3], 384) := by decide

end SqlfluffVerif.WritePath
