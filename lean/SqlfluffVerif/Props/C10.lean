import SqlfluffVerif.Model.TemplateGuard
import SqlfluffVerif.Proofs.Splice
/-!
# C10 — Fixes never edit template code

* `C10_filter_protects` — for raw slices that tile the source, a patch that passes the filter of
  `generate_source_patches` and is not an explicit source fix does not touch any non-literal slice (tag, expression,
  comment, placeholder): it ends at or before the slice begins, or begins at or after it ends. Proved for every slice
  list and every patch, through the two `while` loops of `raw_slices_spanning_source_slice`.
* `C10_tags_preserved` — consequently, in the file rebuilt from any ordered, disjoint family of such patches (C30), each
  non-literal slice's text is present verbatim, and the slices keep their order.

Explicit source fixes (`cat = 1`, produced only by rules built to edit tags: JJ01) are exempt, as in the property.
-/
namespace SqlfluffVerif.Guard
open SqlfluffVerif.Patch

theorem tiled_idx_ge : ∀ (l : List RawSlice) (off : Nat), Tiled off l → ∀ t ∈ l, off ≤ t.idx := by
  intro l
  induction l with
  | nil => intro _ _ t ht; simp at ht
  | cons a rest ih =>
    intro off h t ht
    simp only [Tiled] at h
    rcases List.mem_cons.mp ht with rfl | h'
    · omega
    · have := ih _ h.2.2 t h'; omega

/-- elements whose end lies after `start` survive the first loop -/
theorem dropToStart_keeps (start : Nat) : ∀ (l : List RawSlice) (off : Nat), Tiled off l →
    ∀ t ∈ l, start < t.idx + t.len → t ∈ dropToStart start l := by
  intro l
  induction l with
  | nil => intro _ _ t ht; simp at ht
  | cons a rest ih =>
    intro off h t ht hs
    cases rest with
    | nil => simpa [dropToStart] using ht
    | cons b rest' =>
      simp only [dropToStart]
      have h' := h
      simp only [Tiled] at h'
      obtain ⟨ha, hal, hb, hbl, hrest⟩ := h'
      by_cases c : b.idx ≤ start
      · simp only [c, if_true]
        have hta : t ≠ a := by
          intro e; subst e; omega
        have : t ∈ b :: rest' := by
          rcases List.mem_cons.mp ht with e | e
          · exact absurd e hta
          · exact e
        exact ih (off + a.len) h.2.2 t this hs
      · simp only [c, if_false]; exact ht

/-- the first loop returns a suffix: still tiled, possibly from a later offset -/
theorem dropToStart_tiled (start : Nat) : ∀ (l : List RawSlice) (off : Nat), Tiled off l →
    ∃ off', Tiled off' (dropToStart start l) := by
  intro l
  induction l with
  | nil => intro off h; exact ⟨off, by simpa [dropToStart] using h⟩
  | cons a rest ih =>
    intro off h
    cases rest with
    | nil => exact ⟨off, by simpa [dropToStart] using h⟩
    | cons b rest' =>
      simp only [dropToStart]
      by_cases c : b.idx ≤ start
      · simp only [c, if_true]
        simp only [Tiled] at h
        exact ih _ (by simp only [Tiled]; exact h.2.2)
      · simp only [c, if_false]; exact ⟨off, h⟩

/-- after the first loop the head is the only element that may start at or before `start` -/
theorem dropToStart_head (start : Nat) : ∀ (l : List RawSlice) (off : Nat), Tiled off l →
    ∀ a rest, dropToStart start l = a :: rest → ∀ t ∈ rest, start < t.idx := by
  intro l
  induction l with
  | nil => intro _ _ a rest h; simp [dropToStart] at h
  | cons x xs ih =>
    intro off h a rest hd t ht
    cases xs with
    | nil => simp [dropToStart] at hd; rw [hd.2] at ht; simp at ht
    | cons b rest' =>
      simp only [dropToStart] at hd
      by_cases c : b.idx ≤ start
      · simp only [c, if_true] at hd
        simp only [Tiled] at h
        exact ih _ (by simp only [Tiled]; exact h.2.2) a rest hd t ht
      · simp only [c, if_false] at hd
        have e1 : x = a := (List.cons.inj hd).1
        have e2 : b :: rest' = rest := (List.cons.inj hd).2
        rw [← e2] at ht
        simp only [Tiled] at h
        have hb : b.idx = off + x.len := h.2.2.1
        have hge := tiled_idx_ge (b :: rest') (off + x.len) (by simp only [Tiled]; exact h.2.2) t ht
        omega

theorem takeWhile_keeps (stop : Nat) : ∀ (l : List RawSlice) (off : Nat), Tiled off l →
    ∀ t ∈ l, t.idx < stop → t ∈ l.takeWhile (fun s => decide (s.idx < stop)) := by
  intro l
  induction l with
  | nil => intro _ _ t ht; simp at ht
  | cons a rest ih =>
    intro off h t ht hs
    simp only [Tiled] at h
    have hat : a.idx ≤ t.idx := by
      rcases List.mem_cons.mp ht with rfl | h'
      · exact Nat.le_refl _
      · have := tiled_idx_ge rest _ h.2.2 t h'; omega
    have ha : a.idx < stop := by omega
    simp only [List.takeWhile, ha, decide_true]
    rcases List.mem_cons.mp ht with rfl | h'
    · simp
    · exact List.mem_cons_of_mem _ (ih _ h.2.2 t h' hs)

theorem takeSpan_keeps (stop : Nat) (l : List RawSlice) (off : Nat) (h : Tiled off l) :
    ∀ t ∈ l, t.idx < stop → t ∈ takeSpan stop l := by
  intro t ht hs
  cases l with
  | nil => simp at ht
  | cons a rest =>
    simp only [takeSpan]
    rcases List.mem_cons.mp ht with rfl | h'
    · simp
    · simp only [Tiled] at h
      exact List.mem_cons_of_mem _ (takeWhile_keeps stop rest _ h.2.2 t h' hs)

theorem fileEnd_ge : ∀ (l : List RawSlice) (off : Nat), Tiled off l → ∀ t ∈ l, t.idx + t.len ≤ fileEnd l := by
  intro l
  induction l with
  | nil => intro _ _ t ht; simp at ht
  | cons a rest ih =>
    intro off h t ht
    cases rest with
    | nil => simp at ht; subst ht; simp [fileEnd]
    | cons b rest' =>
      simp only [fileEnd]
      simp only [Tiled] at h
      rcases List.mem_cons.mp ht with rfl | h'
      · have hb := ih (off + t.len) (by simp only [Tiled]; exact h.2.2) b (by simp)
        omega
      · exact ih _ (by simp only [Tiled]; exact h.2.2) t h'

/-- every slice that a patch range overlaps (or strictly contains its insertion point) is reported -/
theorem spanning_complete (rs : List RawSlice) (h : Tiled 0 rs) (start stop : Nat)
    (t : RawSlice) (ht : t ∈ rs) (h1 : t.idx < stop) (h2 : start < t.idx + t.len) :
    t ∈ spanning rs start stop := by
  unfold spanning
  have hfe := fileEnd_ge rs 0 h t ht
  have : ¬ start ≥ fileEnd rs := by omega
  simp only [this, if_false]
  obtain ⟨off', htl⟩ := dropToStart_tiled start rs 0 h
  exact takeSpan_keeps stop _ off' htl t (dropToStart_keeps start rs 0 h t ht h2) h1

theorem dropToStart_subset (start : Nat) : ∀ (l : List RawSlice), ∀ x ∈ dropToStart start l, x ∈ l := by
  intro l
  induction l with
  | nil => intro x hx; simpa [dropToStart] using hx
  | cons y ys ihl =>
    intro x hx
    cases ys with
    | nil => simpa [dropToStart] using hx
    | cons z zs =>
      simp only [dropToStart] at hx
      by_cases c2 : z.idx ≤ start
      · simp only [c2, if_true] at hx; exact List.mem_cons_of_mem _ (ihl x hx)
      · simp only [c2, if_false] at hx; exact hx

theorem takeSpan_subset (stop : Nat) (l : List RawSlice) : ∀ x ∈ takeSpan stop l, x ∈ l := by
  intro x hx
  cases l with
  | nil => simpa [takeSpan] using hx
  | cons a rest =>
    simp only [takeSpan] at hx
    rcases List.mem_cons.mp hx with rfl | h'
    · simp
    · exact List.mem_cons_of_mem _ ((List.takeWhile_sublist _).subset h')

theorem spanning_subset (rs : List RawSlice) (start stop : Nat) : ∀ x ∈ spanning rs start stop, x ∈ rs := by
  intro x hx
  unfold spanning at hx
  by_cases c : start ≥ fileEnd rs
  · simp [c] at hx
  · simp only [c, if_false] at hx
    exact dropToStart_subset start rs x (takeSpan_subset stop _ x hx)

theorem tiled_disjoint : ∀ (l : List RawSlice) (off : Nat), Tiled off l → ∀ x ∈ l, ∀ y ∈ l,
    x.idx + x.len ≤ y.idx ∨ y.idx + y.len ≤ x.idx ∨ x = y := by
  intro l
  induction l with
  | nil => intro _ _ x hx; simp at hx
  | cons u us ihl =>
    intro off hT x hx y hy
    simp only [Tiled] at hT
    rcases List.mem_cons.mp hx with rfl | hx'
    · rcases List.mem_cons.mp hy with rfl | hy'
      · exact Or.inr (Or.inr rfl)
      · have := tiled_idx_ge us _ hT.2.2 y hy'; left; omega
    · rcases List.mem_cons.mp hy with rfl | hy'
      · have := tiled_idx_ge us _ hT.2.2 x hx'; right; left; omega
      · exact ihl _ hT.2.2 x hx' y hy'

theorem tiled_pos : ∀ (l : List RawSlice) (off : Nat), Tiled off l → ∀ x ∈ l, 0 < x.len := by
  intro l
  induction l with
  | nil => intro _ _ x hx; simp at hx
  | cons u us ihl =>
    intro off hT x hx
    simp only [Tiled] at hT
    rcases List.mem_cons.mp hx with rfl | hx'
    · exact hT.2.1
    · exact ihl _ hT.2.2 x hx'

/-- **The filter protects template code.** -/
theorem C10_filter_protects (rs : List RawSlice) (h : Tiled 0 rs) (p : Patch) (hwf : p.start ≤ p.stop)
    (hk : keep rs p = true) (hsrc : p.cat ≠ 1) :
    ∀ t ∈ rs, t.lit = false → p.stop ≤ t.idx ∨ t.idx + t.len ≤ p.start := by
  intro t ht hl
  by_cases hov : t.idx < p.stop ∧ p.start < t.idx + t.len
  · -- the slice is reported by `spanning`, so the first two clauses cannot be the reason for keeping
    have hin := spanning_complete rs h p.start p.stop t ht hov.1 hov.2
    unfold keep at hk
    simp only at hk
    have hne : (spanning rs p.start p.stop).isEmpty = false := by
      cases hsp : spanning rs p.start p.stop with
      | nil => rw [hsp] at hin; simp at hin
      | cons _ _ => rfl
    have hall : (spanning rs p.start p.stop).all (·.lit) = false := by
      cases hh : (spanning rs p.start p.stop).all (·.lit) with
      | false => rfl
      | true =>
        have := List.all_eq_true.mp hh t hin
        simp [hl] at this
    have hc : (p.cat == 1) = false := by simpa using hsrc
    simp only [hne, hall, Bool.or_self, Bool.false_eq_true, if_false, hc] at hk
    cases hsp : spanning rs p.start p.stop with
    | nil => rw [hsp] at hk; simp at hk
    | cons l0 rest =>
      rw [hsp] at hk
      simp only [Bool.and_eq_true, beq_iff_eq] at hk
      have hl0 : l0 ∈ rs := spanning_subset rs p.start p.stop l0 (by rw [hsp]; simp)
      have hpos := tiled_pos rs 0 h l0 hl0
      rcases tiled_disjoint rs 0 h t ht l0 hl0 with d | d | d
      · right; omega
      · left; omega
      · subst d; left; omega
  · omega

/-- **End to end**: the file rebuilt from an ordered, disjoint family of kept, non-source patches contains every
    non-literal slice verbatim (at `mapPos`), and slices keep their relative order. -/
theorem C10_tags_preserved (src : Str) (rs : List RawSlice) (h : Tiled 0 rs) (ps : List Patch)
    (hc : Chain 0 ps) (hkeep : ∀ p ∈ ps, keep rs p = true ∧ p.cat ≠ 1)
    (t : RawSlice) (ht : t ∈ rs) (hl : t.lit = false) (hn : t.idx + t.len ≤ src.length) :
    sliceOf (spliceAll src 0 ps) (mapPos 0 ps t.idx) (mapPos 0 ps t.idx + t.len) = sliceOf src t.idx (t.idx + t.len) := by
  have hwf : ∀ (qs : List Patch) (i : Nat), Chain i qs → ∀ p ∈ qs, p.start ≤ p.stop := by
    intro qs
    induction qs with
    | nil => intro _ _ p hp; simp at hp
    | cons q qs ih =>
      intro i hci p hp
      simp only [Chain] at hci
      rcases List.mem_cons.mp hp with rfl | hp'
      · exact hci.2.1
      · exact ih _ hci.2.2 p hp'
  have hu : ∀ p ∈ ps, p.stop ≤ t.idx ∨ t.idx + t.len ≤ p.start := fun p hp =>
    C10_filter_protects rs h p (hwf ps 0 hc p hp) (hkeep p hp).1 (hkeep p hp).2 t ht hl
  have := splice_keeps_range src t.idx (t.idx + t.len) (by omega) hn ps 0 hc (by omega) hu
  simpa using this

theorem C10_tags_order (rs : List RawSlice) (h : Tiled 0 rs) (ps : List Patch)
    (hc : Chain 0 ps) (hkeep : ∀ p ∈ ps, keep rs p = true ∧ p.cat ≠ 1)
    (t1 t2 : RawSlice) (h1 : t1 ∈ rs) (hl1 : t1.lit = false) (h12 : t1.idx + t1.len ≤ t2.idx) :
    mapPos 0 ps t1.idx + t1.len ≤ mapPos 0 ps t2.idx := by
  have hwf : ∀ (qs : List Patch) (i : Nat), Chain i qs → ∀ p ∈ qs, p.start ≤ p.stop := by
    intro qs
    induction qs with
    | nil => intro _ _ p hp; simp at hp
    | cons q qs ih =>
      intro i hci p hp
      simp only [Chain] at hci
      rcases List.mem_cons.mp hp with rfl | hp'
      · exact hci.2.1
      · exact ih _ hci.2.2 p hp'
  have hu : ∀ p ∈ ps, p.stop ≤ t1.idx ∨ t1.idx + t1.len ≤ p.start := fun p hp =>
    C10_filter_protects rs h p (hwf ps 0 hc p hp) (hkeep p hp).1 (hkeep p hp).2 t1 h1 hl1
  have := mapPos_order t1.idx (t1.idx + t1.len) t2.idx (by omega) h12 ps 0 hc (by omega) hu
  omega

/-- non-vacuity: `select {{ x }} from` with an insertion at the tag's start and an edit after the tag -/
def exRs : List RawSlice := [⟨0, 7, true⟩, ⟨7, 7, false⟩, ⟨14, 5, true⟩]
example : Tiled 0 exRs ∧ keep exRs ⟨7, 7, [32], 2⟩ = true ∧ keep exRs ⟨15, 19, [70], 0⟩ = true
    ∧ keep exRs ⟨7, 9, [], 0⟩ = false ∧ keep exRs ⟨9, 9, [32], 2⟩ = false ∧ keep exRs ⟨6, 8, [], 0⟩ = false := by
  refine ⟨by simp [Tiled, exRs], ?_⟩
  decide

end SqlfluffVerif.Guard
