import SqlfluffVerif.Proofs.Pos
/-!
# C31 — Offset-to-line/column conversion is exact

Property theorems only (helper lemmas live in `Proofs/Pos.lean`).
The model (`Model/Pos.lean`) transcribes `iter_indices_of_newlines`,
`TemplatedFile.get_line_pos_of_char_pos` and `PositionMarker.infer_next_position`;
the correspondence harness (`harness/c31.py`) ties it to the code.
-/
namespace SqlfluffVerif.Pos

/-- For every text and every offset in it: the line is one more than the number of newlines
    before the offset and the column is the 1-based position within that line
    (`trailing (s.take p)` = number of characters between the start of `p`'s line and `p`). -/
theorem C31_linePos_spec (s : Str) (p : Nat) (hp : p ≤ s.length) :
    linePos s p = (1 + (s.take p).count NL, trailing (s.take p) + 1) := by
  rw [linePos_eq_walk s p hp, walk_closed]

/-- Same statement through the character-by-character reference walk. -/
theorem C31_linePos_walk (s : Str) (p : Nat) (hp : p ≤ s.length) :
    linePos s p = walk (s.take p) (1, 1) := linePos_eq_walk s p hp

/-- The column is `offset − start-of-line + 1`, with start-of-line one past the last newline
    before `p` (or 0). -/
theorem C31_col_from_line_start (s : Str) (p : Nat) (hp : p ≤ s.length) :
    (linePos s p).2 = p - (p - trailing (s.take p)) + 1 ∧ trailing (s.take p) ≤ p := by
  rw [C31_linePos_spec s p hp]
  have h1 := trailing_le (s.take p)
  have h2 : (s.take p).length = p := by simp [Nat.min_eq_left hp]
  constructor
  · simp only; omega
  · omega

/-- Incremental position inference agrees with the absolute conversion: walking a token `raw`
    forward from the position of its start lands on the position of its end. -/
theorem C31_inferNext_spec (a raw b : Str) :
    let s := a ++ raw ++ b
    inferNext raw (linePos s a.length).1 (linePos s a.length).2 = linePos s (a.length + raw.length) := by
  intro s
  have h1 : a.length ≤ s.length := by simp [s]
  have h2 : a.length + raw.length ≤ s.length := by simp [s]
  rw [inferNext_eq_walk, linePos_eq_walk s _ h1, linePos_eq_walk s _ h2]
  have t1 : s.take a.length = a := by simp [s, List.append_assoc]
  have t2 : s.take (a.length + raw.length) = a ++ raw := by
    have : a.length + raw.length = (a ++ raw).length := by simp
    rw [this]; exact List.take_left
  rw [t1, t2, walk_append]

/-- Reported positions are inside the file: `1 ≤ line ≤ 1 + #newlines`, `1 ≤ col ≤ |line|+1`. -/
theorem C31_linePos_inrange (s : Str) (p : Nat) (hp : p ≤ s.length) :
    1 ≤ (linePos s p).1 ∧ (linePos s p).1 ≤ 1 + s.count NL ∧ 1 ≤ (linePos s p).2 ∧
      (linePos s p).2 ≤ p + 1 := by
  rw [C31_linePos_spec s p hp]
  have h1 := trailing_le (s.take p)
  have h2 : (s.take p).length = p := by simp [Nat.min_eq_left hp]
  have h3 : (s.take p).count NL ≤ s.count NL := (List.take_sublist p s).count_le NL
  simp only
  omega

/-! Non-vacuity: concrete non-trivial instances (multi-line text, `\r`, offsets on and after
    newlines) evaluated by the kernel. -/
example : linePos [97, 10, 13, 98, 10, 10, 99] 4 = (2, 3) := by decide
example : linePos [97, 10, 13, 98, 10, 10, 99] 6 = (4, 1) := by decide
example : (4 : Nat) ≤ ([97, 10, 13, 98, 10, 10, 99] : Str).length := by decide
example : inferNext [98, 10, 10, 99] 2 2 = (4, 2) := by decide

end SqlfluffVerif.Pos
