/-
Decidable statement of C03 on a serialised parse tree, and the span computation of
`PositionMarker.from_child_markers` (sqlfluff/core/parser/markers.py).

kind: 0 ordinary node · 1 file root · 2 unparsable node · 3 code leaf · 4 whitespace/newline/comment
leaf · 5 zero-width meta leaf (indent value in `ind`).
-/
namespace SqlfluffVerif.TreeSpec

inductive PT where
  | mk (kind : Nat) (ts te ss se : Nat) (ind : Int) (children : List PT)
deriving Repr

instance : Inhabited PT := ⟨.mk 3 0 0 0 0 0 []⟩

def PT.kind : PT → Nat | .mk k _ _ _ _ _ _ => k
def PT.ts : PT → Nat | .mk _ a _ _ _ _ _ => a
def PT.te : PT → Nat | .mk _ _ a _ _ _ _ => a
def PT.ss : PT → Nat | .mk _ _ _ a _ _ _ => a
def PT.se : PT → Nat | .mk _ _ _ _ a _ _ => a
def PT.ind : PT → Int | .mk _ _ _ _ _ a _ => a
def PT.children : PT → List PT | .mk _ _ _ _ _ _ c => c

/-- `from_child_markers`: (min starts, max stops) in both spaces -/
def spanOfChildren (ch : List PT) : Nat × Nat × Nat × Nat :=
  match ch with
  | [] => (0, 0, 0, 0)
  | c :: cs =>
    cs.foldl (fun acc d => (min acc.1 d.ts, max acc.2.1 d.te, min acc.2.2.1 d.ss, max acc.2.2.2 d.se))
      (c.ts, c.te, c.ss, c.se)

def ordered : List PT → Bool
  | [] => true
  | [_] => true
  | a :: b :: rest => decide (a.ts ≤ b.ts) && ordered (b :: rest)   -- starts non-decreasing (DESIGN §10)

def isWsLeaf (p : PT) : Bool := p.kind == 4

/-- per-node conditions, recursively (fuel = depth bound) -/
def nodeOK : Nat → PT → Bool
  | 0, _ => false
  | f + 1, p =>
    match p.children with
    | [] => decide (p.ts ≤ p.te)   -- a token that straddles a template-loop boundary has a reversed source slice (DESIGN §10)
    | c :: cs =>
      let sp := spanOfChildren (c :: cs)
      (p.ts == sp.1 && p.te == sp.2.1 && p.ss == sp.2.2.1 && p.se == sp.2.2.2) &&
      ordered ((c :: cs).filter (fun d => decide (d.ts < d.te))) &&   -- zero-width markers are not ordered (DESIGN §10)
      (p.kind != 0 || (!(isWsLeaf c) && !(isWsLeaf ((c :: cs).getLastD c)))) &&
      (c :: cs).all (nodeOK f)

/-- indent values of the leaves, in order -/
def leafInds : Nat → PT → List Int
  | 0, _ => []
  | f + 1, p =>
    match p.children with
    | [] => if p.kind == 5 then [p.ind] else []
    | ch => (ch.map (leafInds f)).flatten

def runningOK (vals : List Int) : Bool × Int :=
  vals.foldl (fun acc v => (acc.1 && decide (0 ≤ acc.2 + v), acc.2 + v)) (true, 0)

/-- (structure ok, running balance never negative, final balance) -/
def specC03 (fuel : Nat) (p : PT) : Bool × Bool × Int :=
  let r := runningOK (leafInds fuel p)
  (nodeOK fuel p, r.1, r.2)

end SqlfluffVerif.TreeSpec
