import SqlfluffVerif.Model.Slices
/-
Model of `PlaceholderTemplater.process` (sqlfluff/core/templaters/placeholder.py), C07/C09.
The regex is a parameter: the harness supplies, for each `finditer` match, its span, the
`param_name` group (absent for nameless styles) and the `quotation` group (absent for most styles).
-/
namespace SqlfluffVerif.Placeholder
open SqlfluffVerif.Slices

structure Found where
  a : Nat
  b : Nat
  name : Option Str        -- `param_name` group if the style has one
  quot : Option Str        -- `quotation` group if the style has one
deriving Repr

/-- decimal digits of a natural number as code points (`str(param_counter)`) -/
def natDigits (n : Nat) : Str := (toString n).toList.map Char.toNat

def lookupCtx (ctx : List (Str × Str)) (k : Str) : Option Str := (ctx.find? (fun kv => kv.1 == k)).map (·.2)

structure St where
  lastRaw : Nat := 0
  lastT : Nat := 0
  out : Str := []
  slices : List TSlice := []
  raws : List RSlice := []
  counter : Nat := 1

def replacement (ctx : List (Str × Str)) (f : Found) (counter : Nat) : Str × Nat :=
  let (nm, counter') := match f.name with
    | some n => (n, counter)
    | none => (natDigits counter, counter + 1)
  let base := match lookupCtx ctx nm with
    | some v => v
    | none => nm
  (match f.quot with | some q => q ++ base ++ q | none => base, counter')

def step (src : Str) (ctx : List (Str × Str)) (st : St) (f : Found) : St :=
  let (rep, counter') := replacement ctx f st.counter
  let litLen := f.a - st.lastRaw
  let startT := st.lastT + litLen
  { lastRaw := f.b, lastT := startT + rep.length,
    out := st.out ++ sliceOf src st.lastRaw f.a ++ rep,
    slices := st.slices ++ [⟨0, st.lastRaw, f.a, st.lastT, st.lastT + litLen⟩, ⟨1, f.a, f.b, startT, startT + rep.length⟩],
    raws := st.raws ++ [⟨sliceOf src st.lastRaw f.a, 0, st.lastRaw⟩, ⟨sliceOf src f.a f.b, 1, f.a⟩],
    counter := counter' }

def finish (src : Str) (st : St) : Str × List TSlice × List RSlice :=
  if src.length > st.lastRaw then
    (st.out ++ src.drop st.lastRaw,
     st.slices ++ [⟨0, st.lastRaw, src.length, st.lastT, st.lastT + (src.length - st.lastRaw)⟩],
     st.raws ++ [⟨src.drop st.lastRaw, 0, st.lastRaw⟩])
  else (st.out, st.slices, st.raws)

def process (src : Str) (ctx : List (Str × Str)) (ms : List Found) : Str × List TSlice × List RSlice :=
  finish src (ms.foldl (step src ctx) {})

/-- `finditer` contract: matches are ordered, disjoint and inside the string -/
def spansOK (n : Nat) : Nat → List Found → Bool
  | pos, [] => decide (pos ≤ n)
  | pos, f :: fs => decide (pos ≤ f.a) && decide (f.a ≤ f.b) && decide (f.b ≤ n) && spansOK n f.b fs

end SqlfluffVerif.Placeholder
