/-
`longest_match` (core/parser/match_algorithms.py) with its two optimisations: `prune_options` and the parse cache.

One call is modelled for a fixed position: option `o` matches to `m o`; `room` is `max_idx - idx`; `term r` says whether
a terminator matches after `r`; `hasTerms` whether the context has terminators at all.
-/
namespace SqlfluffVerif.ParseOpt

structure Res where
  len : Nat          -- length of the matched slice
  ins : Bool         -- carries insert segments (truthy although empty)
  tag : Nat          -- everything else about the match
deriving DecidableEq, Repr

def Res.truthy (r : Res) : Bool := decide (r.len > 0) || r.ins
def emptyRes : Res := ⟨0, false, 0⟩

/-- the `for matcher in available_options` loop -/
def loop (m : Nat → Res) (term : Res → Bool) (hasTerms : Bool) (room : Nat) :
    List Nat → Res × Option Nat → Res × Option Nat
  | [], b => b
  | o :: rest, (best, bm) =>
    let r := m o
    if r.truthy && r.len == room then (r, some o)                 -- matched all available segments
    else if r.len > best.len then                                 -- is_better_than
      if rest.isEmpty then (r, some o)                            -- last option: stop
      else if hasTerms && term r then (r, some o)                 -- terminated: stop
      else loop m term hasTerms room rest (r, some o)
    else loop m term hasTerms room rest (best, bm)

/-- `longest_match` given the list of options that survive pruning -/
def longestOn (m : Nat → Res) (term : Res → Bool) (hasTerms : Bool) (room : Nat) (nOpts : Nat) (avail : List Nat) :
    Res × Option Nat :=
  if nOpts == 0 || room == 0 then (emptyRes, none)
  else if avail.isEmpty then (emptyRes, none)
  else loop m term hasTerms room avail (emptyRes, none)

def prune (keep : Nat → Bool) (opts : List Nat) : List Nat := opts.filter keep

def longestPruned (m : Nat → Res) (term : Res → Bool) (hasTerms : Bool) (room : Nat) (keep : Nat → Bool) (opts : List Nat) :=
  longestOn m term hasTerms room opts.length (prune keep opts)

def longestPlain (m : Nat → Res) (term : Res → Bool) (hasTerms : Bool) (room : Nat) (opts : List Nat) :=
  longestOn m term hasTerms room opts.length opts

/-! ### parse cache: an association list keyed by (location key, matcher key) -/

abbrev Key := Nat × Nat
abbrev Cache := List (Key × Res)

def Cache.get (c : Cache) (k : Key) : Option Res := (c.find? (fun e => e.1 == k)).map (·.2)
def Cache.put (c : Cache) (k : Key) (r : Res) : Cache := (k, r) :: c

/-- one option evaluated through the cache: `fresh` is `matcher.match(segments, idx, parse_context)` -/
def cachedMatch (c : Cache) (k : Key) (fresh : Res) : Res × Cache :=
  match c.get k with
  | some r => (r, c)
  | none => (fresh, c.put k fresh)

/-- the loop with the cache threaded through; `key o` is the cache key used for option `o` -/
def loopC (m : Nat → Res) (key : Nat → Key) (term : Res → Bool) (hasTerms : Bool) (room : Nat) :
    List Nat → Res × Option Nat → Cache → (Res × Option Nat) × Cache
  | [], b, c => (b, c)
  | o :: rest, (best, bm), c =>
    let (r, c') := cachedMatch c (key o) (m o)
    if r.truthy && r.len == room then ((r, some o), c')
    else if r.len > best.len then
      if rest.isEmpty then ((r, some o), c')
      else if hasTerms && term r then ((r, some o), c')
      else loopC m key term hasTerms room rest (r, some o) c'
    else loopC m key term hasTerms room rest (best, bm) c'

/-- a sequence of calls (a history within one file): each call has its own `m`, sharing the cache -/
structure Call where
  m : Nat → Res
  key : Nat → Key
  term : Res → Bool
  hasTerms : Bool
  room : Nat
  opts : List Nat

def runCalls : List Call → Cache → List (Res × Option Nat) × Cache
  | [], c => ([], c)
  | cl :: rest, c =>
    let (r, c') := loopC cl.m cl.key cl.term cl.hasTerms cl.room cl.opts (emptyRes, none) c
    let (rs, c'') := runCalls rest c'
    (r :: rs, c'')

def runCallsPlain (calls : List Call) : List (Res × Option Nat) :=
  calls.map (fun cl => loop cl.m cl.term cl.hasTerms cl.room cl.opts (emptyRes, none))

end SqlfluffVerif.ParseOpt
