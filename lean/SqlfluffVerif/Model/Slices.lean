/-
Templated-file slices and the consistency statement of C07 (`TemplatedFile.__init__` checks, and the
stronger statement of the property). Slice types: 0 literal · 1 templated · 2 block_start ·
3 block_end · 4 block_mid · 5 comment · 6 escaped · 7 other.
-/
namespace SqlfluffVerif.Slices

abbrev Str := List Nat

structure TSlice where
  ty : Nat
  ss : Nat
  se : Nat
  ts : Nat
  te : Nat
deriving DecidableEq, Repr

structure RSlice where
  raw : Str
  ty : Nat
  idx : Nat
deriving DecidableEq, Repr

def sliceOf (s : Str) (a b : Nat) : Str := (s.drop a).take (b - a)

/-- raw slices tile the source in order with matching text -/
def rawTiles (src : Str) : Nat → List RSlice → Bool
  | pos, [] => pos == src.length
  | pos, r :: rs => r.idx == pos && sliceOf src pos (pos + r.raw.length) == r.raw && rawTiles src (pos + r.raw.length) rs

/-- templated slices tile the rendered text from 0 in order -/
def tmplTiles (n : Nat) : Nat → List TSlice → Bool
  | pos, [] => pos == n
  | pos, t :: ts => t.ts == pos && decide (t.ts ≤ t.te) && tmplTiles n t.te ts

def srcInBounds (srcLen : Nat) (sl : List TSlice) : Bool :=
  sl.all (fun t => decide (t.ss ≤ t.se) && decide (t.se ≤ srcLen))

/-- literal slices that render non-empty text map to identical source text -/
def literalsMatch (src tmpl : Str) (sl : List TSlice) : Bool :=
  sl.all (fun t => t.ty != 0 || t.ts == t.te ||
    (t.se - t.ss == t.te - t.ts && sliceOf src t.ss t.se == sliceOf tmpl t.ts t.te))

structure Verdict where
  rawTiles : Bool
  tmplTiles : Bool
  inBounds : Bool
  literals : Bool
deriving Repr, DecidableEq

def consistent (src tmpl : Str) (raws : List RSlice) (sl : List TSlice) : Verdict :=
  { rawTiles := rawTiles src 0 raws, tmplTiles := tmplTiles tmpl.length 0 sl,
    inBounds := srcInBounds src.length sl, literals := literalsMatch src tmpl sl }

def Verdict.ok (v : Verdict) : Bool := v.rawTiles && v.tmplTiles && v.inBounds && v.literals

end SqlfluffVerif.Slices
