import SqlfluffVerif.Model.Glob
/-
Model of noqa directives (C20). Transcribes sqlfluff/core/rules/noqa.py:
  `NoQaDirective._filter_violations_single_line` → `filterSingle`
  `IgnoreMask._ignore_masked_violations_single_line` → `applySingles`
  `IgnoreMask._should_ignore_violation_line_range` → `shouldIgnore`
  `IgnoreMask._ignore_masked_violations_line_range` → `filterRange`
  `IgnoreMask.ignore_masked_violations` → `ignoreMasked`
  `IgnoreMask.generate_warnings_for_unused` → `unused`
  `IgnoreMask._parse_noqa` → `parseNoqa`
Rule codes are abstract naturals in the mask model and strings in the parser model.
-/
namespace SqlfluffVerif.Noqa

/-- action: 0 = plain (None), 1 = enable, 2 = disable -/
structure Dir where
  uid : Nat
  line : Nat
  rules : Option (List Nat)      -- none = all rules
  action : Nat
deriving DecidableEq, Repr

structure V where
  vid : Nat
  line : Nat
  code : Nat
deriving DecidableEq, Repr

/-- single-line: `v.line_no == self.line_no and (self.rules is None or code in self.rules)` -/
def matchesSingle (d : Dir) (v : V) : Bool :=
  v.line == d.line && (match d.rules with | none => true | some rs => rs.contains v.code)

/-- One directive over the current violation list; returns (was it used, remaining). -/
def filterSingle (d : Dir) (vs : List V) : Bool × List V :=
  let m := vs.filter (matchesSingle d)
  if m.isEmpty then (false, vs) else (true, vs.filter (fun v => !(m.contains v)))

/-- All plain directives, sequentially; returns uids marked used and the remaining violations. -/
def applySingles : List Dir → List V → List Nat × List V
  | [], vs => ([], vs)
  | d :: ds, vs =>
    let (u, vs') := filterSingle d vs
    let (us, vs'') := applySingles ds vs'
    (if u then d.uid :: us else us, vs'')

/-- range: `not ignore.rules or code in ignore.rules` -/
def covers (d : Dir) (v : V) : Bool :=
  match d.rules with
  | none => true
  | some rs => rs.isEmpty || rs.contains v.code

/-- `_should_ignore_violation_line_range` as a state machine over the (sorted) relevant directives.
    Returns (ignore, last_ignore uid, uids marked used). -/
def shouldIgnore (line : Nat) : List Dir → Bool → Option Nat → List Nat → Bool × Option Nat × List Nat
  | [], ig, last, marks => (ig, last, marks)
  | d :: ds, ig, last, marks =>
    if d.line > line then
      (ig, last, if d.action = 1 then d.uid :: marks else marks)
    else if d.action = 1 then
      shouldIgnore line ds false none (if last.isSome then d.uid :: marks else marks)
    else if d.action = 2 then
      shouldIgnore line ds true (some d.uid) marks
    else shouldIgnore line ds ig last marks

def lineLe (a b : Dir) : Bool := a.line ≤ b.line

def relevant (ds : List Dir) (v : V) : List Dir := (ds.filter (fun d => covers d v)).mergeSort lineLe

/-- `_ignore_masked_violations_line_range`; returns (marks, kept violations). -/
def filterRange (ds : List Dir) : List V → List Nat × List V
  | [] => ([], [])
  | v :: vs =>
    let (ig, last, marks) := shouldIgnore v.line (relevant ds v) false none []
    let (ms, kept) := filterRange ds vs
    let marks' := if ig then (match last with | some u => u :: marks | none => marks) else marks
    (marks' ++ ms, if ig then kept else v :: kept)

/-- `ignore_masked_violations`: returns (uids marked used by this call, visible violations). -/
def ignoreMasked (ds : List Dir) (vs : List V) : List Nat × List V :=
  let singles := ds.filter (fun d => d.action == 0)
  let ranges := ds.filter (fun d => d.action != 0)
  let (u1, vs1) := applySingles singles vs
  let (u2, vs2) := filterRange ranges vs1
  (u1 ++ u2, vs2)

/-- `generate_warnings_for_unused` after one masking call on fresh directives. -/
def unused (ds : List Dir) (vs : List V) : List Nat :=
  let used := (ignoreMasked ds vs).1
  (ds.filter (fun d => !(used.contains d.uid))).map (·.uid)

/-! ### Specification -/

def hiddenSingle (ds : List Dir) (v : V) : Bool :=
  ds.any (fun d => d.action == 0 && matchesSingle d v)

/-- The state of the range directives that cover `v`, at `v`'s line: the directives at or before
    the line in stable line order; hidden iff the last of them is a `disable`. -/
def effective (ds : List Dir) (v : V) : List Dir :=
  (relevant (ds.filter (fun d => d.action != 0)) v).takeWhile (fun d => d.line ≤ v.line)

def lastDisable : List Dir → Bool
  | [] => false
  | [d] => d.action == 2
  | _ :: ds => lastDisable ds

def hiddenRange (ds : List Dir) (v : V) : Bool := lastDisable (effective ds v)

def hidden (ds : List Dir) (v : V) : Bool := hiddenSingle ds v || hiddenRange ds v

/-! ### Comment parsing -/

abbrev Str := List Nat

def isWs (c : Nat) : Bool :=
  (9 ≤ c && c ≤ 13) || (28 ≤ c && c ≤ 32) || c == 133 || c == 160 || c == 5760 ||
  (8192 ≤ c && c ≤ 8202) || c == 8232 || c == 8233 || c == 8239 || c == 8287 || c == 12288

def lstrip (s : Str) : Str := s.dropWhile isWs
def rstrip (s : Str) : Str := (s.reverse.dropWhile isWs).reverse
def strip (s : Str) : Str := rstrip (lstrip s)

/-- `str.split(sep)` for a non-empty separator (non-overlapping, left to right). -/
def splitOnAux (sep : Str) : Nat → Str → Str → List Str
  | 0, _, acc => [acc.reverse]
  | fuel + 1, s, acc =>
    match s with
    | [] => [acc.reverse]
    | c :: cs =>
      if sep.isPrefixOf s then acc.reverse :: splitOnAux sep fuel (s.drop sep.length) []
      else splitOnAux sep fuel cs (c :: acc)

def splitOn (sep s : Str) : List Str := splitOnAux sep (s.length + 1) s []

def sNoqa : Str := [110, 111, 113, 97]          -- "noqa"
def sDashes : Str := [45, 45]                   -- "--"
def sAll : Str := [97, 108, 108]                -- "all"
def sDisable : Str := [100, 105, 115, 97, 98, 108, 101]
def sEnable : Str := [101, 110, 97, 98, 108, 101]
def cColon : Nat := 58
def cEq : Nat := 61
def cComma : Nat := 44

inductive Parsed where
  | none                                              -- not a noqa comment
  | err (kind : Nat)                                  -- SQLParseError (1: missing colon, 2: bad action, 3: bare enable/disable)
  | dir (rules : Option (List Str)) (action : Nat) (raw : Str)
deriving DecidableEq, Repr

/-- insertion into a sorted duplicate-free list (`tuple(sorted(set))`, code-point order). -/
def strLt : Str → Str → Bool
  | [], [] => false
  | [], _ :: _ => true
  | _ :: _, [] => false
  | a :: as, b :: bs => a < b || (a == b && strLt as bs)

def insertSorted (x : Str) : List Str → List Str
  | [] => [x]
  | y :: ys => if x == y then y :: ys else if strLt x y then x :: y :: ys else y :: insertSorted x ys

/-- Expand one reference against the reference map (key → codes): all keys matching as a glob,
    or the literal itself when nothing matches. -/
def expandRef (refMap : List (Str × List Str)) (r : Str) : List Str :=
  let hits := refMap.filter (fun kv => Glob.fnmatch r kv.1)
  if hits.isEmpty then [r] else (hits.map (·.2)).flatten

/-- `_parse_noqa` (line numbers are attached by the caller). -/
def parseNoqa (comment : Str) (refMap : List (Str × List Str)) : Parsed :=
  let parts := (splitOn sDashes comment).map strip
  let c := parts.getLastD []
  if sNoqa.isPrefixOf c then
    let rem := c.drop 4
    if rem.isEmpty then Parsed.dir none 0 c
    else if rem.head? != some cColon then Parsed.err 1
    else
      let rem := strip (rem.drop 1)
      if rem.isEmpty then Parsed.dir none 0 c
      else
        let hasEq := rem.contains cEq
        let actionStr := rem.takeWhile (· ≠ cEq)
        let rulePart := if hasEq then (rem.dropWhile (· ≠ cEq)).drop 1 else rem
        if hasEq && !(actionStr == sDisable || actionStr == sEnable) then Parsed.err 2
        else if !hasEq && (rulePart == sDisable || rulePart == sEnable) then Parsed.err 3
        else
          let action := if !hasEq then 0 else if actionStr == sEnable then 1 else 2
          if rulePart == sAll then Parsed.dir none action c
          else
            let refs := (splitOn [cComma] rulePart).map strip
            let expanded := (refs.map (expandRef refMap)).flatten
            Parsed.dir (some (expanded.foldl (fun acc x => insertSorted x acc) [])) action c
  else Parsed.none

end SqlfluffVerif.Noqa
