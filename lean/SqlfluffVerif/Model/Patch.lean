/-
Model of source-patch merging and application (C30; reused by C10/C11).

Transcribes
  * sqlfluff/core/linter/patch.py: `_patches_conflict` → `conflict`,
    `merge_source_patches` → `mergePatches` (`sorted` → stable `mergeSort`)
  * sqlfluff/core/linter/linted_file.py:
    `_slice_source_file_using_patches` → `sliceFile`,
    `_build_up_fixed_source_string` → `buildFixed`,
    the tail of `fix_string` → `fixString`.
Strings are code-point lists; a slice is a pair (start, stop).
-/
namespace SqlfluffVerif.Patch

abbrev Str := List Nat
abbrev Slice := Nat × Nat

structure Patch where
  start : Nat
  stop : Nat
  raw : Str
  cat : Nat := 0      -- 0 literal, 1 source, 2 mid_point, 3 end_point (no significance for processing)
deriving DecidableEq, Repr

/-- `src[a:b]` with Python's saturation. -/
def sliceOf (src : Str) (a b : Nat) : Str := (src.drop a).take (b - a)

def sliceEq (a b : Patch) : Bool := a.start == b.start && a.stop == b.stop

/-- `_patches_conflict`. -/
def conflict (a b : Patch) : Bool :=
  if sliceEq a b then a.raw != b.raw
  else if a.start == a.stop && a.stop == b.start && b.start == b.stop then a.start == b.start
  else decide (max a.start b.start < min a.stop b.stop)

def key (p : Patch) : Nat × Nat × Str := (p.start, p.stop, p.raw)

/-- sort key of `merge_source_patches`: `(start, stop)` lexicographic. -/
def keyLe (a b : Patch) : Bool := a.start < b.start || (a.start == b.start && a.stop ≤ b.stop)

/-- The loop of `merge_source_patches` over the sorted patches. -/
def mergeLoop (merged : List Patch) (seen : List (Nat × Nat × Str)) : List Patch → List Patch
  | [] => merged
  | p :: ps =>
    if seen.contains (key p) then mergeLoop merged seen ps
    else if merged.any (fun e => conflict e p) then mergeLoop merged seen ps
    else mergeLoop (merged ++ [p]) (key p :: seen) ps

def mergePatches (bufs : List (List Patch)) : List Patch :=
  mergeLoop [] [] (bufs.flatten.mergeSort keyLe)

/-- The `while source_only_slices and source_only_slices[0].source_idx < patch.start` loop. -/
def popSo (buff : List Slice) (idx : Nat) (so : List Slice) (pstart : Nat) :
    List Slice × Nat × List Slice :=
  match so with
  | [] => (buff, idx, [])
  | s :: rest =>
    if s.1 < pstart then
      let buff := if s.1 > idx then buff ++ [(idx, s.1)] else buff
      popSo (buff ++ [s]) s.2 rest pstart
    else (buff, idx, so)

/-- `_slice_source_file_using_patches` main loop. -/
def sliceLoop (n : Nat) (buff : List Slice) (idx : Nat) (so : List Slice) : List Patch → List Slice
  | [] => if idx < n then buff ++ [(idx, n)] else buff
  | p :: ps =>
    match popSo buff idx so p.start with
    | (buff, idx, so) =>
      let so := match so with
        | s :: rest => if s == (p.start, p.stop) then rest else s :: rest
        | [] => []
      let buff := if p.start > idx then buff ++ [(idx, p.start)] else buff
      if p.start < idx then sliceLoop n buff idx so ps
      else sliceLoop n (buff ++ [(p.start, p.stop)]) p.stop so ps

def sliceFile (ps : List Patch) (so : List Slice) (n : Nat) : List Slice :=
  sliceLoop n [] 0 so ps

/-- `_build_up_fixed_source_string`: first patch with an equal slice wins, else raw source. -/
def buildFixed (slices : List Slice) (ps : List Patch) (src : Str) : Str :=
  (slices.map (fun s =>
    match ps.find? (fun p => p.start == s.1 && p.stop == s.2) with
    | some p => p.raw
    | none => sliceOf src s.1 s.2)).flatten

/-- `fix_string` after patch generation: slice then build. -/
def applyPatches (src : Str) (ps : List Patch) (so : List Slice) : Str :=
  buildFixed (sliceFile ps so src.length) ps src

def fixString (src : Str) (bufs : List (List Patch)) (so : List Slice) : Str :=
  applyPatches src (mergePatches bufs) so

/-! ### Specification side -/

/-- Patches that survive the slicing (the others are dropped entirely). -/
def accepted (idx : Nat) : List Patch → List Patch
  | [] => []
  | p :: ps => if p.start < idx then accepted idx ps else p :: accepted p.stop ps

/-- Replace each (ordered, disjoint) patch range by its text, copy everything else. -/
def spliceAll (src : Str) (idx : Nat) : List Patch → Str
  | [] => src.drop idx
  | p :: ps => sliceOf src idx p.start ++ p.raw ++ spliceAll src p.stop ps

/-- Ordered and disjoint from `idx` on. -/
def Chain (idx : Nat) : List Patch → Prop
  | [] => True
  | p :: ps => idx ≤ p.start ∧ p.start ≤ p.stop ∧ Chain p.stop ps

end SqlfluffVerif.Patch
