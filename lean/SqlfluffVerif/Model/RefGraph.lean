/-
Reference graphs of dialect grammars (C29). A graph over indices `0 … n-1` (root = 0) is a list of
adjacency rows; an edge target `≥ n` is a reference that resolves to nothing in the dialect library
(the translator numbers missing names from `n` upwards). `known` lists the indices of dangling
names recorded in known_findings.json.
-/
namespace SqlfluffVerif.RefGraph

def okTarget (n : Nat) (known : List Nat) (j : Nat) : Bool := decide (j < n) || known.contains j

def closedRows (n : Nat) (known : List Nat) (rows : List (List Nat)) : Bool :=
  rows.all (fun row => row.all (okTarget n known))

/-- Reachability from the root through rows of defined nodes. -/
inductive Reach (adj : List (List Nat)) : Nat → Prop
  | root : Reach adj 0
  | step (i j : Nat) : Reach adj i → j ∈ adj.getD i [] → Reach adj j

end SqlfluffVerif.RefGraph
