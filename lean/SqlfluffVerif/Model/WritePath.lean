/-
Model of the atomic write path (C26). Transcribes `LintedFile._safe_create_replace_file` and the
target choice of `LintedFile.persist_tree` (core/linter/linted_file.py) as a sequence of file-system
operations with a fault (exception or process death) possible at every step.

Steps: 0 stat · 1 create temp file in the target's directory · 2 write · 3 flush · 4 fsync · 5 close ·
6 chmod (only if the input existed as a regular file) · 7 move temp → target.
On an exception the handler removes the temp file (if its name is known and it exists) and re-raises.
-/
namespace SqlfluffVerif.WritePath

abbrev Bytes := List Nat

structure FS where
  target : Option (Bytes × Nat)      -- content and mode of the output path
  input : Option (Bytes × Nat)       -- the input path when it differs from the output path (suffix)
  tmp : Option (Bytes × Nat)         -- the temporary file, if present
deriving Repr, DecidableEq

inductive Fault where
  | none
  | exc (step : Nat)                 -- the operation at `step` raises
  | death (step : Nat)               -- the process dies just before `step` completes
deriving Repr, DecidableEq

inductive Outcome where
  | ok | raised | died
deriving Repr, DecidableEq

def defaultTmpMode : Nat := 384        -- 0o600, what mkstemp creates

/-- effect of completing one step on the file system -/
def applyStep (new : Bytes) (mode : Option Nat) (fs : FS) : Nat → FS
  | 1 => { fs with tmp := some ([], defaultTmpMode) }
  | 2 => { fs with tmp := fs.tmp.map (fun t => (new, t.2)) }
  | 6 => match mode with
         | some m => { fs with tmp := fs.tmp.map (fun t => (t.1, m)) }
         | none => fs
  | 7 => { fs with target := fs.tmp, tmp := none }
  | _ => fs

/-- the exception handler: remove the temp file if it exists -/
def cleanup (fs : FS) : FS := { fs with tmp := none }

/-- run steps `k … 7`; the mode to restore is the input file's mode (None if it did not exist) -/
def runFrom (new : Bytes) (mode : Option Nat) (fault : Fault) : Nat → Nat → FS → FS × Outcome
  | 0, _, fs => (fs, .ok)
  | fuel + 1, k, fs =>
    if k > 7 then (fs, .ok)
    else if k == 6 && mode.isNone then runFrom new mode fault fuel (k + 1) fs      -- no chmod without a source mode
    else match fault with
      | .exc s => if s == k then (cleanup fs, .raised) else runFrom new mode fault fuel (k + 1) (applyStep new mode fs k)
      | .death s => if s == k then (fs, .died) else runFrom new mode fault fuel (k + 1) (applyStep new mode fs k)
      | .none => runFrom new mode fault fuel (k + 1) (applyStep new mode fs k)

/-- `_safe_create_replace_file(input_path, output_path, write_buff, encoding)` -/
def safeReplace (fs : FS) (new : Bytes) (fault : Fault) : FS × Outcome :=
  let srcMode := match fs.input with
    | some i => some i.2                 -- suffix: mode comes from the input path
    | none => fs.target.map (·.2)        -- in place: the target is the input
  runFrom new srcMode fault 9 0 fs

end SqlfluffVerif.WritePath
