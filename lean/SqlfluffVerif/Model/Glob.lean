/-
`fnmatch` (POSIX, case-sensitive) on code-point lists: `*`, `?`, `[seq]`, `[!seq]`, ranges.
Transcribes the behaviour of Python's `fnmatch.translate` for the pattern subset the harness
generates; anything else is covered by correspondence only.
-/
namespace SqlfluffVerif.Glob

abbrev Str := List Nat

def cStar : Nat := 42
def cQ : Nat := 63
def cLB : Nat := 91
def cRB : Nat := 93
def cBang : Nat := 33
def cDash : Nat := 45

/-- Find the end of a bracket expression starting after `[`: returns (body, rest-after-`]`).
    Mirrors `translate`: skip a leading `!`, then a leading `]` is literal, then scan to `]`. -/
def bracketBody (p : Str) : Option (Str × Str) :=
  let (neg, p1) := match p with
    | c :: r => if c = cBang then ([cBang], r) else ([], p)
    | [] => ([], [])
  let (lead, p2) := match p1 with
    | c :: r => if c = cRB then ([cRB], r) else ([], p1)
    | [] => ([], [])
  let body := p2.takeWhile (· ≠ cRB)
  let rest := p2.dropWhile (· ≠ cRB)
  match rest with
  | [] => none
  | _ :: after => some (neg ++ lead ++ body, after)

/-- Membership of `c` in a bracket body (without the leading `!`), with `a-b` ranges. -/
def inSet (c : Nat) : Str → Bool
  | a :: d :: b :: rest =>
    if d = cDash then (decide (a ≤ c) && decide (c ≤ b)) || inSet c rest
    else c == a || inSet c (d :: b :: rest)
  | a :: rest => c == a || inSet c rest
  | [] => false

def matchSet (c : Nat) (body : Str) : Bool :=
  match body with
  | b :: rest => if b = cBang then !(inSet c rest) else inSet c body
  | [] => false

/-- Glob match with fuel (pattern length + string length suffices). -/
def gmatch : Nat → Str → Str → Bool
  | 0, _, _ => false
  | fuel + 1, [], s => s.isEmpty
  | fuel + 1, p :: ps, s =>
    if p = cStar then
      gmatch fuel ps s || (match s with | [] => false | _ :: ss => gmatch fuel (p :: ps) ss)
    else if p = cQ then
      match s with | [] => false | _ :: ss => gmatch fuel ps ss
    else if p = cLB then
      match bracketBody ps with
      | none => (match s with | c :: ss => c == cLB && gmatch fuel ps ss | [] => false)
      | some (body, after) =>
        match s with | c :: ss => matchSet c body && gmatch fuel after ss | [] => false
    else
      match s with | c :: ss => c == p && gmatch fuel ps ss | [] => false

def fnmatch (pat s : Str) : Bool := gmatch (2 * (pat.length + s.length) + 2) pat s

end SqlfluffVerif.Glob
