/-
A small evaluator for SQL scalar expressions with SQLite's three-valued logic (C16): values are NULL or integers,
truth is "non-NULL and non-zero", comparisons and logic return 1 / 0 / NULL. CASE is right-nested:
`CASE WHEN c1 THEN x1 WHEN c2 THEN x2 ELSE e END` = `caseW c1 x1 (caseW c2 x2 e)`, a missing ELSE is `lit none`.
-/
namespace SqlfluffVerif.Sql3VL

abbrev V := Option Int

inductive E where
  | lit (v : V)
  | col (i : Nat)
  | eq (a b : E) | ne (a b : E) | lt (a b : E)
  | add (a b : E)
  | and (a b : E) | or (a b : E) | not (a : E)
  | isNull (a : E) | isNotNull (a : E)
  | coalesce (a b : E) | ifnull (a b : E)
  | caseW (c x rest : E)
deriving Repr, DecidableEq

def b2v (b : Bool) : V := some (if b then 1 else 0)
def truthy (v : V) : Bool := match v with | some n => n != 0 | none => false

def cmp (f : Int → Int → Bool) (a b : V) : V := match a, b with
  | some x, some y => b2v (f x y)
  | _, _ => none

def and3 (a b : V) : V :=
  if a == some 0 || b == some 0 then some 0
  else if a.isNone || b.isNone then none
  else match a, b with
    | some x, some y => b2v (x != 0 && y != 0)
    | _, _ => none

def or3 (a b : V) : V :=
  if truthy a || truthy b then some 1
  else if a.isNone || b.isNone then none
  else some 0

def not3 (a : V) : V := a.map (fun n => if n == 0 then 1 else 0)

def coalesceV (a b : V) : V := match a with | some x => some x | none => b

def eval (env : Nat → V) : E → V
  | .lit v => v
  | .col i => env i
  | .eq a b => cmp (· == ·) (eval env a) (eval env b)
  | .ne a b => cmp (· != ·) (eval env a) (eval env b)
  | .lt a b => cmp (fun x y => decide (x < y)) (eval env a) (eval env b)
  | .add a b => match eval env a, eval env b with | some x, some y => some (x + y) | _, _ => none
  | .and a b => and3 (eval env a) (eval env b)
  | .or a b => or3 (eval env a) (eval env b)
  | .not a => not3 (eval env a)
  | .isNull a => b2v (eval env a).isNone
  | .isNotNull a => b2v (eval env a).isSome
  | .coalesce a b => coalesceV (eval env a) (eval env b)
  | .ifnull a b => coalesceV (eval env a) (eval env b)
  | .caseW c x rest => if truthy (eval env c) then eval env x else eval env rest

/-- prefix-code reader for the driver: returns the expression and the unread rest -/
def parse : Nat → List Nat → Option (E × List Nat)
  | 0, _ => none
  | _ + 1, [] => none
  | f + 1, t :: rest =>
    let un (k : E → E) := (parse f rest).map fun (a, r) => (k a, r)
    let bin (k : E → E → E) := match parse f rest with
      | some (a, r) => (parse f r).map fun (b, r2) => (k a b, r2)
      | none => none
    match t with
    | 0 => match rest with | n :: r => some (.lit (some (Int.ofNat n)), r) | [] => none
    | 1 => match rest with | n :: r => some (.lit (some (- Int.ofNat n)), r) | [] => none
    | 2 => some (.lit none, rest)
    | 3 => match rest with | n :: r => some (.col n, r) | [] => none
    | 4 => bin .eq | 5 => bin .ne | 6 => bin .lt | 7 => bin .add | 8 => bin .and | 9 => bin .or
    | 10 => un .not | 11 => un .isNull | 12 => un .isNotNull
    | 13 => bin .coalesce | 14 => bin .ifnull
    | 15 => match parse f rest with
      | some (c, r) => match parse f r with
        | some (x, r2) => (parse f r2).map fun (e, r3) => (.caseW c x e, r3)
        | none => none
      | none => none
    | _ => none

end SqlfluffVerif.Sql3VL
