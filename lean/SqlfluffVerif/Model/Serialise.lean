/-
Model of parse-tree serialisation (C28). Transcribes `BaseSegment.to_tuple`,
`BaseSegment.structural_simplify` and `as_record` (core/parser/segments/base.py).
Keys (segment types) and raws are naturals / code-point lists. Positions (`include_position`) add the
same extra keys to every record, which forces the list form; they are modelled by the flag `pos`.
-/
namespace SqlfluffVerif.Serialise

abbrev Str := List Nat

inductive Seg where
  | mk (ty : Nat) (raw : Str) (isCode isMeta : Bool) (children : List Seg)
deriving Repr

instance : Inhabited Seg := ⟨.mk 0 [] true false []⟩

def Seg.ty : Seg → Nat | .mk t _ _ _ _ => t
def Seg.raw : Seg → Str | .mk _ r _ _ _ => r
def Seg.isCode : Seg → Bool | .mk _ _ c _ _ => c
def Seg.isMeta : Seg → Bool | .mk _ _ _ m _ => m
def Seg.children : Seg → List Seg | .mk _ _ _ _ c => c

/-- `TupleSerialisedSegment` -/
inductive Tup where
  | str (key : Nat) (v : Str)
  | kids (key : Nat) (ch : List Tup)
deriving Repr

instance : Inhabited Tup := ⟨.str 0 []⟩

/-- `to_tuple(code_only, show_raw, include_meta)` (fuel = depth bound) -/
def toTuple (codeOnly showRaw includeMeta : Bool) : Nat → Seg → Tup
  | 0, s => .kids s.ty []
  | f + 1, s =>
    if showRaw && s.children.isEmpty then .str s.ty s.raw
    else if codeOnly then
      .kids s.ty ((s.children.filter (fun c => c.isCode && !c.isMeta)).map (toTuple codeOnly showRaw includeMeta f))
    else
      .kids s.ty ((s.children.filter (fun c => includeMeta || !c.isMeta)).map (toTuple codeOnly showRaw includeMeta f))

/-- `RecordSerialisedSegment`: a dict; values are strings, None, dicts or lists of dicts.
    `posKeys` stands for the position entries merged into the record when positions are included. -/
inductive Val where
  | str (v : Str)
  | null
  | dict (entries : List (Nat × Val))
  | arr (items : List (List (Nat × Val)))
deriving Repr

instance : Inhabited Val := ⟨.null⟩

abbrev Rec := List (Nat × Val)

def posKey : Nat := 1000000     -- stands for the `start_line_no` … keys

/-- `structural_simplify` -/
def simplify (pos : Bool) : Nat → Tup → Rec
  | 0, _ => []
  | f + 1, t =>
    let posE : Rec := if pos then [(posKey, Val.null)] else []
    match t with
    | .str k v => posE ++ [(k, Val.str v)]
    | .kids k [] => posE ++ [(k, Val.null)]
    | .kids k ch =>
      let contents := ch.map (simplify pos f)
      let subkeys := (contents.map (fun r => r.map (·.1))).flatten
      if subkeys.eraseDups.length != subkeys.length then posE ++ [(k, Val.arr contents)]
      else posE ++ [(k, Val.dict contents.flatten)]

def asRecord (codeOnly showRaw includeMeta pos : Bool) (fuel : Nat) (s : Seg) : Rec :=
  simplify pos fuel (toTuple codeOnly showRaw includeMeta fuel s)

/-! ### leaves, for the specification -/

/-- leaves of a segment tree, in order: (type, raw), keeping those the options keep -/
def segLeaves (keep : Seg → Bool) : Nat → Seg → List (Nat × Str)
  | 0, _ => []
  | f + 1, s =>
    if s.children.isEmpty then [(s.ty, s.raw)]
    else ((s.children.filter keep).map (segLeaves keep f)).flatten

/-- string leaves of a record, in order -/
def valLeaves : Nat → Nat → Val → List (Nat × Str)
  | 0, _, _ => []
  | _ + 1, k, .str v => [(k, v)]
  | _ + 1, _, .null => []
  | f + 1, _, .dict es => (es.map (fun e => valLeaves f e.1 e.2)).flatten
  | f + 1, _, .arr items => (items.map (fun r => (r.map (fun e => valLeaves f e.1 e.2)).flatten)).flatten

def recLeaves (fuel : Nat) (r : Rec) : List (Nat × Str) := (r.map (fun e => valLeaves fuel e.1 e.2)).flatten

def tupLeaves : Nat → Tup → List (Nat × Str)
  | 0, _ => []
  | _ + 1, .str k v => [(k, v)]
  | f + 1, .kids _ ch => (ch.map (tupLeaves f)).flatten

end SqlfluffVerif.Serialise
