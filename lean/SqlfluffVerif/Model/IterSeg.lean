/-
`_iter_segments` (core/parser/lexer.py), the branch that maps one lexed *whitespace* element onto the literal slices of
the templated file it spans. Whitespace is the only element the lexer is allowed to split: each literal slice it
crosses yields one piece (templated slice, source slice, sub-range of the element's text).

`e0 e1` : the element's slice in the templated file; `c` : characters of it consumed so far;
a literal slice is (ts, te, ss): templated `[ts, te)` and the source position `ss` of `ts`.
-/
namespace SqlfluffVerif.IterSeg

structure Lit where
  ts : Nat
  te : Nat
  ss : Nat
deriving Repr, DecidableEq

structure Piece where
  t0 : Nat      -- templated slice
  t1 : Nat
  s0 : Int      -- source slice
  s1 : Int
  r0 : Nat      -- sub-range of the element's raw text
  r1 : Nat
deriving Repr, DecidableEq

def off (l : Lit) : Int := (l.ss : Int) - (l.ts : Int)

/-- the loop over templated file slices for a whitespace element (zero-length slices are handled elsewhere and skipped here) -/
def splitWs (e0 e1 : Nat) : Nat → List Lit → List Piece
  | _, [] => []
  | c, l :: rest =>
    if e1 ≤ l.te then
      [⟨e0 + c, e1, (e0 + c : Nat) + off l, (e1 : Nat) + off l, c, e1 - e0⟩]      -- "Consuming whole from literal"
    else if e0 == l.te then splitWs e0 e1 c rest                                  -- "Missed skip"
    else
      let inc := l.te - e0 - c                                                      -- only what this slice adds
      ⟨e0 + c, l.te, (e0 + c : Nat) + off l, (l.te : Nat) + off l, c, c + inc⟩ :: splitWs e0 e1 (c + inc) rest

/-- the loop as it was before the repair f54e85c: the increment measured from the element's start -/
def splitWsOld (e0 e1 : Nat) : Nat → List Lit → List Piece
  | _, [] => []
  | c, l :: rest =>
    if e1 ≤ l.te then
      [⟨e0 + c, e1, (e0 + c : Nat) + off l, (e1 : Nat) + off l, c, e1 - e0⟩]
    else if e0 == l.te then splitWsOld e0 e1 c rest
    else
      let inc := l.te - e0
      ⟨e0 + c, l.te, (e0 + c : Nat) + off l, (l.te : Nat) + off l, c, c + inc⟩ :: splitWsOld e0 e1 (c + inc) rest

/-- an element that may *not* be split (anything but whitespace) spanning several literal slices: the start of its source
    slice is stashed at the first slice it spills over and must survive the later ones; the token is yielded at the slice
    that contains its end. Returns the token's source slice. -/
def spanSrc (e0 e1 : Nat) : Option Int → List Lit → Option (Int × Int)
  | _, [] => none
  | st, l :: rest =>
    if e1 ≤ l.te then some (st.getD ((e0 : Nat) + off l), (e1 : Nat) + off l)
    else if e0 == l.te then spanSrc e0 e1 st rest
    else spanSrc e0 e1 (some (st.getD ((e0 : Nat) + off l))) rest

/-- pieces tile `[pos, e1)` in the templated file and `[c, n)` in the element's text, piece by piece of equal length -/
def Tiles (e1 n : Nat) : Nat → Nat → List Piece → Prop
  | pos, c, [] => pos = e1 ∧ c = n
  | pos, c, p :: ps => p.t0 = pos ∧ p.r0 = c ∧ p.t0 ≤ p.t1 ∧ p.r1 - p.r0 = p.t1 - p.t0 ∧ p.r0 ≤ p.r1 ∧ Tiles e1 n p.t1 p.r1 ps

/-- literal slices follow each other in the templated file and reach the end of the element -/
def Covers (e1 : Nat) : Nat → List Lit → Prop
  | pos, [] => e1 ≤ pos
  | pos, l :: rest => l.ts ≤ pos ∧ pos < l.te ∧ Covers e1 l.te rest

end SqlfluffVerif.IterSeg
