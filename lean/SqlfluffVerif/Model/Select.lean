import SqlfluffVerif.Model.Noqa
/-
Model of rule selection (C21). Transcribes sqlfluff/core/rules/base.py:
  `RuleSet.rule_reference_map` → `referenceMap`   (priority codes > names > groups > aliases,
                                                   colliding groups/aliases dropped)
  `RuleSet._expand_rule_refs`  → `expandRefs`     (direct hit first, else glob over all keys)
  the filter in `RuleSet.get_rulepack` → `select`
and sqlfluff/core/helpers/string.py `split_comma_separated_string` → `splitComma`.
Sets are duplicate-free lists; dict insertion order is irrelevant for the result.
-/
namespace SqlfluffVerif.Select
open SqlfluffVerif.Noqa (Str strip splitOn)

structure Manifest where
  code : Str
  name : Str
  groups : List Str
  aliases : List Str
deriving DecidableEq, Repr

abbrev RefMap := List (Str × List Str)

def lookup (m : RefMap) (k : Str) : Option (List Str) := (m.find? (fun kv => kv.1 == k)).map (·.2)

def hasKey (m : RefMap) (k : Str) : Bool := m.any (fun kv => kv.1 == k)

/-- add `code` to the set at `k` (creating it) -/
def addTo (m : RefMap) (k : Str) (code : Str) : RefMap :=
  if hasKey m k then m.map (fun kv => if kv.1 == k then (kv.1, if kv.2.contains code then kv.2 else kv.2 ++ [code]) else kv)
  else m ++ [(k, [code])]

/-- set `k ↦ {code}` (dict comprehension: the last manifest with a name wins) -/
def setTo (m : RefMap) (k : Str) (code : Str) : RefMap :=
  if hasKey m k then m.map (fun kv => if kv.1 == k then (kv.1, [code]) else kv) else m ++ [(k, [code])]

def codeMap (ms : List Manifest) : RefMap := ms.map (fun m => (m.code, [m.code]))

def nameMap (ms : List Manifest) : RefMap :=
  ms.foldl (fun acc m => if m.name.isEmpty then acc else setTo acc m.name m.code) []

/-- `{**new, **base}`: keys of `base` win. -/
def mergeUnder (new base : RefMap) : RefMap := base ++ new.filter (fun kv => !(hasKey base kv.1))

def groupMap (ms : List Manifest) (base : RefMap) : RefMap :=
  ms.foldl (fun acc m => m.groups.foldl (fun acc g => if hasKey base g then acc else addTo acc g m.code) acc) []

def aliasMap (ms : List Manifest) (base : RefMap) : RefMap :=
  ms.foldl (fun acc m => m.aliases.foldl (fun acc a => if hasKey base a then acc else addTo acc a m.code) acc) []

def referenceMap (ms : List Manifest) : RefMap :=
  let r1 := mergeUnder (nameMap ms) (codeMap ms)
  let r2 := mergeUnder (groupMap ms r1) r1
  mergeUnder (aliasMap ms r2) r2

def expandRef (m : RefMap) (r : Str) : List Str :=
  match lookup m r with
  | some codes => codes
  | none => ((m.filter (fun kv => Glob.fnmatch r kv.1)).map (·.2)).flatten

def expandRefs (m : RefMap) (refs : List Str) : List Str := (refs.map (expandRef m)).flatten

/-- The codes that run: registered codes in the expanded allowlist and not in the expanded denylist.
    An empty allowlist means "all rules". -/
def select (ms : List Manifest) (allow deny : List Str) : List Str :=
  let rm := referenceMap ms
  let codes := ms.map (·.code)
  let allow' := if allow.isEmpty then codes else allow
  let ea := expandRefs rm allow'
  let ed := expandRefs rm deny
  codes.filter (fun c => ea.contains c && !(ed.contains c))

def splitComma (s : Str) : List Str := ((splitOn [44] s).map strip).filter (fun x => !x.isEmpty)

/-- Specification side: a reference matches a rule when it expands to its code. -/
def matchesRule (ms : List Manifest) (refs : List Str) (code : Str) : Bool :=
  (expandRefs (referenceMap ms) refs).contains code

end SqlfluffVerif.Select
