/-
Model of violation de-duplication and ordering (C33).

Transcribes
  * `LintedFile.deduplicate_in_source_space` (core/linter/linted_file.py) → `dedupeSort`
    (`set` membership of `source_signature()` → `seen` list; `sorted(key=(line_no, line_pos))` → stable mergeSort)
  * the record sort of `LintedDir.add` (core/linter/linted_dir.py) → `recordSort`
A violation is abstracted to its signature id, its (line, pos), its code id and a unique id.
-/
namespace SqlfluffVerif.Dedupe

structure Viol where
  sig : Nat
  line : Nat
  pos : Nat
  code : Nat
  uid : Nat
deriving DecidableEq, Repr

def keepFirst (seen : List Nat) : List Viol → List Viol
  | [] => []
  | v :: vs => if seen.contains v.sig then keepFirst seen vs else v :: keepFirst (v.sig :: seen) vs

def posLe (a b : Viol) : Bool := a.line < b.line || (a.line == b.line && a.pos ≤ b.pos)

def dedupeSort (vs : List Viol) : List Viol := (keepFirst [] vs).mergeSort posLe

def recLe (a b : Viol) : Bool :=
  a.line < b.line || (a.line == b.line && (a.pos < b.pos || (a.pos == b.pos && a.code ≤ b.code)))

def recordSort (vs : List Viol) : List Viol := vs.mergeSort recLe

end SqlfluffVerif.Dedupe
