/-
Model of match-result materialisation (C02, C03).

Transcribes sqlfluff/core/parser/match_result.py (`MatchResult.apply`, `append`, `wrap`,
`__post_init__`) and sqlfluff/core/parser/segments/file.py (`BaseFileSegment.root_parse`).
Tokens are identified by their index in the lexed token tuple; a tree leaf is a token index or an
inserted zero-width meta segment.
-/
namespace SqlfluffVerif.MatchResult

/-- `MatchResult`: matched slice, optional class id, inserts `(idx, meta kind)`, children. -/
inductive MR where
  | mk (start stop : Nat) (cls : Option Nat) (inserts : List (Nat × Nat)) (children : List MR)
deriving Repr

instance : Inhabited MR := ⟨.mk 0 0 none [] []⟩

def MR.start : MR → Nat | .mk s _ _ _ _ => s
def MR.stop : MR → Nat | .mk _ e _ _ _ => e
def MR.cls : MR → Option Nat | .mk _ _ c _ _ => c
def MR.inserts : MR → List (Nat × Nat) | .mk _ _ _ i _ => i
def MR.children : MR → List MR | .mk _ _ _ _ c => c
def MR.len (m : MR) : Nat := m.stop - m.start

inductive Tree where
  | tok (i : Nat)
  | ins (kind : Nat) (pos : Nat)          -- meta segment inserted before token `pos`
  | node (cls : Nat) (children : List Tree)
deriving Repr, BEq

instance : Inhabited Tree := ⟨.tok 0⟩

inductive Err where
  | fuel | zeroLenClass | zeroLenChildren | insertOutside | outOfBounds | skipAhead | gapAssert | wrapEmptyInsert
deriving Repr, DecidableEq

/-- A trigger: an insert or an already-applied child, keyed by its index. -/
inductive Trig where
  | ins (kind : Nat)
  | child (stop : Nat) (trees : List Tree)

/-- stable insertion sort by key (`sorted(trigger_locs.keys())` over groups that keep insertion order) -/
def insertByKey {α} (x : Nat × α) : List (Nat × α) → List (Nat × α)
  | [] => [x]
  | y :: ys => if x.1 ≤ y.1 then x :: y :: ys else y :: insertByKey x ys

def sortByKey {α} (l : List (Nat × α)) : List (Nat × α) := l.foldr insertByKey []

def toks (a b : Nat) : List Tree := (List.range' a (b - a)).map Tree.tok

/-- The trigger loop of `apply`. `cur` is the key of the group being processed. -/
def runTriggers (n stop : Nat) : Nat → Option Nat → List (Nat × Trig) → List Tree → Except Err (List Tree)
  | mx, _, [], acc => .ok (if mx < stop then acc ++ toks mx stop else acc)
  | mx, cur, (idx, t) :: rest, acc =>
    let step (mx : Nat) (acc : List Tree) : Except Err (List Tree) :=
      match t with
      | .ins k => if idx > n then .error .outOfBounds   -- `_get_point_pos_at_idx`: IndexError
                  else runTriggers n stop mx (some idx) rest (acc ++ [Tree.ins k idx])
      | .child cstop trees => runTriggers n stop cstop (some idx) rest (acc ++ trees)
    if cur == some idx then step mx acc
    else if idx > mx then step idx (acc ++ toks mx idx)
    else if idx < mx then .error .skipAhead
    else step mx acc

/-- Apply every child with `g` (the recursive call) and turn it into a trigger keyed by its start. -/
def mapTrigs (g : MR → Except Err (List Tree)) : List MR → Except Err (List (Nat × Trig))
  | [] => .ok []
  | c :: cs =>
    match g c with
    | .error e => .error e
    | .ok ts =>
      match mapTrigs g cs with
      | .error e => .error e
      | .ok r => .ok ((c.start, Trig.child c.stop ts) :: r)

def insTrigs (ins : List (Nat × Nat)) : List (Nat × Trig) := ins.map (fun i => (i.1, Trig.ins i.2))

/-- `MatchResult.apply` (fuel bounds the nesting depth). `n` is the number of tokens. -/
def applyF (n : Nat) : Nat → MR → Except Err (List Tree)
  | 0, _ => .error .fuel
  | f + 1, .mk s e cls ins ch =>
    if e ≤ s then
      if cls.isSome then .error .zeroLenClass
      else if !ch.isEmpty then .error .zeroLenChildren
      else if ins.any (fun i => i.1 != s) then .error .insertOutside
      else if !ins.isEmpty && n == 0 then .error .outOfBounds    -- `assert segments`
      else .ok (ins.map (fun i => Tree.ins i.2 i.1))
    else if n < e then .error .outOfBounds
    else
      match mapTrigs (applyF n f) ch with
      | .error err => .error err
      | .ok childTrigs =>
        match runTriggers n e s none (sortByKey (insTrigs ins ++ childTrigs)) [] with
        | .error err => .error err
        | .ok res =>
          match cls with
          | none => .ok res
          | some c => .ok [Tree.node c res]

/-- nesting depth, used to pick enough fuel -/
def depth : MR → Nat
  | .mk _ _ _ _ ch => 1 + depthList ch
where depthList : List MR → Nat
  | [] => 0
  | c :: cs => max (depth c) (depthList cs)

def apply (n : Nat) (m : MR) : Except Err (List Tree) := applyF n (depth m) m

/-- token indices at the leaves, in order (zero-width inserts ignored) -/
def leaves : Tree → List Nat
  | .tok i => [i]
  | .ins _ _ => []
  | .node _ ch => leavesList ch
where leavesList : List Tree → List Nat
  | [] => []
  | t :: ts => leaves t ++ leavesList ts

def leavesL (ts : List Tree) : List Nat := leaves.leavesList ts

/-- `truthy`: `len > 0 or bool(insert_segments)` -/
def MR.truthy (m : MR) : Bool := decide (m.len > 0) || !m.inserts.isEmpty

/-- `MatchResult.append` -/
def append (a b : MR) (extra : List (Nat × Nat) := []) : Except Err MR :=
  if !a.truthy then .ok b
  else if !b.truthy then .ok a
  else if b.start < a.stop then .error .gapAssert
  else
    let part (m : MR) : List (Nat × Nat) × List MR :=
      if m.cls.isSome then ([], [m]) else (m.inserts, m.children)
    let pa := part a
    let pb := part b
    .ok (.mk a.start b.stop none (extra ++ pa.1 ++ pb.1) (pa.2 ++ pb.2))

/-- `MatchResult.wrap` -/
def wrap (m : MR) (outer : Nat) (extra : List (Nat × Nat) := []) : Except Err MR :=
  if !m.truthy then (if extra.isEmpty then .ok m else .error .wrapEmptyInsert)
  else if m.len = 0 then .error .zeroLenClass      -- `__post_init__` of the new result
  else if m.cls.isSome then .ok (.mk m.start m.stop (some outer) extra [m])
  else .ok (.mk m.start m.stop (some outer) (m.inserts ++ extra) m.children)

/-! ### Well-formedness (the contract `GrammarWF` on what grammars return) -/

/-- chain condition on the sorted trigger spans `(idx, stopAfter)` -/
def chainOK (lo hi : Nat) : List (Nat × Nat) → Bool
  | [] => decide (lo ≤ hi)
  | (i, e) :: rest => decide (lo ≤ i) && decide (i ≤ e) && chainOK e hi rest

def wfF (n : Nat) : Nat → MR → Bool
  | 0, _ => false
  | f + 1, .mk s e cls ins ch =>
    decide (s ≤ e) && decide (e ≤ n) &&
    (if e ≤ s then cls.isNone && ch.isEmpty && ins.all (fun i => i.1 == s) && (ins.isEmpty || decide (0 < n))
     else chainOK s e (sortByKey (ins.map (fun i => (i.1, i.1)) ++ ch.map (fun c => (c.start, c.stop))))) &&
    ch.all (fun c => wfF n f c)

def wf (n : Nat) (m : MR) : Bool := wfF n (depth m) m

/-! ### `root_parse` -/

/-- tokens are described by their `is_code` flags -/
def firstCode (codes : List Bool) : Nat :=
  -- the `for _start_idx in range(len)` loop: index of first code token, else len-1 (0 if empty)
  match codes.findIdx? id with
  | some i => i
  | none => codes.length - 1

def lastCodeEnd (codes : List Bool) (startIdx : Nat) : Nat :=
  -- `for _end_idx in range(len, start-1, -1): if segments[_end_idx-1].is_code: break`
  let rec go : Nat → Nat
    | 0 => 0
    | e + 1 => if codes.getD e false then e + 1 else if e + 1 ≤ startIdx then startIdx else go e
  go codes.length

/-- first code token of the unmatched tail `[stop, e)` (or its last index when none is code):
    the `for _idx in range(len(_unmatched))` loop of `root_parse` -/
def unmatchedSplit (codes : List Bool) (stop e : Nat) : Nat :=
  match (List.range' stop (e - stop)).find? (fun i => codes.getD i false) with
  | some i => i
  | none => e - 1

/-- `root_parse` given the root match; class ids: 0 = file, 1 = unparsable -/
def rootParse (codes : List Bool) (m : MR) : Except Err Tree :=
  let n := codes.length
  let s := firstCode codes
  let e := lastCodeEnd codes s
  if s == e then .ok (Tree.node 0 (toks 0 n))
  else
    match apply n m with
    | .error err => .error err
    | .ok matched =>
      let content : List Tree :=
        if !m.truthy then [Tree.node 1 (toks s e)]
        else if m.stop < e then
          -- first code token of the unmatched tail (or its last index when none is code)
          let k := unmatchedSplit codes m.stop e
          matched ++ toks m.stop k ++ [Tree.node 1 (toks k e)]
        else matched
      .ok (Tree.node 0 (toks 0 s ++ content ++ toks e n))

end SqlfluffVerif.MatchResult

namespace SqlfluffVerif.MatchResult

/-- indent value of an inserted meta kind: 0 Indent (+1), 1 Dedent (−1), 2 ImplicitIndent (+1) -/
def kindVal (k : Nat) : Int := if k = 0 then 1 else if k = 1 then -1 else if k = 2 then 1 else 0

def metaSum : Tree → Int
  | .tok _ => 0
  | .ins k _ => kindVal k
  | .node _ ch => metaSumList ch
where metaSumList : List Tree → Int
  | [] => 0
  | t :: ts => metaSum t + metaSumList ts

def metaSumL (ts : List Tree) : Int := metaSum.metaSumList ts

def insVals (ins : List (Nat × Nat)) : Int := (ins.map (fun i => kindVal i.2)).sum

/-- total indent value of every insert in a match tree (fuel = nesting bound) -/
def insSumF : Nat → MR → Int
  | 0, _ => 0
  | f + 1, .mk _ _ _ ins ch => insVals ins + (ch.map (insSumF f)).sum

end SqlfluffVerif.MatchResult
