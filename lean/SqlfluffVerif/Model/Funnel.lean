/-
The exception funnel of one file's trip through the linter (C04, C05):
  Linter.render_string   — catches SQLTemplaterError (→ TMP) and SQLFluffSkipFile
  Linter._lex_templated_file — catches SQLLexError (→ LXR)
  Linter._parse_tokens   — max_parse_nodes pre-check (→ PRS) and catches SQLParseError (→ PRS; includes the depth limit
                           raised by ParseContext.deeper_match)
  BaseRule.crawl         — catches every Exception of a rule's _eval (→ "Unexpected exception" violation)
What the templater, lexer, parser and rules *do* on an input is the environment; the funnel is the code.
-/
namespace SqlfluffVerif.Funnel

inductive Exc where
  | templater | skipFile | lexErr | parseErr | other
deriving DecidableEq, Repr

inductive Viol where
  | TMP | LXR | PRS | internal (rule : Nat) | lint (rule : Nat)
deriving DecidableEq, Repr

structure Env where
  render : Except Exc (List Viol)            -- templater.process_with_variants
  lex : Except Exc (List Viol)               -- Lexer.lex (returns its LXR violations)
  nTokens : Nat
  parse : Except Exc (List Viol)             -- Parser.parse + unparsable sections found in the tree
  rules : List (Nat × Except Exc (List Viol)) -- (rule id, outcome of its _eval over the tree)

/-- `render_string`: (rendered?, violations) -/
def renderStage (e : Env) : Except Exc (Bool × List Viol) :=
  match e.render with
  | .ok vs => .ok (true, vs)
  | .error .templater => .ok (false, [.TMP])
  | .error .skipFile => .ok (false, [])
  | .error x => .error x

def lexStage (e : Env) : Except Exc (Bool × List Viol) :=
  match e.lex with
  | .ok vs => .ok (true, vs)
  | .error .lexErr => .ok (false, [.LXR])
  | .error x => .error x

/-- `_parse_tokens` with the node-count pre-check (`maxNodes = 0` disables it) -/
def parseStage (maxNodes : Nat) (e : Env) : Except Exc (Bool × List Viol) :=
  if maxNodes > 0 && e.nTokens > maxNodes then .ok (false, [.PRS])
  else match e.parse with
    | .ok vs => .ok (true, vs)
    | .error .parseErr => .ok (false, [.PRS])
    | .error x => .error x

/-- `BaseRule.crawl` for each rule: any exception becomes an internal-error violation -/
def ruleStage : List (Nat × Except Exc (List Viol)) → List Viol
  | [] => []
  | (r, .ok vs) :: rest => vs ++ ruleStage rest
  | (r, .error _) :: rest => Viol.internal r :: ruleStage rest

def lintFile (maxNodes : Nat) (e : Env) : Except Exc (List Viol) := do
  let (rendered, v1) ← renderStage e
  if !rendered then return v1
  let (lexed, v2) ← lexStage e
  if !lexed then return v1 ++ v2
  let (parsed, v3) ← parseStage maxNodes e
  if !parsed then return v1 ++ v2 ++ v3
  return v1 ++ v2 ++ v3 ++ ruleStage e.rules

/-- `ParseContext.deeper_match`: nesting one level per call, raising SQLParseError beyond the limit (`0` = no limit) -/
def descend (limit : Nat) : Nat → Nat → Except Exc Nat
  | depth, 0 => .ok depth
  | depth, n + 1 => if limit > 0 && depth + 1 > limit then .error .parseErr else descend limit (depth + 1) n

end SqlfluffVerif.Funnel
