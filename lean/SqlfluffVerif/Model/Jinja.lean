/-
Decision logic of `JinjaTemplater.process` (core/templaters/jinja.py): the marker-free fast path.
-/
namespace SqlfluffVerif.Jinja

abbrev Str := List Nat

/-- `re.search(r"\{[{%#]", s)` as a predicate on code points -/
def hasMarker : Str → Bool
  | a :: b :: rest => (a == 123 && (b == 123 || b == 37 || b == 35)) || hasMarker (b :: rest)
  | _ => false

structure Cfg where
  macrosPath : Bool      -- load_macros_from_path configured
  macros : Bool          -- a macros section
  libraryPath : Bool     -- library_path (core or templater section)
deriving DecidableEq

def fastPath (cfg : Cfg) (s : Str) : Bool :=
  !s.isEmpty && !(hasMarker s) && !cfg.macrosPath && !cfg.macros && !cfg.libraryPath

/-- the primary rendering -/
def primary (render : Str → Str) (cfg : Cfg) (s : Str) : Str := if fastPath cfg s then s else render s

/-- Jinja (keep_trailing_newline, standard delimiters) renders marker-free text to itself -/
def MarkerFreeIdentity (render : Str → Str) : Prop := ∀ s, hasMarker s = false → render s = s

end SqlfluffVerif.Jinja
