/-
Model of the lexer loop (C01, C12). Transcribes sqlfluff/core/parser/lexer.py:
  `StringLexer._trim_match` → `trimMatch`, `StringLexer._subdivide` → `subdivide`,
  `StringLexer.match` → `matchOne`, `PyLexer.lex_match` → `lexMatch`,
  the loop of `PyLexer.lex` (with the last-resort matcher and the `Fatal` branch) → `lex`,
  `PyLexer.map_template_slices` → `mapSlices`.
The regex engines are parameters: a matcher is a function returning the length of the prefix it
matches, a searcher returns a span. Concrete patterns (`Pat`) give an executable family used by the
correspondence harness (literal strings as `StringLexer`, character-class runs as `RegexLexer`).
-/
namespace SqlfluffVerif.Lexer

abbrev Str := List Nat

structure Elem where
  raw : Str
  name : Nat
deriving DecidableEq, Repr

/-- `search` of a sub-matcher: span `(a, b)` in the string, plus the element name it produces -/
structure Searcher where
  name : Nat
  search : Str → Option (Nat × Nat)

structure Matcher where
  name : Nat
  mlen : Str → Option Nat            -- `_match`: length of the matched prefix
  sub : Option Searcher := none      -- `subdivider`
  trim : Option Searcher := none     -- `trim_post_subdivide`

/-- a usable search result: `0 ≤ a < b ≤ |s|` (the code ignores zero-length matches) -/
def okSpan (s : Str) (r : Option (Nat × Nat)) : Option (Nat × Nat) :=
  match r with
  | some (a, b) => if a < b ∧ b ≤ s.length then some (a, b) else none
  | none => none

/-- `_trim_match` loop; `fuel` bounds the iterations (each consumes at least one character). -/
def trimLoop (self : Nat) (t : Searcher) : Nat → Str → Str → List Elem → List Elem
  | 0, content, str, acc => if (content ++ str).isEmpty then acc else acc ++ [⟨content ++ str, self⟩]
  | fuel + 1, content, str, acc =>
    if str.isEmpty then (if content.isEmpty then acc else acc ++ [⟨content, self⟩])
    else
      match okSpan str (t.search str) with
      | none => acc ++ [⟨content ++ str, self⟩]
      | some (a, b) =>
        if a = 0 then trimLoop self t fuel content (str.drop b) (acc ++ [⟨str.take b, t.name⟩])
        else if b = str.length then
          acc ++ [⟨content ++ str.take a, self⟩, ⟨(str.drop a).take (b - a), t.name⟩]
        else trimLoop self t fuel (content ++ str.take b) (str.drop b) acc

def trimMatch (m : Matcher) (s : Str) : List Elem :=
  match m.trim with
  | none => if s.isEmpty then [] else [⟨s, m.name⟩]
  | some t => trimLoop m.name t (s.length + 1) [] s []

/-- `_subdivide` loop -/
def subLoop (m : Matcher) (d : Searcher) : Nat → Str → List Elem → List Elem
  | 0, _, acc => acc
  | fuel + 1, str, acc =>
    if str.isEmpty then acc
    else
      match okSpan str (d.search str) with
      | some (a, b) =>
        subLoop m d fuel (str.drop b) (acc ++ trimMatch m (str.take a) ++ [⟨(str.drop a).take (b - a), d.name⟩])
      | none => acc ++ trimMatch m str

def subdivide (m : Matcher) (raw : Str) : List Elem :=
  match m.sub with
  | none => [⟨raw, m.name⟩]
  | some d => subLoop m d (raw.length + 1) raw []

/-- `StringLexer.match`: elements and the number of characters consumed -/
def matchOne (m : Matcher) (s : Str) : Option (List Elem × Nat) :=
  match m.mlen s with
  | some k => if 0 < k ∧ k ≤ s.length then some (subdivide m (s.take k), k) else none
  | none => none

def firstMatch (ms : List Matcher) (s : Str) : Option (List Elem × Nat) :=
  ms.findSome? (fun m => match matchOne m s with
    | some (es, k) => if es.isEmpty then none else some (es, k)
    | none => none)

/-- `lex_match`: match repeatedly with the first matcher that yields elements. -/
def lexMatch (ms : List Matcher) : Nat → Str → List Elem → Str × List Elem
  | 0, s, acc => (s, acc)
  | fuel + 1, s, acc =>
    if s.isEmpty then (s, acc)
    else match firstMatch ms s with
      | some (es, k) => lexMatch ms fuel (s.drop k) (acc ++ es)
      | none => (s, acc)

inductive LexErr where
  | fatal (rest : Str)      -- `SQLLexError("Fatal. Unable to lex characters …")`
  | fuel
  | mismatch                -- `map_template_slices`: "Template and lexed elements do not match"
deriving Repr

/-- the loop of `PyLexer.lex` -/
def lexLoop (ms : List Matcher) (lastResort : Matcher) : Nat → Str → List Elem → Except LexErr (List Elem)
  | 0, _, _ => .error .fuel
  | fuel + 1, s, acc =>
    let r := lexMatch ms (s.length + 1) s []
    if r.1.isEmpty then .ok (acc ++ r.2)
    else
      match matchOne lastResort r.1 with
      | some (es, k) =>
        if es.isEmpty then .error (.fatal r.1)
        else lexLoop ms lastResort fuel (r.1.drop k) (acc ++ r.2 ++ es)
      | none => .error (.fatal r.1)

def lex (ms : List Matcher) (lastResort : Matcher) (s : Str) : Except LexErr (List Elem) :=
  lexLoop ms lastResort (s.length + 1) s []

/-- `lex` followed by the equality check of `map_template_slices` (which raises `ValueError`) -/
def lexChecked (ms : List Matcher) (lastResort : Matcher) (s : Str) : Except LexErr (List Elem) :=
  match lex ms lastResort s with
  | .ok es => if (es.map (·.raw)).flatten == s then .ok es else .error .mismatch
  | .error e => .error e

/-- `map_template_slices`: running offsets `(start, stop)` for each element -/
def mapSlices (es : List Elem) : List (Elem × Nat × Nat) :=
  (es.foldl (fun (acc : List (Elem × Nat × Nat) × Nat) e =>
    (acc.1 ++ [(e, acc.2, acc.2 + e.raw.length)], acc.2 + e.raw.length)) ([], 0)).1

/-! ### Concrete pattern family (executable; mirrored by real `StringLexer` / `RegexLexer`) -/

inductive Pat where
  | lit (t : Str)                               -- StringLexer(template)
  | cls (neg : Bool) (chars : List Nat)         -- RegexLexer("[chars]+") / ("[^chars]+"); `*` gives the same matches of length > 0
deriving Repr

def inCls (neg : Bool) (chars : List Nat) (c : Nat) : Bool := if neg then !(chars.contains c) else chars.contains c

def Pat.mlen : Pat → Str → Option Nat
  | .lit t, s => if t.isPrefixOf s then some t.length else none
  | .cls neg chars, s =>
    let k := (s.takeWhile (inCls neg chars)).length
    if k = 0 then none else some k

/-- leftmost occurrence -/
def findLit (t : Str) : Nat → Str → Option Nat
  | _, [] => if t.isEmpty then some 0 else none
  | off, c :: cs => if t.isPrefixOf (c :: cs) then some off else findLit t (off + 1) cs

def Pat.search : Pat → Str → Option (Nat × Nat)
  | .lit t, s => (findLit t 0 s).map (fun a => (a, a + t.length))
  | .cls neg chars, s =>
    let a := (s.takeWhile (fun c => !(inCls neg chars c))).length
    let k := ((s.drop a).takeWhile (inCls neg chars)).length
    if k = 0 then none else some (a, a + k)

def Pat.searcher (name : Nat) (p : Pat) : Searcher := ⟨name, p.search⟩

def Pat.matcher (name : Nat) (p : Pat) (sub trim : Option (Nat × Pat)) : Matcher :=
  { name := name, mlen := p.mlen,
    sub := sub.map (fun x => x.2.searcher x.1), trim := trim.map (fun x => x.2.searcher x.1) }

/-- the default last-resort matcher `[^\t\n ]*` -/
def lastResortDefault (name : Nat) : Matcher := (Pat.cls true [9, 10, 32]).matcher name none none

end SqlfluffVerif.Lexer
