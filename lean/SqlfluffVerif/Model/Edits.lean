/-
Edit algebra over token lists (C12, C14, C15). A token is (class, text) with class
0 whitespace · 1 newline · 2 comment · 3 other (code). An edit replaces the tokens `[a, b)` by `news`
(delete: `news = []`; create before/after: `a = b`), which is how `LintFix` delete / replace /
create_before / create_after act on the leaves.
-/
namespace SqlfluffVerif.Edits

abbrev Str := List Nat

structure Tok where
  cls : Nat
  raw : Str
deriving DecidableEq, Repr

def isCode (t : Tok) : Bool := t.cls == 3
def isComment (t : Tok) : Bool := t.cls == 2

def codeProj (ts : List Tok) : List Str := (ts.filter isCode).map (·.raw)
def comments (ts : List Tok) : List Str := (ts.filter isComment).map (·.raw)

def applyEdit (ts : List Tok) (a b : Nat) (news : List Tok) : List Tok := ts.take a ++ news ++ ts.drop b

/-- count of a string in a list (multiset comparison) -/
def sameMultiset (x y : List Str) : Bool := x.all (fun s => x.count s == y.count s) && y.all (fun s => x.count s == y.count s)

/-- `Spec.C14`: code tokens unchanged in text and order; comments preserved as a multiset -/
def specC14 (before after : List Tok) : Bool :=
  codeProj before == codeProj after && sameMultiset (comments before) (comments after)

def lowerC (c : Nat) : Nat :=
  if (65 ≤ c && c ≤ 90) || (192 ≤ c && c ≤ 222 && c != 215) then c + 32 else c

def lower (s : Str) : Str := s.map lowerC

def quoted (s : Str) : Bool := match s with
  | c :: _ => c == 39 || c == 34 || c == 96 || c == 91
  | [] => false

/-- one token may change only in letter case, and only if it is unquoted code -/
def caseEq (x y : Tok) : Bool :=
  x.cls == y.cls && (x.raw == y.raw || (x.cls == 3 && !(quoted x.raw) && lower x.raw == lower y.raw))

/-- `Spec.C15` -/
def specC15 : List Tok → List Tok → Bool
  | [], [] => true
  | x :: xs, y :: ys => caseEq x y && specC15 xs ys
  | _, _ => false

/-- the same relation with the case folding supplied from outside: each token comes with its case-folded text (Unicode case
    mapping is external; the harness supplies Python's `str.lower()`), so that scripts beyond Latin-1 are judged correctly -/
def caseEqF (x y : Tok × Str) : Bool :=
  x.1.cls == y.1.cls && (x.1.raw == y.1.raw || (x.1.cls == 3 && !(quoted x.1.raw) && x.2 == y.2))

def specC15F : List (Tok × Str) → List (Tok × Str) → Bool
  | [], [] => true
  | x :: xs, y :: ys => caseEqF x y && specC15F xs ys
  | _, _ => false

/-- `Spec.C12`: same boundaries (texts) and lexical classes -/
def specC12 (tree relex : List Tok) : Bool := tree == relex

end SqlfluffVerif.Edits
