/-
Process-wide mutable state that outlives one file (C32):
  * `Linter.allowed_rule_ref_map` writes the special codes into the rule pack's reference map (a Python dict: an existing
    key keeps its position, a new key is appended) before computing the noqa map;
  * `BlockTracker._map` / `_stack` are class attributes: block ids are handed out once per source slice and reused.
-/
namespace SqlfluffVerif.Shared

abbrev RefMap := List (Nat × List Nat)

def setKey : RefMap → Nat → List Nat → RefMap
  | [], k, v => [(k, v)]
  | (k', v') :: rest, k, v => if k' == k then (k, v) :: rest else (k', v') :: setKey rest k v

def get (m : RefMap) (k : Nat) : Option (List Nat) := (m.find? (fun e => e.1 == k)).map (·.2)

/-- codes of PRS, LXR, TMP -/
def specials : List Nat := [1000001, 1000002, 1000003]

def mutate (m : RefMap) : RefMap := specials.foldl (fun m s => setKey m s [s]) m

/-- `allowed_rule_ref_map` with `disable_noqa_except` set: `globs` says which keys the comma separated patterns match.
    Returns (the noqa map, the state left behind in the shared reference map). -/
def allowed (m : RefMap) (glob : Nat → Bool) : RefMap × RefMap :=
  let m' := mutate m
  let noqa := (m'.filter (fun e => glob e.1)).flatMap (·.2)
  (m'.map (fun e => (e.1, e.2.filter (fun c => noqa.contains c))), m')

/-- the same call repeated `n` times on the shared map, returning the last output -/
def allowedAfter (m : RefMap) (glob : Nat → Bool) : Nat → RefMap × RefMap
  | 0 => allowed m glob
  | n + 1 => allowedAfter (allowed m glob).2 glob n

/-! ### BlockTracker -/

structure BT where
  stack : List Nat := []
  map : List ((Nat × Nat) × Nat) := []
  next : Nat := 0            -- supply of fresh ids (uuid4)
deriving Repr

def BT.lookup (b : BT) (k : Nat × Nat) : Option Nat := (b.map.find? (fun e => e.1 == k)).map (·.2)

def BT.enter (b : BT) (k : Nat × Nat) : BT :=
  match b.lookup k with
  | some u => { b with stack := u :: b.stack }
  | none => { stack := b.next :: b.stack, map := (k, b.next) :: b.map, next := b.next + 1 }

def BT.exit (b : BT) : BT := { b with stack := b.stack.tail }

def BT.top (b : BT) : Option Nat := b.stack.head?

/-- ids handed out for a sequence of block entries -/
def BT.ids (b : BT) : List (Nat × Nat) → List Nat × BT
  | [] => ([], b)
  | k :: ks =>
    let b' := b.enter k
    let (r, b'') := BT.ids (b'.exit) ks
    ((b'.top.getD 0) :: r, b'')

end SqlfluffVerif.Shared
