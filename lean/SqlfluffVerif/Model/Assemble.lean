import SqlfluffVerif.Model.Exit
/-
Model of result assembly in `Linter.lint_paths` (C24): per-file results arrive from the runner in
*any* order (the parallel runner uses `imap_unordered`), each is routed by path to its `LintedDir`
and the directory counters are sums; the exit code is computed from those sums (Model/Exit.lean).
A per-file result is `(path id, File)`.
-/
namespace SqlfluffVerif.Assemble
open SqlfluffVerif.Exit

abbrev Res := Nat × File

/-- counters accumulated over the arrival list -/
structure Totals where
  files : Nat
  violations : Nat
  unfilteredTmpPrs : Nat
  filteredTmpPrs : Nat
  unfixable : Nat
deriving DecidableEq, Repr

def addRes (t : Totals) (r : Res) : Totals :=
  { files := t.files + 1, violations := t.violations + numViolations r.2,
    unfilteredTmpPrs := t.unfilteredTmpPrs + unfilteredTmpPrs r.2,
    filteredTmpPrs := t.filteredTmpPrs + filteredTmpPrs r.2, unfixable := t.unfixable + unfixableLint r.2 }

def assemble (arrivals : List Res) : Totals := arrivals.foldl addRes ⟨0, 0, 0, 0, 0⟩

def exitOf (t : Totals) : Nat := if t.violations > 0 then 1 else 0

end SqlfluffVerif.Assemble
