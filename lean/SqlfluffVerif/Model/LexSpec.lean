/-
Decidable statement of C01 on the observable output of the lexer (`Spec.C01`).
A token: (cls, rawLen, tStart, tStop, sStart, sStop) with cls 0 ordinary · 1 zero-width meta
(indent/dedent/placeholder/end_of_file) · 2 template-loop marker · 3 unlexable · 4 placeholder with
source extent (template tag / skipped source).
-/
namespace SqlfluffVerif.LexSpec

structure Tok where
  cls : Nat
  rawLen : Nat
  ts : Nat
  te : Nat
  ss : Nat
  se : Nat
deriving Repr, DecidableEq

def isReal (t : Tok) : Bool := t.cls == 0 || t.cls == 3

/-- (ii) templated slices of real tokens tile `[0, n)` in order with the token's length -/
def tiles (n : Nat) : Nat → List Tok → Bool
  | pos, [] => pos == n
  | pos, t :: ts => if isReal t then (t.ts == pos && t.te == pos + t.rawLen && tiles n (pos + t.rawLen) ts) else tiles n pos ts

/-- (iii) every token's source slice is inside the file -/
def inBounds (srcLen : Nat) (toks : List Tok) : Bool :=
  toks.all (fun t => decide (t.ss ≤ srcLen) && decide (t.se ≤ srcLen))   -- both end points inside the file (DESIGN §10)

/-- (iv) source starts are non-decreasing between loop markers -/
def monotone : Option Nat → List Tok → Bool
  | _, [] => true
  | last, t :: ts =>
    if t.cls == 2 then monotone none ts
    else if t.cls == 1 || t.cls == 4 then monotone last ts   -- markers/placeholders are emitted before a token that spans them (DESIGN §10)
    else (match last with | some l => decide (l ≤ t.ss) | none => true) &&
      -- a token whose source slice is reversed started before a loop boundary and ends after it: reset
      monotone (if t.se < t.ss then none else some t.ss) ts

/-- (v) untemplated file: identical positions -/
def rawIdentity (toks : List Tok) : Bool :=
  toks.all (fun t => !(isReal t) || (t.ts == t.ss && t.te == t.se))

/-- (vi) every source position is covered by some token or placeholder (a boolean per position) -/
def covered (srcLen : Nat) (toks : List Tok) : Bool :=
  (List.range srcLen).all (fun p => toks.any (fun t => decide (t.ss ≤ p) && decide (p < t.se)))

/-- (vii) one error per unlexable token -/
def errsMatch (toks : List Tok) (nErrs : Nat) : Bool := (toks.filter (fun t => t.cls == 3)).length == nErrs

structure Verdict where
  tiles : Bool
  inBounds : Bool
  monotone : Bool
  rawIdentity : Bool
  covered : Bool
  errs : Bool

def specC01 (srcLen tmplLen : Nat) (templated : Bool) (toks : List Tok) (nErrs : Nat) : Verdict :=
  { tiles := tiles tmplLen 0 toks, inBounds := inBounds srcLen toks, monotone := monotone none toks,
    rawIdentity := templated || rawIdentity toks, covered := covered srcLen toks, errs := errsMatch toks nErrs }

end SqlfluffVerif.LexSpec
