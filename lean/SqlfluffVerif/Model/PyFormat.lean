/-
Model of the python templater's dot-notation rewrite (C09): the substitution
`re.sub(r"{([^:}]*\.[^:}]*)(:\S*)?}", r"{sqlfluff[\1]\2}", raw_str)` of
`PythonTemplater.process` (core/templaters/python.py), transcribed as a left-to-right scanner with
the backtracking this particular pattern admits.
-/
namespace SqlfluffVerif.PyFormat

abbrev Str := List Nat

def cLB : Nat := 123   -- {
def cRB : Nat := 125   -- }
def cColon : Nat := 58
def cDot : Nat := 46

def isWs (c : Nat) : Bool :=
  (9 ≤ c && c ≤ 13) || (28 ≤ c && c ≤ 32) || c == 133 || c == 160 || c == 5760 ||
  (8192 ≤ c && c ≤ 8202) || c == 8232 || c == 8233 || c == 8239 || c == 8287 || c == 12288

def sPrefix : Str := [123, 115, 113, 108, 102, 108, 117, 102, 102, 91]   -- "{sqlfluff["

/-- index of the last `}` in a list, if any -/
def lastRB (l : Str) : Option Nat :=
  let idxs := (List.range l.length).filter (fun i => l.getD i 0 == cRB)
  idxs.getLast?

/-- try to match the pattern at the head of `s` (which starts with `{`); returns (replacement, rest) -/
def matchAt (s : Str) : Option (Str × Str) :=
  match s with
  | c :: rest =>
    if c != cLB then none
    else
      let body := rest.takeWhile (fun x => x != cColon && x != cRB)
      let after := rest.drop body.length
      if !(body.contains cDot) then none
      else match after with
        | d :: after' =>
          if d == cRB then some (sPrefix ++ body ++ [93, cRB], after')
          else if d == cColon then
            let run := after'.takeWhile (fun x => !isWs x)
            match lastRB run with
            | some k => some (sPrefix ++ body ++ [93] ++ [cColon] ++ run.take k ++ [cRB], after'.drop (k + 1))
            | none => none
          else none
        | [] => none
  | [] => none

/-- `re.sub` over the whole string -/
def rewrite : Nat → Str → Str
  | 0, s => s
  | _ + 1, [] => []
  | f + 1, c :: cs =>
    match matchAt (c :: cs) with
    | some (rep, rest) => rep ++ rewrite f rest
    | none => c :: rewrite f cs

def dotRewrite (s : Str) : Str := rewrite (s.length + 1) s

end SqlfluffVerif.PyFormat
