/-
`JinjaTemplater._rectify_templated_slices` (core/templaters/jinja.py): a variant is rendered from a *modified* template (some
tags overridden by text of another length); the source slices of its slice list are in the modified template's coordinates
and are shifted back to the original file's coordinates with the recorded length deltas. `deltas` is sorted by position
(`sorted(length_deltas.items())`); a slice whose (shifted) start equals the next delta's position is "stretched" by it.
-/
namespace SqlfluffVerif.Rectify

/-- (start, stop) of a slice's source slice; the loop threads `carried` and the remaining delta stack -/
def rectify : Int → List (Int × Int) → List (Int × Int) → List (Int × Int)
  | _, _, [] => []
  | carried, [], (a, b) :: rest => (a + carried, b + carried) :: rectify carried [] rest
  | carried, (idx, d) :: ds, (a, b) :: rest =>
    if idx == a + carried then (a + carried, b + carried - d) :: rectify (carried - d) ds rest
    else (a + carried, b + carried) :: rectify carried ((idx, d) :: ds) rest

/-- slices follow each other without gap from `pos` -/
def Contig : Int → List (Int × Int) → Prop
  | _, [] => True
  | pos, (a, b) :: rest => a = pos ∧ a ≤ b ∧ Contig b rest

def endOf : Int → List (Int × Int) → Int
  | pos, [] => pos
  | _, (_, b) :: rest => endOf b rest

end SqlfluffVerif.Rectify
