/-
Model of the fix loop `Linter.lint_fix_parsed` (core/linter/linter.py), C13/C17/C18.
Trees and fix sets are abstract identifiers. For each rule, `propose rule tree` is what `crawl` returns
(`none` = no fixes) and `applyF tree fixes` is `apply_fixes` (new tree, `_valid`). The loop structure,
the phases (`main` with `loop_limit` passes over all rules — the first-pass "run all rules" override is never undone —, `post` with 2 passes
over the post rules),
the `is_fix_compatible` skip, the four rejection branches, the stable-exit `break` and the
`for … else` roll-back are transcribed.
-/
namespace SqlfluffVerif.FixLoop

structure Rule where
  id : Nat
  post : Bool            -- lint_phase == "post"
  fixCompat : Bool
deriving DecidableEq, Repr

structure Sys where
  propose : Nat → Nat → Option Nat          -- rule id → tree → fixes
  applyF : Nat → Nat → Nat × Bool           -- tree → fixes → (new tree, valid)
  conflicting : Nat → Bool := fun _ => false  -- fixes with conflicting anchors

structure St where
  tree : Nat
  last : Option Nat       -- last_fixes
  prev : List Nat         -- previous_versions
  changed : Bool
deriving Repr, DecidableEq

/-- one rule inside a pass -/
def ruleStep (sys : Sys) (firstPass : Bool) (st : St) (r : Rule) : St :=
  if !firstPass && !r.fixCompat then st
  else match sys.propose r.id st.tree with
    | none => st
    | some fx =>
      if sys.conflicting fx then st
      else if st.last == some fx then st
      else
        let res := sys.applyF st.tree fx
        let st' : St := { st with last := some fx }
        if res.1 == st.tree then st'                      -- nothing applied
        else if !res.2 then st'                           -- would be unparsable
        else if !(st.prev.contains res.1) then { st' with tree := res.1, prev := res.1 :: st.prev, changed := true }
        else st'                                          -- seen before: unfixable

def pass (sys : Sys) (rules : List Rule) (firstPass : Bool) (st : St) : St :=
  rules.foldl (ruleStep sys firstPass) { st with changed := false }

/-- loops of one phase; returns (state, hitLimit) -/
def phaseLoop (sys : Sys) (all phaseRules : List Rule) (isFirstPhase : Bool) : Nat → Nat → St → St × Bool
  | 0, _, st => (st, true)                                       -- `for … else`: limit reached
  | fuel + 1, loopIdx, st =>
    let first := isFirstPhase && loopIdx == 0
    -- NOTE: `rules_this_phase = rule_pack.rules` is assigned inside the loop on the first pass and never reset, so *every* loop
    -- of the main phase runs all rules (post-phase rules included); only the post phase is restricted to its own rules.
    let st' := pass sys (if isFirstPhase then all else phaseRules) first st
    if !st'.changed then (st', false) else phaseLoop sys all phaseRules isFirstPhase fuel (loopIdx + 1) st'

/-- `lint_fix_parsed(fix=True)`: returns (final tree, rolled back?) -/
def fixLoop (sys : Sys) (rules : List Rule) (loopLimit : Nat) (t0 : Nat) : Nat × Bool :=
  let st0 : St := { tree := t0, last := none, prev := [t0], changed := false }
  let mainRules := rules.filter (fun r => !r.post)
  let postRules := rules.filter (fun r => r.post)
  match phaseLoop sys rules mainRules true loopLimit 0 st0 with
  | (_, true) => (t0, true)
  | (st1, false) =>
    match phaseLoop sys rules postRules false 2 0 st1 with
    | (_, true) => (t0, true)
    | (st2, false) => (st2.tree, false)

/-- trees reachable from `t0` through *valid* applications of proposed fixes -/
inductive Adopted (sys : Sys) (t0 : Nat) : Nat → Prop
  | init : Adopted sys t0 t0
  | step (t fx : Nat) : Adopted sys t0 t → (sys.applyF t fx).2 = true → Adopted sys t0 (sys.applyF t fx).1

end SqlfluffVerif.FixLoop
