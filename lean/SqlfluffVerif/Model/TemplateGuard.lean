import SqlfluffVerif.Model.Patch
/-
The last filter of `generate_source_patches` (core/linter/patch.py) and `TemplatedFile.raw_slices_spanning_source_slice`
(core/templaters/base.py): which source patches are allowed to reach the file.
-/
namespace SqlfluffVerif.Guard
open SqlfluffVerif.Patch

structure RawSlice where
  idx : Nat          -- source_idx
  len : Nat          -- len(raw)
  lit : Bool         -- slice_type == "literal"
deriving DecidableEq, Repr

/-- first `while`: advance while the *next* slice starts at or before `start` -/
def dropToStart (start : Nat) : List RawSlice → List RawSlice
  | a :: b :: rest => if b.idx ≤ start then dropToStart start (b :: rest) else a :: b :: rest
  | l => l

/-- second `while`: the first slice, then following ones while they start before `stop` -/
def takeSpan (stop : Nat) : List RawSlice → List RawSlice
  | [] => []
  | a :: rest => a :: rest.takeWhile (fun s => decide (s.idx < stop))

def fileEnd : List RawSlice → Nat
  | [] => 0
  | [a] => a.idx + a.len
  | _ :: rest => fileEnd rest

/-- `raw_slices_spanning_source_slice` -/
def spanning (rs : List RawSlice) (start stop : Nat) : List RawSlice :=
  if start ≥ fileEnd rs then [] else takeSpan stop (dropToStart start rs)

/-- the keep/skip decision for one patch (`cat = 1` is an explicit source fix) -/
def keep (rs : List RawSlice) (p : Patch) : Bool :=
  let loc := spanning rs p.start p.stop
  if loc.isEmpty || loc.all (·.lit) then true
  else if p.cat == 1 then true
  else match loc with
    | l0 :: _ => p.start == p.stop && p.start == l0.idx
    | [] => false

/-- dedupe on (source slice, fixed text), filter, then `sorted(key=start)` (stable) -/
def dedupeFilter (rs : List RawSlice) : List (Nat × Nat × Str) → List Patch → List Patch
  | _, [] => []
  | seen, p :: ps =>
    if seen.contains (key p) then dedupeFilter rs seen ps
    else if keep rs p then p :: dedupeFilter rs (key p :: seen) ps
    else dedupeFilter rs seen ps

def generate (rs : List RawSlice) (ps : List Patch) : List Patch :=
  (dedupeFilter rs [] ps).mergeSort (fun a b => decide (a.start ≤ b.start))

/-- raw slices tile the source from `off` on -/
def Tiled : Nat → List RawSlice → Prop
  | _, [] => True
  | off, a :: rest => a.idx = off ∧ 0 < a.len ∧ Tiled (off + a.len) rest

end SqlfluffVerif.Guard
