/-
Model of offset → (line, column) conversion.

Transcribes (sqlfluff/core/templaters/base.py)
  * `iter_indices_of_newlines`            → `newlineIndices`
  * `TemplatedFile.get_line_pos_of_char_pos` → `linePos`   (`bisect_left` → `bisectLeft`)
and (sqlfluff/core/parser/markers.py)
  * `PositionMarker.infer_next_position`  → `inferNext`    (`str.split("\n")` → `splitNL`)

Strings are lists of code points (`Nat`); Python `str` indexes by code point too.
No Mathlib imports here.
-/
namespace SqlfluffVerif.Pos

abbrev Str := List Nat

def NL : Nat := 10

/-- `iter_indices_of_newlines`: the `find("\n", init+1)` loop, as a left-to-right scan
    carrying the absolute offset. -/
def nlFrom (off : Nat) : Str → List Nat
  | [] => []
  | c :: cs => if c = NL then off :: nlFrom (off + 1) cs else nlFrom (off + 1) cs

def newlineIndices (s : Str) : List Nat := nlFrom 0 s

/-- `bisect.bisect_left` on a sorted list: the insertion point = number of elements `< x`.
    (stdlib; modelled by its contract on sorted input as a linear scan) -/
def bisectLeft (xs : List Nat) (x : Nat) : Nat := (xs.takeWhile (· < x)).length

/-- `get_line_pos_of_char_pos` given the precomputed newline index list. -/
def linePosIdx (nls : List Nat) (p : Nat) : Nat × Nat :=
  let k := bisectLeft nls p
  if k > 0 then (k + 1, p - nls.getD (k - 1) 0) else (1, p + 1)

def linePos (s : Str) (p : Nat) : Nat × Nat := linePosIdx (newlineIndices s) p

/-- `str.split("\n")`. -/
def splitNL : Str → List Str
  | [] => [[]]
  | c :: cs =>
    match splitNL cs with
    | [] => [[]]            -- unreachable: `splitNL` never returns `[]`
    | p :: ps => if c = NL then [] :: p :: ps else (c :: p) :: ps

/-- `PositionMarker.infer_next_position`. -/
def inferNext (raw : Str) (line col : Nat) : Nat × Nat :=
  if raw = [] then (line, col)
  else
    let split := splitNL raw
    (line + split.length - 1,
     if split.length = 1 then col + raw.length else (split.getLastD []).length + 1)

/-! ### Reference semantics used by the specification -/

/-- Walk over characters tracking (line, col): the obviously-right definition. -/
def stepPos (lc : Nat × Nat) (c : Nat) : Nat × Nat :=
  if c = NL then (lc.1 + 1, 1) else (lc.1, lc.2 + 1)

def walk (t : Str) (lc : Nat × Nat) : Nat × Nat := t.foldl stepPos lc

/-- Length of the trailing run of non-newline characters. -/
def trailing (t : Str) : Nat := (t.reverse.takeWhile (· ≠ NL)).length

end SqlfluffVerif.Pos
