/-
Decision logic of counters, fix gates and exit codes (C18, C19, C22, C34).

Transcribes
  `LintedFile.get_violations` / `num_violations` (core/linter/linted_file.py)
  `LintedDir.add`, `discard_fixes_for_lint_errors_in_files_with_tmp_or_prs_errors` (linted_dir.py)
  `LintingResult.stats`, `count_tmp_prs_errors` (linting_result.py)
  the write gate of `Linter.lint_paths` and `LintedFile.persist_tree` (linter.py, linted_file.py)
  `lint`, `_handle_unparsable`, `_paths_fix`, `_stdin_fix` (cli/commands.py) and `fix` (api/simple.py).
A violation is an attribute vector; `changed` (does fix_string alter the text) is per file.
-/
namespace SqlfluffVerif.Exit

/-- kind: 0 TMP · 1 PRS · 2 LXR · 3 lint · 4 other -/
structure Viol where
  kind : Nat
  ignore : Bool       -- `ignore=` configuration
  warning : Bool      -- `warnings=` configuration
  masked : Bool       -- hidden by a noqa directive
  hasFixes : Bool     -- lint violation with fixes
  fatal : Bool := false
deriving DecidableEq, Repr

def Viol.fixable (v : Viol) : Bool := v.kind == 3 && v.hasFixes
def Viol.isTmpPrs (v : Viol) : Bool := v.kind == 0 || v.kind == 1

/-- `get_violations(types, filter_ignore, filter_warning, fixable)`; `useMask` = file has an ignore mask -/
def getViolations (vs : List Viol) (types : Viol → Bool) (filterIgnore filterWarning : Bool)
    (fixable : Option Bool) : List Viol :=
  let vs := vs.filter types
  let vs := match fixable with
    | none => vs
    | some f => vs.filter (fun v => v.fixable == f || v.fatal)
  let vs := if filterIgnore then (vs.filter (fun v => !v.ignore)).filter (fun v => !v.masked) else vs
  if filterWarning then vs.filter (fun v => !v.warning) else vs

def count (vs : List Viol) (types : Viol → Bool) (fi fw : Bool) (fx : Option Bool) : Nat :=
  (getViolations vs types fi fw fx).length

def anyType : Viol → Bool := fun _ => true
def isLint : Viol → Bool := fun v => v.kind == 3
def isTmp : Viol → Bool := fun v => v.kind == 0

structure File where
  viols : List Viol
  changed : Bool          -- would `fix_string` change the text?
  hasTree : Bool := true
deriving Repr

/-- counters kept by `LintedDir.add` for one file -/
def numViolations (f : File) : Nat := count f.viols anyType true true none
def unfilteredTmpPrs (f : File) : Nat := count f.viols Viol.isTmpPrs false false none
def filteredTmpPrs (f : File) : Nat := count f.viols Viol.isTmpPrs true true none
def unfixableLint (f : File) : Nat := count f.viols isLint true true (some false)
/-- serialised records: `get_violations(filter_warning=False)` -/
def records (f : File) : List Viol := getViolations f.viols anyType true false none

/-- `lint` exit code -/
def lintExit (fs : List File) (nofail : Bool) (skipped : Nat) (skipFail : Bool) : Nat :=
  if nofail then 0
  else max (if (fs.map numViolations).sum > 0 then 1 else 0) (if skipped > 0 && skipFail then 1 else 0)

/-- write gate of `lint_paths(fix=True, apply_fixes=True)` + `persist_tree` for one file -/
def pathWrites (fixEven : Bool) (f : File) : Bool :=
  (fixEven || unfilteredTmpPrs f == 0) &&
  decide (count f.viols anyType true false (some true) > 0) && f.changed

/-- `discard_fixes_…`: extra unfixable count contributed by one file's records
    (after the repair `fix:` commit, warning-level records are not counted) -/
def discardExtra (f : File) : Nat :=
  if unfilteredTmpPrs f > 0 then ((records f).filter (fun v => v.hasFixes && v.kind == 3 && !v.warning)).length else 0

/-- `_handle_unparsable` -/
def handleUnparsable (fixEven : Bool) (fs : List File) : Nat :=
  if fixEven then 0 else if (fs.map filteredTmpPrs).sum > 0 then 1 else 0

/-- `_paths_fix` exit (non-interactive) -/
def pathsFixExit (fixEven : Bool) (fs : List File) (skipped : Nat) (skipFail : Bool) : Nat :=
  let e := handleUnparsable fixEven fs
  let unfix := (fs.map unfixableLint).sum + (if fixEven then 0 else (fs.map discardExtra).sum)
  let e := if unfix > 0 then max e 1 else e
  if skipped > 0 && skipFail then max e 1 else e

/-- the file's violations after `discard_fixes_…` has emptied the fixes of lint violations -/
def afterDiscard (fixEven : Bool) (f : File) : File :=
  if !fixEven && unfilteredTmpPrs f > 0 then
    { f with viols := f.viols.map (fun v => if v.kind == 3 then { v with hasFixes := false } else v) }
  else f

/-- `_stdin_fix`: (does stdout differ from stdin, exit code) -/
def stdinFix (fixEven : Bool) (f : File) : Bool × Nat :=
  let templaterError := count f.viols isTmp true true none > 0
  let unfixableError := count f.viols isLint true true (some false) > 0
  let e := handleUnparsable fixEven [f]
  let f' := afterDiscard fixEven f
  let outputs := decide (count f'.viols isLint true false (some true) > 0) && f.changed   -- warnings are fixed too (repair)
  (outputs, if templaterError || unfixableError then 1 else e)

/-- `api.simple.fix` (after the repair `fix:` commit): gates on the *unfiltered* TMP/PRS count and
    returns the input when there is no tree. `some b` = output differs from input; it never raises. -/
def apiFix (fixEven : Bool) (f : File) : Option Bool :=
  let shouldFix := fixEven || unfilteredTmpPrs f == 0
  if shouldFix && f.hasTree then some f.changed else some false

/-! ### Oversized files (C34) -/

/-- byte gate of `load_raw_file_and_config`: skip iff limit set and size exceeds it -/
def byteSkip (limit size : Nat) : Bool := limit != 0 && decide (size > limit)
/-- char gate of `large_file_check` -/
def charSkip (limit len : Nat) : Bool := limit != 0 && decide (len > limit)

end SqlfluffVerif.Exit
