/-
Model of configuration layering (C27). A configuration is viewed as a finite map from key *paths*
to leaf values (the nested dicts of sqlfluff flattened); `combine` is the effect of
`nested_combine(a, b)` (core/helpers/dict.py) on that view, including its two clash cases:
  * `a` has a section where `b` has a plain value at the same path → `ValueError`
  * `a` has a plain value where `b` has a section → the value is silently replaced by the section.
Layering order (core/config/loader.py `load_config_up_to_path`, `FluffConfig.__init__`):
defaults ⊕ appdir ⊕ home ⊕ parent dirs ⊕ cwd→file dirs ⊕ extra config ⊕ overrides, then inline
`set_value` for that file only.
-/
namespace SqlfluffVerif.Config

abbrev Path := List Nat
abbrev Layer := List (Path × Nat)

def isStrictPrefix (p q : Path) : Bool := p.length < q.length && p.isPrefixOf q

/-- `b` puts a plain value where `a` has a section -/
def clash (a b : Layer) : Bool := b.any (fun pb => a.any (fun qa => isStrictPrefix pb.1 qa.1))

/-- entries of `a` that survive `b`: not redefined by `b` and not replaced by a section of `b` -/
def survives (b : Layer) (qa : Path × Nat) : Bool :=
  !(b.any (fun pb => pb.1 == qa.1 || isStrictPrefix qa.1 pb.1))

def combine (a b : Layer) : Except Unit Layer :=
  if clash a b then .error () else .ok (a.filter (survives b) ++ b)

def combineAll : List Layer → Except Unit Layer
  | [] => .ok []
  | l :: ls => ls.foldl (fun acc x => match acc with | .ok a => combine a x | .error e => .error e) (.ok l)

/-- the value at a path: the last entry defining it -/
def lookup (p : Path) (l : Layer) : Option Nat := (l.reverse.find? (fun e => e.1 == p)).map (·.2)

/-- no layer (nor the pair) uses one path both as a section and as a value -/
def prefixFree (a b : Layer) : Bool :=
  !(a.any (fun x => b.any (fun y => isStrictPrefix x.1 y.1 || isStrictPrefix y.1 x.1)))

/-- inline directive: `set_value` on the file's own config -/
def setValue (l : Layer) (p : Path) (v : Nat) : Layer := l.filter (fun e => e.1 != p) ++ [(p, v)]

end SqlfluffVerif.Config
