/-
Model of file discovery with ignore files (C25). Transcribes the semantics of
`_iter_files_in_path` / `_process_exact_path` / `paths_from_path` (core/linter/discovery.py):
a top-down walk, ignore specs found in a directory apply to that directory's subtree (inner specs),
specs from ancestor directories of the walked path always apply (outer specs), a sub-directory
matched by an applicable spec is pruned with everything below it (gitignore rule), files must have a
configured extension. `pathspec` is a parameter: `m specId relPath` says whether spec `specId`
matches the path given relative to the spec's own directory (`isDir` = the `dir/*` probe the code uses).
-/
namespace SqlfluffVerif.Discovery

abbrev Name := Nat
abbrev Path := List Name

inductive Node where
  | file (name : Name) (extOK : Bool)
  | dir (name : Name) (specs : List Nat) (children : List Node)   -- `specs`: ids of ignore files found in this dir
deriving Repr

instance : Inhabited Node := ⟨.file 0 false⟩

/-- an active spec: its id and the path from the spec's directory down to the current directory -/
structure Active where
  id : Nat
  rel : Path
deriving Repr

/-- does any active spec match `name` (file or `dir/*` probe) inside the current directory? -/
def anyMatch (m : Nat → Path → Bool → Bool) (act : List Active) (name : Name) (isDir : Bool) : Bool :=
  act.any (fun a => m a.id (a.rel ++ [name]) isDir)

def descend (act : List Active) (name : Name) : List Active := act.map (fun a => { a with rel := a.rel ++ [name] })

/-- the walk; returns the selected files as paths relative to the walked root (fuel = depth bound) -/
def walk (m : Nat → Path → Bool → Bool) : Nat → Path → List Active → List Node → List Path
  | 0, _, _, _ => []
  | f + 1, cur, act, nodes =>
    nodes.flatMap fun n =>
      match n with
      | .file name ext => if ext && !(anyMatch m act name false) then [cur ++ [name]] else []
      | .dir name specs ch =>
        if anyMatch m act name true then []
        else walk m f (cur ++ [name]) (descend act name ++ specs.map (fun s => ⟨s, []⟩)) ch

/-- entry: the walked root directory with its own specs `rootSpecs` and the outer specs already
    expressed relative to the root (`outer`: id and path from the spec's dir to the root) -/
def pathsFromDir (m : Nat → Path → Bool → Bool) (outer : List Active) (rootSpecs : List Nat) (ch : List Node) : List Path :=
  walk m 64 [] (outer ++ rootSpecs.map (fun s => ⟨s, []⟩)) ch

/-! ### Declarative statement -/

/-- `applicable` specs for an entry are those active in its directory. A file is selected iff it has
    a listed extension, no applicable spec matches it, and no directory on the way was pruned. -/
def selectedSpec (m : Nat → Path → Bool → Bool) : Nat → List Active → List Node → Path → Bool
  | 0, _, _, _ => false
  | _ + 1, _, _, [] => false
  | f + 1, act, nodes, [name] =>
    nodes.any fun n => match n with
      | .file nm ext => nm == name && ext && !(anyMatch m act name false)
      | .dir _ _ _ => false
  | f + 1, act, nodes, name :: rest =>
    nodes.any fun n => match n with
      | .file _ _ => false
      | .dir nm specs ch => nm == name && !(anyMatch m act name true) &&
          selectedSpec m f (descend act name ++ specs.map (fun s => ⟨s, []⟩)) ch rest

end SqlfluffVerif.Discovery
