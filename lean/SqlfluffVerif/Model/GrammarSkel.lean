/-
Indent accounting of a dialect grammar (C03, stage 2). A grammar is reduced to a skeleton that keeps only what can insert
Indent/Dedent metas; `vecs` computes the set of possible net indent vectors of a complete match, counting a reference to
another library entry as neutral. A vector has one component per condition: component 0 for unconditional metas,
component c for metas wrapped in `Conditional` with config rule number c (so "balanced under every configuration" is
"every component is zero").
-/
namespace SqlfluffVerif.Skel

abbrev K : Nat := 16
abbrev Vec := List Int

def zero : Vec := List.replicate K 0
def unitV (c : Nat) (v : Int) : Vec := (List.range K).map (fun i => if i == c then v else 0)
def vadd (a b : Vec) : Vec := List.zipWith (· + ·) a b

inductive Node where
  | ind (v : Int) (c : Nat)
  | leaf
  | ref
  | opt (n : Node)
  | seq (l : List Node)
  | alt (l : List Node)
  | rep (l : List Node)
deriving Repr

def insertNew (w : Vec) (l : List Vec) : List Vec := if l.contains w then l else w :: l
def union (a b : List Vec) : List Vec := a.foldr insertNew b
def sums (a b : List Vec) : List Vec := (a.flatMap (fun x => b.map (fun y => vadd x y))).foldr insertNew []

/-- possible net indent vectors of a complete match; `none` = unknown (too deep, too many, or a repeated element that
    is not neutral) -/
def vecs : Nat → Node → Option (List Vec)
  | 0, _ => none
  | _ + 1, .ind v c => some [unitV c v]
  | _ + 1, .leaf => some [zero]
  | _ + 1, .ref => some [zero]
  | f + 1, .opt n => (vecs f n).map (fun s => insertNew zero s)
  | f + 1, .seq l => l.foldr (fun n acc => match vecs f n, acc with
      | some s, some a => if (sums s a).length > 64 then none else some (sums s a)
      | _, _ => none) (some [zero])
  | f + 1, .alt l => l.foldr (fun n acc => match vecs f n, acc with
      | some s, some a => some (union s a)
      | _, _ => none) (some [])
  | f + 1, .rep l => if l.all (fun n => match vecs f n with | some s => s.all (· == zero) | none => false) then some [zero] else none

def neutral (n : Node) : Bool := match vecs 40 n with
  | some s => s.all (· == zero)
  | none => false

end SqlfluffVerif.Skel
