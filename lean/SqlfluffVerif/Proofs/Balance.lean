import SqlfluffVerif.Proofs.MatchResult
/-! Indent accounting of `MatchResult.apply` (C03). -/
namespace SqlfluffVerif.MatchResult

@[simp] theorem metaSumL_nil : metaSumL [] = 0 := rfl
@[simp] theorem metaSumL_cons (t : Tree) (ts : List Tree) : metaSumL (t :: ts) = metaSum t + metaSumL ts := rfl
@[simp] theorem metaSum_tok (i : Nat) : metaSum (Tree.tok i) = 0 := rfl
@[simp] theorem metaSum_ins (k p : Nat) : metaSum (Tree.ins k p) = kindVal k := rfl
@[simp] theorem metaSum_node (c : Nat) (ch : List Tree) : metaSum (Tree.node c ch) = metaSumL ch := rfl

@[simp] theorem metaSumL_append (a b : List Tree) : metaSumL (a ++ b) = metaSumL a + metaSumL b := by
  induction a with
  | nil => simp
  | cons t ts ih => simp [ih, Int.add_assoc]

@[simp] theorem metaSumL_toks (a b : Nat) : metaSumL (toks a b) = 0 := by
  unfold toks
  induction (List.range' a (b - a)) with
  | nil => rfl
  | cons x xs ih => simp [ih]

theorem metaSumL_map_ins (ins : List (Nat × Nat)) :
    metaSumL (ins.map (fun i => Tree.ins i.2 i.1)) = insVals ins := by
  induction ins with
  | nil => rfl
  | cons x xs ih => simp [insVals] at ih ⊢; rw [ih]

def trigSum (t : Nat × Trig) : Int :=
  match t.2 with
  | .ins k => kindVal k
  | .child _ trees => metaSumL trees

def trigsSum (l : List (Nat × Trig)) : Int := (l.map trigSum).sum

theorem trigsSum_insert (x : Nat × Trig) (l : List (Nat × Trig)) :
    trigsSum (insertByKey x l) = trigSum x + trigsSum l := by
  induction l with
  | nil => simp [insertByKey, trigsSum]
  | cons y ys ih =>
    simp only [insertByKey]
    split
    · simp [trigsSum]
    · simp only [trigsSum, List.map_cons, List.sum_cons] at ih ⊢
      rw [ih]; omega

theorem trigsSum_sort (l : List (Nat × Trig)) : trigsSum (sortByKey l) = trigsSum l := by
  induction l with
  | nil => rfl
  | cons x xs ih =>
    simp only [sortByKey, List.foldr_cons] at ih ⊢
    rw [trigsSum_insert, ih]; simp [trigsSum]

theorem trigsSum_append (a b : List (Nat × Trig)) : trigsSum (a ++ b) = trigsSum a + trigsSum b := by
  simp [trigsSum, List.sum_append]

theorem trigsSum_insTrigs (ins : List (Nat × Nat)) : trigsSum (insTrigs ins) = insVals ins := by
  simp [trigsSum, insTrigs, insVals, List.map_map, Function.comp_def, trigSum]

theorem runTriggers_sum (n stop : Nat) (trigs : List (Nat × Trig)) :
    ∀ (mx : Nat) (cur : Option Nat) (acc res : List Tree),
      runTriggers n stop mx cur trigs acc = .ok res →
      metaSumL res = metaSumL acc + trigsSum trigs := by
  induction trigs with
  | nil =>
    intro mx cur acc res h
    simp only [runTriggers] at h
    split at h <;> (cases h; simp [trigsSum])
  | cons t rest ih =>
    intro mx cur acc res h
    obtain ⟨idx, tr⟩ := t
    have key : ∀ (mx' : Nat) (acc' : List Tree), metaSumL acc' = metaSumL acc →
        (match tr with
          | .ins k => if idx > n then Except.error Err.outOfBounds
                      else runTriggers n stop mx' (some idx) rest (acc' ++ [Tree.ins k idx])
          | .child cstop trees => runTriggers n stop cstop (some idx) rest (acc' ++ trees)) = .ok res →
        metaSumL res = metaSumL acc + trigsSum ((idx, tr) :: rest) := by
      intro mx' acc' hacc' hr
      cases tr with
      | ins k =>
        simp only at hr
        split at hr
        · cases hr
        · have := ih _ _ _ _ hr
          rw [this]; simp [hacc', trigsSum, trigSum]; omega
      | child cstop trees =>
        simp only at hr
        have := ih _ _ _ _ hr
        rw [this]; simp [hacc', trigsSum, trigSum]; omega
    simp only [runTriggers] at h
    split at h
    · exact key mx acc rfl h
    · split at h
      · exact key idx (acc ++ toks mx idx) (by simp) h
      · split at h
        · cases h
        · exact key mx acc rfl h

theorem mapTrigs_sum (g : MR → Except Err (List Tree)) (val : MR → Int) (ch : List MR)
    (h : ∀ c ∈ ch, ∀ ts, g c = .ok ts → metaSumL ts = val c) :
    ∀ r, mapTrigs g ch = .ok r → trigsSum r = (ch.map val).sum := by
  induction ch with
  | nil => intro r hr; simp [mapTrigs] at hr; subst hr; rfl
  | cons c cs ih =>
    intro r hr
    simp only [mapTrigs] at hr
    split at hr
    · cases hr
    · rename_i ts hts
      split at hr
      · cases hr
      · rename_i r' hr'
        cases hr
        have h1 := h c (by simp) ts hts
        have h2 := ih (fun c' hc' => h c' (List.mem_cons_of_mem _ hc')) r' hr'
        simp [trigsSum, trigSum] at h2 ⊢
        rw [h1, h2]

end SqlfluffVerif.MatchResult
