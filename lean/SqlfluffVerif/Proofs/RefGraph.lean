import SqlfluffVerif.Model.RefGraph
namespace SqlfluffVerif.RefGraph

theorem closedRows_append (n : Nat) (known : List Nat) (a b : List (List Nat)) :
    closedRows n known (a ++ b) = (closedRows n known a && closedRows n known b) := by
  simp [closedRows, List.all_append]

theorem closedRows_nil (n : Nat) (known : List Nat) : closedRows n known [] = true := by
  simp [closedRows]

/-- If every row is closed (targets defined or listed), every reference reachable from the root
    resolves to a defined element or is a listed finding. -/
theorem closed_reach (adj : List (List Nat)) (n : Nat) (known : List Nat)
    (hn : 0 < n) (hc : closedRows n known adj = true) :
    ∀ k, Reach adj k → k < n ∨ k ∈ known := by
  intro k hk
  induction hk with
  | root => exact Or.inl hn
  | step i j _ hj _ =>
    have hrow : adj.getD i [] ∈ adj ∨ adj.getD i [] = [] := by
      rw [List.getD_eq_getElem?_getD]
      cases h : adj[i]? with
      | none => right; rfl
      | some r => left; exact List.mem_of_getElem? h
    rcases hrow with h | h
    · have := (List.all_eq_true.mp hc) _ h
      have := (List.all_eq_true.mp this) j hj
      simp only [okTarget, Bool.or_eq_true, decide_eq_true_eq] at this
      rcases this with h' | h'
      · exact Or.inl h'
      · exact Or.inr (List.contains_iff_mem.mp h')
    · rw [h] at hj; simp at hj

end SqlfluffVerif.RefGraph
