import SqlfluffVerif.Model.Placeholder
/-! Helper lemmas for C07/C09 (placeholder templater). -/
namespace SqlfluffVerif.Placeholder
open SqlfluffVerif.Slices

theorem sliceOf_length (s : Str) (a b : Nat) (h1 : a ≤ b) (h2 : b ≤ s.length) : (sliceOf s a b).length = b - a := by
  simp [sliceOf]; omega

theorem sliceOf_append_left (s x : Str) (a b : Nat) (hb : b ≤ s.length) :
    sliceOf (s ++ x) a b = sliceOf s a b := by
  unfold sliceOf
  by_cases ha : a ≤ s.length
  · rw [List.drop_append_of_le_length ha, List.take_append_of_le_length (by simp; omega)]
  · have h1 : b - a = 0 := by omega
    simp [h1]

theorem sliceOf_at_end (s x y : Str) : sliceOf (s ++ x ++ y) s.length (s.length + x.length) = x := by
  unfold sliceOf
  rw [List.append_assoc, List.drop_left]
  simp

def rawEnd (src : Str) : Nat → List RSlice → Option Nat
  | pos, [] => some pos
  | pos, r :: rs =>
    if r.idx == pos && sliceOf src pos (pos + r.raw.length) == r.raw then rawEnd src (pos + r.raw.length) rs else none

theorem rawTiles_iff (src : Str) (pos : Nat) (rs : List RSlice) :
    rawTiles src pos rs = (rawEnd src pos rs == some src.length) := by
  induction rs generalizing pos with
  | nil => simp [rawTiles, rawEnd]
  | cons r rs ih =>
    simp only [rawTiles, rawEnd]
    by_cases h : (r.idx == pos && sliceOf src pos (pos + r.raw.length) == r.raw) = true
    · simp only [h, if_true]; rw [← ih]
      simp only [Bool.and_eq_true] at h; simp [h.1, h.2]
    · have hf : (r.idx == pos && sliceOf src pos (pos + r.raw.length) == r.raw) = false := by
        cases hh : (r.idx == pos && sliceOf src pos (pos + r.raw.length) == r.raw) <;> simp_all
      simp only [hf, Bool.false_eq_true, if_false]
      simp

theorem rawEnd_append (src : Str) (pos : Nat) (a b : List RSlice) :
    rawEnd src pos (a ++ b) = (rawEnd src pos a).bind (fun p => rawEnd src p b) := by
  induction a generalizing pos with
  | nil => simp [rawEnd]
  | cons r rs ih =>
    simp only [List.cons_append, rawEnd]
    split
    · exact ih _
    · rfl

def tmplEnd : Nat → List TSlice → Option Nat
  | pos, [] => some pos
  | pos, t :: ts => if t.ts == pos && decide (t.ts ≤ t.te) then tmplEnd t.te ts else none

theorem tmplTiles_iff (n pos : Nat) (sl : List TSlice) :
    tmplTiles n pos sl = (tmplEnd pos sl == some n) := by
  induction sl generalizing pos with
  | nil => simp [tmplTiles, tmplEnd]
  | cons t ts ih =>
    simp only [tmplTiles, tmplEnd]
    by_cases h : (t.ts == pos && decide (t.ts ≤ t.te)) = true
    · simp only [h, if_true]; rw [← ih]; simp only [Bool.and_eq_true] at h; simp [h.1, h.2]
    · have hf : (t.ts == pos && decide (t.ts ≤ t.te)) = false := by
        cases hh : (t.ts == pos && decide (t.ts ≤ t.te)) <;> simp_all
      simp only [hf, Bool.false_eq_true, if_false]
      cases h1 : (t.ts == pos) <;> simp_all

theorem tmplEnd_append (pos : Nat) (a b : List TSlice) :
    tmplEnd pos (a ++ b) = (tmplEnd pos a).bind (fun p => tmplEnd p b) := by
  induction a generalizing pos with
  | nil => simp [tmplEnd]
  | cons t ts ih =>
    simp only [List.cons_append, tmplEnd]
    split
    · exact ih _
    · rfl

/-- the loop invariant of `process` -/
structure Inv (src : Str) (st : St) : Prop where
  le : st.lastRaw ≤ src.length
  outLen : st.out.length = st.lastT
  raws : rawEnd src 0 st.raws = some st.lastRaw
  tiles : tmplEnd 0 st.slices = some st.lastT
  bounds : ∀ t ∈ st.slices, t.ss ≤ t.se ∧ t.se ≤ src.length
  lits : ∀ t ∈ st.slices, t.ty = 0 → t.te ≤ st.out.length ∧ t.se - t.ss = t.te - t.ts ∧
          sliceOf src t.ss t.se = sliceOf st.out t.ts t.te

theorem inv_init (src : Str) : Inv src {} :=
  ⟨Nat.zero_le _, rfl, rfl, rfl, by intro t ht; simp at ht, by intro t ht; simp at ht⟩

theorem inv_step (src : Str) (ctx : List (Str × Str)) (st : St) (f : Found)
    (h : Inv src st) (h1 : st.lastRaw ≤ f.a) (h2 : f.a ≤ f.b) (h3 : f.b ≤ src.length) :
    Inv src (step src ctx st f) := by
  obtain ⟨hle, hout, hraws, htiles, hb, hl⟩ := h
  have hlit : (sliceOf src st.lastRaw f.a).length = f.a - st.lastRaw := sliceOf_length _ _ _ h1 (by omega)
  have hpar : (sliceOf src f.a f.b).length = f.b - f.a := sliceOf_length _ _ _ h2 h3
  unfold step
  simp only
  generalize hrep : replacement ctx f st.counter = rc
  obtain ⟨rep, c'⟩ := rc
  simp only
  refine ⟨h3, ?_, ?_, ?_, ?_, ?_⟩
  · simp [hlit, hout]; omega
  · rw [rawEnd_append, hraws]
    simp only [Option.bind, rawEnd, hlit, hpar, beq_self_eq_true, Bool.true_and]
    have e1 : st.lastRaw + (f.a - st.lastRaw) = f.a := by omega
    have e2 : f.a + (f.b - f.a) = f.b := by omega
    simp [e1, e2]
  · rw [tmplEnd_append, htiles]
    simp [Option.bind, tmplEnd]
  · intro t ht
    rcases List.mem_append.mp ht with h' | h'
    · exact hb t h'
    · simp at h'
      rcases h' with rfl | rfl <;> (simp only; omega)
  · intro t ht hty
    rcases List.mem_append.mp ht with h' | h'
    · obtain ⟨q1, q2, q3⟩ := hl t h' hty
      refine ⟨by simp; omega, q2, ?_⟩
      rw [q3, List.append_assoc, sliceOf_append_left _ _ _ _ q1]
    · simp at h'
      rcases h' with rfl | rfl
      · refine ⟨by simp [hlit, hout], by simp only; omega, ?_⟩
        simp only
        have := sliceOf_at_end st.out (sliceOf src st.lastRaw f.a) rep
        rw [hout, hlit] at this
        rw [this]
      · simp at hty

theorem inv_fold (src : Str) (ctx : List (Str × Str)) :
    ∀ (ms : List Found) (st : St), Inv src st → spansOK src.length st.lastRaw ms = true →
      Inv src (ms.foldl (step src ctx) st) ∧ True := by
  intro ms
  induction ms with
  | nil => intro st h _; exact ⟨h, trivial⟩
  | cons f fs ih =>
    intro st h hs
    simp only [spansOK, Bool.and_eq_true, decide_eq_true_eq] at hs
    obtain ⟨⟨⟨s1, s2⟩, s3⟩, s4⟩ := hs
    have hstep := inv_step src ctx st f h s1 s2 s3
    have hlast : (step src ctx st f).lastRaw = f.b := by
      unfold step; simp only
    exact ih _ hstep (by rw [hlast]; exact s4)

end SqlfluffVerif.Placeholder
