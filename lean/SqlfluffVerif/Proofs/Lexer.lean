import SqlfluffVerif.Model.Lexer
/-! Helper lemmas for C01/C12 (core Lean only). -/
namespace SqlfluffVerif.Lexer

def cat (es : List Elem) : Str := (es.map (·.raw)).flatten

@[simp] theorem cat_nil : cat [] = [] := rfl
@[simp] theorem cat_append (a b : List Elem) : cat (a ++ b) = cat a ++ cat b := by
  simp [cat, List.map_append, List.flatten_append]
@[simp] theorem cat_single (e : Elem) : cat [e] = e.raw := by simp [cat]
@[simp] theorem cat_cons (e : Elem) (es : List Elem) : cat (e :: es) = e.raw ++ cat es := by simp [cat]

theorem okSpan_some {s : Str} {r : Option (Nat × Nat)} {a b : Nat} (h : okSpan s r = some (a, b)) :
    a < b ∧ b ≤ s.length := by
  unfold okSpan at h
  split at h
  · split at h
    · rename_i hc; cases h; exact hc
    · cases h
  · cases h

/-- After a match in the middle of the string, the next search does not start at position 0
    (true of maximal-run patterns such as `[^\S\r\n]+`; forced by the proof, see DESIGN C01). -/
def NoStartAfterMid (t : Searcher) : Prop :=
  ∀ (s : Str) (a b : Nat), okSpan s (t.search s) = some (a, b) → 0 < a → b < s.length →
    ∀ a' b', okSpan (s.drop b) (t.search (s.drop b)) = some (a', b') → 0 < a'

theorem take_drop_take (s : Str) (a b : Nat) (h : a ≤ b) :
    s.take a ++ (s.drop a).take (b - a) = s.take b := by
  have : s.take b = (s.take b).take a ++ (s.take b).drop a := (List.take_append_drop a _).symm
  rw [this, List.take_take, Nat.min_eq_left h, List.drop_take]

theorem trimLoop_cat (self : Nat) (t : Searcher) (ht : NoStartAfterMid t) :
    ∀ (fuel : Nat) (content str : Str) (acc : List Elem),
      (content = [] ∨ ∀ a' b', okSpan str (t.search str) = some (a', b') → 0 < a') →
      cat (trimLoop self t fuel content str acc) = cat acc ++ content ++ str := by
  intro fuel
  induction fuel with
  | zero =>
    intro content str acc _
    simp only [trimLoop]
    split
    · rename_i h
      have : content ++ str = [] := by simpa using h
      simp [List.append_assoc, this]
    · simp [List.append_assoc]
  | succ fuel ih =>
    intro content str acc hinv
    simp only [trimLoop]
    by_cases hs : str.isEmpty = true
    · have : str = [] := by simpa using hs
      subst this
      simp only [List.isEmpty_nil, if_true]
      split
      · rename_i hc; have : content = [] := by simpa using hc
        simp [this]
      · simp
    · simp only [hs, Bool.false_eq_true, if_false]
      split
      · simp [List.append_assoc]
      · rename_i a b hsp
        obtain ⟨hab, hb⟩ := okSpan_some hsp
        by_cases ha : a = 0
        · subst ha
          simp only [if_true]
          have hc : content = [] := by
            rcases hinv with h | h
            · exact h
            · exact absurd (h 0 b hsp) (by omega)
          subst hc
          rw [ih [] (str.drop b) _ (Or.inl rfl)]
          simp [List.append_assoc]
        · simp only [ha, if_false]
          by_cases hbe : b = str.length
          · simp only [hbe, if_true]
            have h1 : str.take a ++ (str.drop a).take (str.length - a) = str := by
              rw [take_drop_take str a str.length (by omega)]; simp
            simp only [cat_append, cat_cons, cat_nil, List.append_nil, List.append_assoc]
            rw [h1]
          · simp only [hbe, if_false]
            rw [ih (content ++ str.take b) (str.drop b) acc
              (Or.inr (fun a' b' h' => ht str a b hsp (by omega) (by omega) a' b' h'))]
            simp [List.append_assoc]

def TrimOK (m : Matcher) : Prop :=
  match m.trim with
  | none => True
  | some t => NoStartAfterMid t

theorem trimMatch_cat (m : Matcher) (hm : TrimOK m) (s : Str) : cat (trimMatch m s) = s := by
  unfold trimMatch
  unfold TrimOK at hm
  cases ht : m.trim with
  | none =>
    simp only
    split
    · rename_i h; have : s = [] := by simpa using h
      simp [this]
    · simp
  | some t =>
    rw [ht] at hm
    simp only
    rw [trimLoop_cat m.name t hm _ [] s [] (Or.inl rfl)]; simp

theorem subLoop_cat (m : Matcher) (hm : TrimOK m) (d : Searcher) :
    ∀ (fuel : Nat) (str : Str) (acc : List Elem), str.length < fuel →
      cat (subLoop m d fuel str acc) = cat acc ++ str := by
  intro fuel
  induction fuel with
  | zero => intro str acc h; omega
  | succ fuel ih =>
    intro str acc hf
    simp only [subLoop]
    by_cases hs : str.isEmpty = true
    · have : str = [] := by simpa using hs
      simp [this]
    · simp only [hs, Bool.false_eq_true, if_false]
      split
      · rename_i a b hsp
        obtain ⟨hab, hb⟩ := okSpan_some hsp
        rw [ih (str.drop b) _ (by simp; omega)]
        simp only [cat_append, cat_single, trimMatch_cat m hm, List.append_assoc]
        congr 1
        rw [← List.append_assoc, take_drop_take str a b (by omega), List.take_append_drop]
      · simp [trimMatch_cat m hm]

theorem subdivide_cat (m : Matcher) (hm : TrimOK m) (raw : Str) : cat (subdivide m raw) = raw := by
  unfold subdivide
  cases m.sub with
  | none => simp
  | some d => simp only; rw [subLoop_cat m hm d _ raw [] (by omega)]; simp

theorem matchOne_cat (m : Matcher) (hm : TrimOK m) (s : Str) (es : List Elem) (k : Nat)
    (h : matchOne m s = some (es, k)) : cat es = s.take k ∧ 0 < k ∧ k ≤ s.length := by
  unfold matchOne at h
  split at h
  · split at h
    · rename_i hk; cases h; exact ⟨subdivide_cat m hm _, hk⟩
    · cases h
  · cases h

theorem firstMatch_cat (ms : List Matcher) (hms : ∀ m ∈ ms, TrimOK m) (s : Str) (es : List Elem) (k : Nat)
    (h : firstMatch ms s = some (es, k)) : cat es = s.take k ∧ 0 < k ∧ k ≤ s.length := by
  unfold firstMatch at h
  obtain ⟨m, hm, hx⟩ := List.exists_of_findSome?_eq_some h
  split at hx
  · rename_i es' k' hmo
    split at hx
    · cases hx
    · cases hx; exact matchOne_cat m (hms m hm) s es k hmo
  · cases hx

theorem lexMatch_cat (ms : List Matcher) (hms : ∀ m ∈ ms, TrimOK m) :
    ∀ (fuel : Nat) (s : Str) (acc : List Elem),
      cat (lexMatch ms fuel s acc).2 ++ (lexMatch ms fuel s acc).1 = cat acc ++ s := by
  intro fuel
  induction fuel with
  | zero => intro s acc; simp [lexMatch]
  | succ fuel ih =>
    intro s acc
    simp only [lexMatch]
    split
    · simp
    · split
      · rename_i es k hfm
        obtain ⟨h1, _, _⟩ := firstMatch_cat ms hms s es k hfm
        rw [ih]; simp [h1, List.append_assoc]
      · simp

theorem lexMatch_len (ms : List Matcher) (hms : ∀ m ∈ ms, TrimOK m) :
    ∀ (fuel : Nat) (s : Str) (acc : List Elem), (lexMatch ms fuel s acc).1.length ≤ s.length := by
  intro fuel
  induction fuel with
  | zero => intro s acc; simp [lexMatch]
  | succ fuel ih =>
    intro s acc
    simp only [lexMatch]
    split
    · simp
    · split
      · rename_i es k hfm
        have := ih (s.drop k) (acc ++ es)
        simp at this ⊢; omega
      · simp

/-- with enough fuel `lex_match` stops only at the end of input or where no matcher applies -/
theorem lexMatch_stop (ms : List Matcher) (hms : ∀ m ∈ ms, TrimOK m) :
    ∀ (fuel : Nat) (s : Str) (acc : List Elem), s.length < fuel →
      (lexMatch ms fuel s acc).1 = [] ∨ firstMatch ms (lexMatch ms fuel s acc).1 = none := by
  intro fuel
  induction fuel with
  | zero => intro s acc h; omega
  | succ fuel ih =>
    intro s acc hf
    simp only [lexMatch]
    split
    · rename_i h; left; simpa using h
    · split
      · rename_i es k hfm
        obtain ⟨_, hk, hkl⟩ := firstMatch_cat ms hms s es k hfm
        exact ih (s.drop k) _ (by simp; omega)
      · rename_i hfm; right; exact hfm

theorem lexLoop_cat (ms : List Matcher) (lr : Matcher) (hms : ∀ m ∈ ms, TrimOK m) (hlr : TrimOK lr) :
    ∀ (fuel : Nat) (s : Str) (acc es : List Elem),
      lexLoop ms lr fuel s acc = .ok es → cat es = cat acc ++ s := by
  intro fuel
  induction fuel with
  | zero => intro s acc es h; simp [lexLoop] at h
  | succ fuel ih =>
    intro s acc es h
    simp only [lexLoop] at h
    have hcat := lexMatch_cat ms hms (s.length + 1) s []
    split at h
    · rename_i hemp
      have : (lexMatch ms (s.length + 1) s []).1 = [] := by simpa using hemp
      cases h
      rw [this] at hcat
      simp at hcat ⊢; rw [hcat]
    · split at h
      · rename_i es' k hmo
        split at h
        · cases h
        · obtain ⟨h1, _, _⟩ := matchOne_cat lr hlr _ es' k hmo
          have := ih _ _ _ h
          rw [this]
          simp only [cat_append, List.append_assoc, h1]
          simp only [cat_nil, List.nil_append] at hcat
          rw [List.take_append_drop, hcat]
      · cases h

end SqlfluffVerif.Lexer
