import SqlfluffVerif.Model.GrammarSkel
/-! Soundness of the indent-vector analysis `vecs` with respect to derivations of complete matches. -/
namespace SqlfluffVerif.Skel

/-- net indent vector of a complete match of a skeleton; `R` describes what a referenced library entry can contribute -/
inductive D (R : Vec → Prop) : Node → Vec → Prop
  | ind (v : Int) (c : Nat) : D R (.ind v c) (unitV c v)
  | leaf : D R .leaf zero
  | ref (w : Vec) : R w → D R .ref w
  | optNone (n : Node) : D R (.opt n) zero
  | optSome (n : Node) (w : Vec) : D R n w → D R (.opt n) w
  | seqNil : D R (.seq []) zero
  | seqCons (n : Node) (l : List Node) (w1 w2 : Vec) : D R n w1 → D R (.seq l) w2 → D R (.seq (n :: l)) (vadd w1 w2)
  | alt (l : List Node) (n : Node) (w : Vec) : n ∈ l → D R n w → D R (.alt l) w
  | repNil (l : List Node) : D R (.rep l) zero
  | repMore (l : List Node) (n : Node) (w1 w2 : Vec) : n ∈ l → D R n w1 → D R (.rep l) w2 → D R (.rep l) (vadd w1 w2)

theorem mem_insertNew (w x : Vec) (l : List Vec) : x ∈ insertNew w l ↔ x = w ∨ x ∈ l := by
  unfold insertNew
  by_cases h : l.contains w = true
  · simp only [h, if_true]
    constructor
    · intro hx; exact Or.inr hx
    · rintro (rfl | hx)
      · simpa using h
      · exact hx
  · simp only [h, Bool.false_eq_true, if_false, List.mem_cons]

theorem mem_foldr_insertNew (a b : List Vec) (x : Vec) : x ∈ a.foldr insertNew b ↔ x ∈ a ∨ x ∈ b := by
  induction a with
  | nil => simp
  | cons y ys ih =>
    simp only [List.foldr_cons, mem_insertNew, ih, List.mem_cons]
    constructor
    · rintro (h | h | h)
      · exact Or.inl (Or.inl h)
      · exact Or.inl (Or.inr h)
      · exact Or.inr h
    · rintro ((h | h) | h)
      · exact Or.inl h
      · exact Or.inr (Or.inl h)
      · exact Or.inr (Or.inr h)

theorem mem_union (a b : List Vec) (x : Vec) : x ∈ union a b ↔ x ∈ a ∨ x ∈ b := mem_foldr_insertNew a b x

theorem mem_sums (a b : List Vec) (x y : Vec) (hx : x ∈ a) (hy : y ∈ b) : vadd x y ∈ sums a b := by
  unfold sums
  rw [mem_foldr_insertNew]
  left
  rw [List.mem_flatMap]
  exact ⟨x, hx, List.mem_map.mpr ⟨y, hy, rfl⟩⟩

theorem vadd_zero_zero : vadd zero zero = zero := by decide

theorem all_zero_mem (s : List Vec) (h : s.all (· == zero) = true) (w : Vec) (hw : w ∈ s) : w = zero := by
  have := List.all_eq_true.mp h w hw
  simpa using this

/-- unfolding of `vecs` on a sequence -/
theorem vecs_seq_cons (f : Nat) (n : Node) (l : List Node) :
    vecs (f + 1) (.seq (n :: l)) = (match vecs f n, vecs (f + 1) (.seq l) with
      | some s, some a => if (sums s a).length > 64 then none else some (sums s a)
      | _, _ => none) := by
  rfl

theorem vecs_alt_cons (f : Nat) (n : Node) (l : List Node) :
    vecs (f + 1) (.alt (n :: l)) = (match vecs f n, vecs (f + 1) (.alt l) with
      | some s, some a => some (union s a)
      | _, _ => none) := by
  rfl

theorem alt_mem (f : Nat) : ∀ (l : List Node) (S : List Vec), vecs (f + 1) (.alt l) = some S →
    ∀ n ∈ l, ∃ s, vecs f n = some s ∧ ∀ w ∈ s, w ∈ S := by
  intro l
  induction l with
  | nil => intro S _ n hn; simp at hn
  | cons m ms ih =>
    intro S hS n hn
    rw [vecs_alt_cons] at hS
    cases hm : vecs f m with
    | none => simp [hm] at hS
    | some s =>
      cases ha : vecs (f + 1) (.alt ms) with
      | none => simp [hm, ha] at hS
      | some a =>
        simp only [hm, ha, Option.some.injEq] at hS
        subst hS
        rcases List.mem_cons.mp hn with rfl | hn'
        · exact ⟨s, hm, fun w hw => (mem_union s a w).mpr (Or.inl hw)⟩
        · obtain ⟨s', h1, h2⟩ := ih a ha n hn'
          exact ⟨s', h1, fun w hw => (mem_union s a w).mpr (Or.inr (h2 w hw))⟩

/-- **Local soundness**: if referenced entries are neutral, every derivable vector is in the computed set. -/
theorem vecs_sound (R : Vec → Prop) (hR : ∀ w, R w → w = zero) :
    ∀ (n : Node) (w : Vec), D R n w → ∀ (f : Nat) (S : List Vec), vecs f n = some S → w ∈ S := by
  intro n w h
  induction h with
  | ind v c =>
    intro f S hS
    cases f with
    | zero => simp [vecs] at hS
    | succ f => simp [vecs] at hS; subst hS; simp
  | leaf =>
    intro f S hS
    cases f with
    | zero => simp [vecs] at hS
    | succ f => simp [vecs] at hS; subst hS; simp
  | ref w hw =>
    intro f S hS
    cases f with
    | zero => simp [vecs] at hS
    | succ f => simp [vecs] at hS; subst hS; simp [hR w hw]
  | optNone n =>
    intro f S hS
    cases f with
    | zero => simp [vecs] at hS
    | succ f =>
      simp only [vecs, Option.map_eq_some_iff] at hS
      obtain ⟨s, _, rfl⟩ := hS
      exact (mem_insertNew zero zero s).mpr (Or.inl rfl)
  | optSome n w _ ih =>
    intro f S hS
    cases f with
    | zero => simp [vecs] at hS
    | succ f =>
      simp only [vecs, Option.map_eq_some_iff] at hS
      obtain ⟨s, hs, rfl⟩ := hS
      exact (mem_insertNew zero w s).mpr (Or.inr (ih f s hs))
  | seqNil =>
    intro f S hS
    cases f with
    | zero => simp [vecs] at hS
    | succ f => simp [vecs] at hS; subst hS; simp
  | seqCons n l w1 w2 _ _ ih1 ih2 =>
    intro f S hS
    cases f with
    | zero => simp [vecs] at hS
    | succ f =>
      rw [vecs_seq_cons] at hS
      cases hn : vecs f n with
      | none => simp [hn] at hS
      | some s =>
        cases hl : vecs (f + 1) (.seq l) with
        | none => simp [hn, hl] at hS
        | some a =>
          simp only [hn, hl] at hS
          split at hS
          · simp at hS
          · simp only [Option.some.injEq] at hS
            subst hS
            exact mem_sums s a w1 w2 (ih1 f s hn) (ih2 (f + 1) a hl)
  | alt l n w hmem _ ih =>
    intro f S hS
    cases f with
    | zero => simp [vecs] at hS
    | succ f =>
      obtain ⟨s, h1, h2⟩ := alt_mem f l S hS n hmem
      exact h2 w (ih f s h1)
  | repNil l =>
    intro f S hS
    cases f with
    | zero => simp [vecs] at hS
    | succ f =>
      simp only [vecs] at hS
      split at hS
      · simp at hS; subst hS; simp
      · simp at hS
  | repMore l n w1 w2 hmem _ _ ih1 ih2 =>
    intro f S hS
    cases f with
    | zero => simp [vecs] at hS
    | succ f =>
      have hS' := hS
      simp only [vecs] at hS
      split at hS
      · rename_i hall
        simp at hS; subst hS
        have hn := List.all_eq_true.mp hall n hmem
        cases hv : vecs f n with
        | none => simp [hv] at hn
        | some s =>
          simp only [hv] at hn
          have e1 : w1 = zero := all_zero_mem s hn w1 (ih1 f s hv)
          have e2 : w2 = zero := by
            have := ih2 (f + 1) [zero] hS'
            simpa using this
          subst e1; subst e2
          simp [vadd_zero_zero]
      · simp at hS

end SqlfluffVerif.Skel
