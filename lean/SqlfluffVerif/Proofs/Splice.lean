import SqlfluffVerif.Proofs.Patch
/-! Where untouched source text ends up after `spliceAll` (used by C10 and C11). -/
namespace SqlfluffVerif.Patch

/-- output position (in `spliceAll src idx ps`) of source position `i ≥ idx`; a patch starting at or before `i`
    is counted as lying before it -/
def mapPos (idx : Nat) : List Patch → Nat → Nat
  | [], i => i - idx
  | p :: ps, i => if i < p.start then i - idx else (p.start - idx) + p.raw.length + mapPos p.stop ps i

theorem sliceOf_drop (src : Str) (idx a b : Nat) (h : idx ≤ a) :
    sliceOf (src.drop idx) (a - idx) (a - idx + (b - a)) = sliceOf src a b := by
  unfold sliceOf
  rw [List.drop_drop]
  have : idx + (a - idx) = a := by omega
  rw [this]
  congr 1; omega

theorem sliceOf_len_le (src : Str) (a b : Nat) (hab : a ≤ b) (hb : b ≤ src.length) : (sliceOf src a b).length = b - a := by
  simp [sliceOf]; omega

theorem sliceOf_app_left (x y : Str) (a b : Nat) (hb : b ≤ x.length) : sliceOf (x ++ y) a b = sliceOf x a b := by
  unfold sliceOf
  by_cases ha : a ≤ x.length
  · rw [List.drop_append_of_le_length ha, List.take_append_of_le_length (by simp; omega)]
  · have : b - a = 0 := by omega
    simp [this]

theorem sliceOf_app_right (x y : Str) (a b : Nat) : sliceOf (x ++ y) (x.length + a) (x.length + a + b) = sliceOf y a (a + b) := by
  unfold sliceOf
  have h1 : (x ++ y).drop (x.length + a) = y.drop a := by
    rw [← List.drop_drop, List.drop_left]
  rw [h1]
  congr 1; omega

theorem sliceOf_sliceOf (src : Str) (i a b c : Nat) (h1 : i ≤ a) (h3 : b ≤ c) :
    sliceOf (sliceOf src i c) (a - i) (a - i + (b - a)) = sliceOf src a b := by
  unfold sliceOf
  rw [List.drop_take, List.drop_drop, List.take_take]
  have e1 : i + (a - i) = a := by omega
  rw [e1]
  congr 1
  omega

/-- a source range `[ta, tb)` that no patch touches is copied verbatim, at `mapPos ta` -/
theorem splice_keeps_range (src : Str) (ta tb : Nat) (hab : ta ≤ tb) (hn : tb ≤ src.length) :
    ∀ (ps : List Patch) (idx : Nat), Chain idx ps → idx ≤ ta →
      (∀ p ∈ ps, p.stop ≤ ta ∨ tb ≤ p.start) →
      sliceOf (spliceAll src idx ps) (mapPos idx ps ta) (mapPos idx ps ta + (tb - ta)) = sliceOf src ta tb := by
  intro ps
  induction ps with
  | nil =>
    intro idx _ hi _
    simp only [spliceAll, mapPos]
    exact sliceOf_drop src idx ta tb hi
  | cons p ps ih =>
    intro idx hc hi hu
    simp only [Chain] at hc
    obtain ⟨c1, c2, c3⟩ := hc
    by_cases hE : ta = tb
    · subst hE; simp [sliceOf]
    have hlt : ta < tb := by omega
    simp only [spliceAll, mapPos]
    rcases hu p (by simp) with h | h
    · -- patch entirely before the range
      have hnot : ¬ ta < p.start := by omega
      simp only [hnot, if_false]
      have hps : p.start ≤ src.length := by omega
      have hA : (sliceOf src idx p.start).length = p.start - idx := sliceOf_len_le src idx p.start c1 hps
      have := ih p.stop c3 h (fun q hq => hu q (by simp [hq]))
      rw [List.append_assoc]
      have e : p.start - idx + p.raw.length + mapPos p.stop ps ta
          = (sliceOf src idx p.start).length + (p.raw.length + mapPos p.stop ps ta) := by rw [hA]; omega
      rw [e, sliceOf_app_right]
      have := sliceOf_app_right p.raw (spliceAll src p.stop ps) (mapPos p.stop ps ta) (tb - ta)
      rw [this]
      exact ih p.stop c3 h (fun q hq => hu q (by simp [hq]))
    · -- patch entirely after the range
      have hl : ta < p.start := by omega
      simp only [hl, if_true]
      rw [List.append_assoc]
      have hlen : ta - idx + (tb - ta) ≤ (sliceOf src idx p.start).length := by
        simp [sliceOf]; omega
      rw [sliceOf_app_left _ _ _ _ hlen]
      exact sliceOf_sliceOf src idx ta tb p.start hi h

/-- untouched ranges keep their order: a range that ends before another begins also does so in the output -/
theorem mapPos_order (a1 b1 a2 : Nat) (h12 : a1 ≤ b1) (hb : b1 ≤ a2) :
    ∀ (ps : List Patch) (idx : Nat), Chain idx ps → idx ≤ a1 →
      (∀ p ∈ ps, p.stop ≤ a1 ∨ b1 ≤ p.start) →
      mapPos idx ps a1 + (b1 - a1) ≤ mapPos idx ps a2 := by
  intro ps
  induction ps with
  | nil => intro idx _ hi _; simp only [mapPos]; omega
  | cons p ps ih =>
    intro idx hc hi hu
    simp only [Chain] at hc
    obtain ⟨c1, c2, c3⟩ := hc
    simp only [mapPos]
    by_cases hE : a1 = b1
    · -- empty range: plain monotonicity
      subst hE
      rcases hu p (by simp) with h | h
      · have hnot : ¬ a1 < p.start := by omega
        have hnot2 : ¬ a2 < p.start := by omega
        simp only [hnot, hnot2, if_false]
        have := ih p.stop c3 h (fun q hq => hu q (by simp [hq]))
        omega
      · by_cases hx : a1 < p.start
        · simp only [hx, if_true]
          by_cases hy : a2 < p.start
          · simp only [hy, if_true]; omega
          · simp only [hy, if_false]; omega
        · have : a1 = p.start := by omega
          have hnot2 : ¬ a2 < p.start := by omega
          simp only [hx, hnot2, if_false]
          -- both after the patch start; need the tail to be monotone from p.stop, but a1 < p.stop may hold:
          -- the tail's map is i - p.stop saturating, so use the general monotonicity of the tail
          have hmono : ∀ (qs : List Patch) (j x y : Nat), x ≤ y → mapPos j qs x ≤ mapPos j qs y := by
            intro qs
            induction qs with
            | nil => intro j x y hxy; simp only [mapPos]; omega
            | cons q qs ihq =>
              intro j x y hxy
              simp only [mapPos]
              by_cases h1 : x < q.start
              · simp only [h1, if_true]
                by_cases h2 : y < q.start
                · simp only [h2, if_true]; omega
                · simp only [h2, if_false]; omega
              · have h2 : ¬ y < q.start := by omega
                simp only [h1, h2, if_false]
                have := ihq q.stop x y hxy
                omega
          have := hmono ps p.stop a1 a2 (by omega)
          omega
    · have hlt : a1 < b1 := by omega
      rcases hu p (by simp) with h | h
      · have hnot : ¬ a1 < p.start := by omega
        have hnot2 : ¬ a2 < p.start := by omega
        simp only [hnot, hnot2, if_false]
        have := ih p.stop c3 h (fun q hq => hu q (by simp [hq]))
        omega
      · have hx : a1 < p.start := by omega
        simp only [hx, if_true]
        by_cases hy : a2 < p.start
        · simp only [hy, if_true]; omega
        · simp only [hy, if_false]; omega

end SqlfluffVerif.Patch
