import SqlfluffVerif.Model.Pos
import SqlfluffVerif.Proofs.Util
/-! Helper lemmas for C31 (core Lean only). -/
namespace SqlfluffVerif.Pos
open SqlfluffVerif.Util

theorem nlFrom_append (off : Nat) (a b : Str) :
    nlFrom off (a ++ b) = nlFrom off a ++ nlFrom (off + a.length) b := by
  induction a generalizing off with
  | nil => simp [nlFrom]
  | cons c cs ih =>
    simp only [List.cons_append, nlFrom, List.length_cons]
    split <;> simp [ih, Nat.add_assoc, Nat.add_comm 1]

theorem nlFrom_ge (off : Nat) (s : Str) : ∀ i ∈ nlFrom off s, off ≤ i := by
  induction s generalizing off with
  | nil => simp [nlFrom]
  | cons c cs ih =>
    intro i hi
    simp only [nlFrom] at hi
    split at hi
    · rcases List.mem_cons.mp hi with h | h
      · omega
      · have := ih _ _ h; omega
    · have := ih _ _ hi; omega

theorem nlFrom_lt (off : Nat) (s : Str) : ∀ i ∈ nlFrom off s, i < off + s.length := by
  induction s generalizing off with
  | nil => simp [nlFrom]
  | cons c cs ih =>
    intro i hi
    simp only [nlFrom] at hi
    simp only [List.length_cons]
    split at hi
    · rcases List.mem_cons.mp hi with h | h
      · omega
      · have := ih _ _ h; omega
    · have := ih _ _ hi; omega

theorem nlFrom_length (off : Nat) (s : Str) : (nlFrom off s).length = s.count NL := by
  induction s generalizing off with
  | nil => simp [nlFrom]
  | cons c cs ih =>
    simp only [nlFrom]
    by_cases h : c = NL
    · simp [h, ih]
    · simp [h, ih]

/-- bisect on the newline list of `a ++ b` at `|a|` counts the newlines of `a`. -/
theorem bisect_split (a b : Str) :
    (nlFrom 0 (a ++ b)).takeWhile (· < a.length) = nlFrom 0 a := by
  rw [nlFrom_append]
  apply takeWhile_append_of
  · intro x hx; have := nlFrom_lt 0 a x hx; simp; omega
  · intro x hx; have := nlFrom_ge _ b x hx; simp; omega

theorem walk_append (a b : Str) (lc : Nat × Nat) : walk (a ++ b) lc = walk b (walk a lc) := by
  simp [walk, List.foldl_append]

theorem trailing_snoc (t : Str) (c : Nat) :
    trailing (t ++ [c]) = if c = NL then 0 else trailing t + 1 := by
  simp only [trailing, List.reverse_append, List.reverse_cons, List.reverse_nil, List.nil_append,
    List.singleton_append, List.takeWhile]
  by_cases h : c = NL <;> simp [h]

theorem trailing_le (t : Str) : trailing t ≤ t.length := by
  unfold trailing
  have := takeWhile_length_le (fun x => decide (x ≠ NL)) t.reverse
  simpa using this

/-- The closed form of the reference walk from the file start. -/
theorem walk_closed (t : Str) : walk t (1, 1) = (1 + t.count NL, trailing t + 1) := by
  induction t using rev_induction with
  | nil => simp [walk, trailing]
  | snoc t c ih =>
    rw [walk_append, ih, trailing_snoc]
    simp only [walk, List.foldl, stepPos, List.count_append]
    by_cases h : c = NL
    · simp [h]; omega
    · simp [h]

theorem getLast_nlFrom_snoc (t : Str) :
    (nlFrom 0 (t ++ [NL])).getD ((nlFrom 0 (t ++ [NL])).length - 1) 0 = t.length := by
  rw [nlFrom_append]
  simp [nlFrom, List.getD]

/-- Last newline index of `t` (when there is one) is `|t| - 1 - trailing t`. -/
theorem last_nl (t : Str) (h : 0 < t.count NL) :
    (nlFrom 0 t).getD ((nlFrom 0 t).length - 1) 0 + 1 + trailing t = t.length := by
  induction t using rev_induction with
  | nil => simp at h
  | snoc t c ih =>
    by_cases hc : c = NL
    · subst hc
      rw [getLast_nlFrom_snoc, trailing_snoc]; simp
    · have hcnt : 0 < t.count NL := by
        simp only [List.count_append, List.count_cons, List.count_nil] at h
        have : (c == NL) = false := by simpa using hc
        simp [this] at h; exact List.count_pos_iff.mpr h
      have := ih hcnt
      rw [trailing_snoc]
      rw [nlFrom_append]
      simp only [nlFrom, hc, if_false, List.append_nil, List.length_append, List.length_cons,
        List.length_nil]
      omega

theorem linePos_eq_walk (s : Str) (p : Nat) (hp : p ≤ s.length) :
    linePos s p = walk (s.take p) (1, 1) := by
  have hs : s = s.take p ++ s.drop p := (List.take_append_drop p s).symm
  have hlen : (s.take p).length = p := by simp [Nat.min_eq_left hp]
  rw [walk_closed]
  unfold linePos linePosIdx bisectLeft newlineIndices
  have hb : (nlFrom 0 s).takeWhile (· < p) = nlFrom 0 (s.take p) := by
    have := bisect_split (s.take p) (s.drop p)
    rw [← hs, hlen] at this; exact this
  simp only [hb, nlFrom_length]
  by_cases hc : 0 < (s.take p).count NL
  · simp only [hc, if_true, gt_iff_lt]
    have hl := last_nl (s.take p) hc
    rw [nlFrom_length] at hl
    -- element k-1 of the full list equals element k-1 of the prefix list
    have hget : (nlFrom 0 s).getD ((s.take p).count NL - 1) 0
        = (nlFrom 0 (s.take p)).getD ((s.take p).count NL - 1) 0 := by
      conv => lhs; rw [hs, nlFrom_append]
      have : (s.take p).count NL - 1 < (nlFrom 0 (s.take p)).length := by
        rw [nlFrom_length]; omega
      simp [List.getD, List.getElem?_append_left this]
    rw [hget]
    have : trailing (s.take p) ≤ p := by
      have := trailing_le (s.take p); omega
    rw [List.getD_eq_getElem?_getD] at hl ⊢
    ext <;> simp <;> omega
  · have h0 : (s.take p).count NL = 0 := by omega
    simp only [h0, Nat.lt_irrefl, if_false, gt_iff_lt]
    -- no newline in prefix: trailing = p
    have ht : trailing (s.take p) = p := by
      have hall : ∀ x ∈ (s.take p).reverse, (x ≠ NL) := by
        intro x hx
        have hx' : x ∈ s.take p := by simpa using hx
        intro hxe; subst hxe
        have := List.count_pos_iff.mpr hx'
        omega
      unfold trailing
      rw [takeWhile_all _ _ (by intro x hx; simpa using hall x hx)]
      simp [hlen]
    simp [ht]

/-! `splitNL` facts -/

theorem splitNL_ne_nil (s : Str) : splitNL s ≠ [] := by
  induction s with
  | nil => simp [splitNL]
  | cons c cs ih =>
    simp only [splitNL]
    split
    · simp
    · split <;> simp

theorem splitNL_length (s : Str) : (splitNL s).length = s.count NL + 1 := by
  induction s with
  | nil => simp [splitNL]
  | cons c cs ih =>
    simp only [splitNL]
    split
    · rename_i h; exact absurd h (splitNL_ne_nil cs)
    · rename_i p ps h
      rw [h] at ih
      by_cases hc : c = NL
      · simp [hc] at ih ⊢; omega
      · simp [hc] at ih ⊢; omega

theorem trailing_of_not_mem (t : Str) (h : NL ∉ t) : trailing t = t.length := by
  induction t using rev_induction with
  | nil => simp [trailing]
  | snoc t x ih =>
    rw [trailing_snoc]
    have hx : x ≠ NL := by intro hx; subst hx; simp at h
    have ht : NL ∉ t := by intro ht; apply h; simp [ht]
    simp [hx, ih ht]

theorem trailing_cons (c : Nat) (cs : Str) :
    trailing (c :: cs) = if NL ∈ cs then trailing cs else if c = NL then cs.length else cs.length + 1 := by
  induction cs using rev_induction with
  | nil =>
    have := trailing_snoc [] c
    simp only [List.nil_append] at this
    rw [this]; simp [trailing]
  | snoc t x ih =>
    rw [← List.cons_append, trailing_snoc, trailing_snoc, ih]
    by_cases hx : x = NL
    · simp [hx]
    · have hx' : ¬ NL = x := fun h => hx h.symm
      simp only [hx, if_false, List.mem_append, List.mem_singleton, hx', or_false,
        List.length_append, List.length_cons, List.length_nil]
      split
      · rfl
      · split <;> rfl

theorem splitNL_last (s : Str) : ((splitNL s).getLastD []).length = trailing s := by
  induction s with
  | nil => simp [splitNL, trailing]
  | cons c cs ih =>
    have hl := splitNL_length cs
    rw [trailing_cons]
    simp only [splitNL]
    split
    · rename_i h; exact absurd h (splitNL_ne_nil cs)
    · rename_i p ps h
      rw [h] at ih hl
      by_cases hm : NL ∈ cs
      · have hcnt : 0 < cs.count NL := List.count_pos_iff.mpr hm
        have hps : ps ≠ [] := by
          intro hps; subst hps; simp at hl; omega
        obtain ⟨q, qs, rfl⟩ := List.exists_cons_of_ne_nil hps
        simp only [hm, if_true]
        by_cases hc : c = NL <;> simp [hc, List.getLastD] at ih ⊢ <;> exact ih
      · have hcnt : cs.count NL = 0 := List.count_eq_zero.mpr hm
        have hps : ps = [] := by
          simp [hcnt] at hl; exact hl
        subst hps
        have htr := trailing_of_not_mem cs hm
        simp only [hm, if_false]
        by_cases hc : c = NL <;> simp [hc, List.getLastD] at ih ⊢ <;> omega

theorem walk_general (t : Str) (l c : Nat) :
    walk t (l, c) = (l + t.count NL, if t.count NL = 0 then c + t.length else trailing t + 1) := by
  induction t using rev_induction with
  | nil => simp [walk]
  | snoc t x ih =>
    rw [walk_append, ih, trailing_snoc]
    simp only [walk, List.foldl, stepPos, List.count_append]
    by_cases h : x = NL
    · simp [h]; omega
    · simp [h]
      split <;> omega

theorem inferNext_eq_walk (raw : Str) (line col : Nat) :
    inferNext raw line col = walk raw (line, col) := by
  rw [walk_general]
  unfold inferNext
  by_cases h : raw = []
  · subst h; simp
  · simp only [h, if_false, splitNL_length, splitNL_last]
    ext
    · simp
    · simp

end SqlfluffVerif.Pos

namespace SqlfluffVerif.Pos
open SqlfluffVerif.Util

theorem trailing_append_noNL (a m : Str) (h : NL ∉ m) : trailing (a ++ m) = trailing a + m.length := by
  induction m using rev_induction with
  | nil => simp
  | snoc m x ih =>
    have hx : x ≠ NL := by intro hx; subst hx; simp at h
    have hm : NL ∉ m := by intro hm; apply h; simp [hm]
    rw [← List.append_assoc, trailing_snoc, ih hm]
    simp [hx]; omega

/-- two different offsets of a text never get the same (line, column) -/
theorem linePos_injective (s : Str) (p q : Nat) (hp : p ≤ s.length) (hq : q ≤ s.length)
    (h : linePos s p = linePos s q) : p = q := by
  have key : ∀ (p q : Nat), p < q → q ≤ s.length → linePos s p ≠ linePos s q := by
    intro p q hlt hq
    have hp : p ≤ s.length := by omega
    rw [linePos_eq_walk s p hp, linePos_eq_walk s q hq, walk_closed, walk_closed]
    have hsplit : s.take q = s.take p ++ (s.drop p).take (q - p) := by
      have : s.take q = (s.take q).take p ++ (s.take q).drop p := (List.take_append_drop p _).symm
      rw [this, List.take_take, Nat.min_eq_left (by omega), List.drop_take]
    by_cases hm : NL ∈ (s.drop p).take (q - p)
    · intro heq
      have h1 := congrArg Prod.fst heq
      simp only at h1
      rw [hsplit, List.count_append] at h1
      have := List.count_pos_iff.mpr hm
      omega
    · intro heq
      have h2 := congrArg Prod.snd heq
      simp only at h2
      rw [hsplit, trailing_append_noNL _ _ hm] at h2
      have hl : ((s.drop p).take (q - p)).length = q - p := by simp; omega
      omega
  rcases Nat.lt_trichotomy p q with hlt | heq | hgt
  · exact absurd h (key p q hlt hq)
  · exact heq
  · exact absurd h.symm (key q p hgt hp)

end SqlfluffVerif.Pos
