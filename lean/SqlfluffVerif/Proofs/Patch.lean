import SqlfluffVerif.Model.Patch
import SqlfluffVerif.Proofs.Util
/-! Helper lemmas for C30 (core Lean only). -/
namespace SqlfluffVerif.Patch

/-! ### merge loop -/

def NoConf (l : List Patch) : Prop := l.Pairwise (fun a b => conflict a b = false)

theorem keyLe_trans (a b c : Patch) : keyLe a b = true → keyLe b c = true → keyLe a c = true := by
  simp only [keyLe, Bool.or_eq_true, decide_eq_true_eq, Bool.and_eq_true, beq_iff_eq]
  omega

theorem keyLe_total (a b : Patch) : (keyLe a b || keyLe b a) = true := by
  simp only [keyLe, Bool.or_eq_true, decide_eq_true_eq, Bool.and_eq_true, beq_iff_eq]
  omega

theorem mergeLoop_spec (merged : List Patch) (seen : List (Nat × Nat × Str)) (ps : List Patch)
    (h1 : NoConf merged) (h2 : ∀ e ∈ merged, key e ∈ seen) (h3 : merged.Pairwise (fun a b => key a ≠ key b)) :
    NoConf (mergeLoop merged seen ps) ∧
    (mergeLoop merged seen ps).Pairwise (fun a b => key a ≠ key b) ∧
    ∃ rest, mergeLoop merged seen ps = merged ++ rest ∧ rest.Sublist ps := by
  induction ps generalizing merged seen with
  | nil => exact ⟨h1, h3, [], by simp [mergeLoop], List.Sublist.refl _⟩
  | cons p ps ih =>
    simp only [mergeLoop]
    split
    · obtain ⟨a, b, rest, hr, hs⟩ := ih merged seen h1 h2 h3
      exact ⟨a, b, rest, hr, hs.cons p⟩
    · rename_i hseen
      split
      · obtain ⟨a, b, rest, hr, hs⟩ := ih merged seen h1 h2 h3
        exact ⟨a, b, rest, hr, hs.cons p⟩
      · rename_i hany
        have hnc : ∀ e ∈ merged, conflict e p = false := by
          intro e he
          cases hc : conflict e p with
          | false => rfl
          | true => exact absurd (List.any_eq_true.mpr ⟨e, he, hc⟩) hany
        have hk : key p ∉ seen := by
          intro hm; exact hseen (List.contains_iff_mem.mpr hm)
        have n1 : NoConf (merged ++ [p]) := by
          unfold NoConf
          rw [List.pairwise_append]
          refine ⟨h1, List.pairwise_singleton _ _, ?_⟩
          intro a ha b hb
          simp at hb; subst hb; exact hnc a ha
        have n2 : ∀ e ∈ merged ++ [p], key e ∈ key p :: seen := by
          intro e he
          rcases List.mem_append.mp he with h | h
          · exact List.mem_cons_of_mem _ (h2 e h)
          · simp at h; subst h; simp
        have n3 : (merged ++ [p]).Pairwise (fun a b => key a ≠ key b) := by
          rw [List.pairwise_append]
          refine ⟨h3, List.pairwise_singleton _ _, ?_⟩
          intro a ha b hb
          simp at hb; subst hb
          intro heq; exact hk (heq ▸ h2 a ha)
        obtain ⟨a, b, rest, hr, hs⟩ := ih (merged ++ [p]) (key p :: seen) n1 n2 n3
        refine ⟨a, b, p :: rest, ?_, hs.cons₂ p⟩
        rw [hr]; simp

theorem mergePatches_sublist (bufs : List (List Patch)) :
    (mergePatches bufs).Sublist (bufs.flatten.mergeSort keyLe) := by
  obtain ⟨_, _, rest, hr, hs⟩ := mergeLoop_spec [] [] (bufs.flatten.mergeSort keyLe)
    List.Pairwise.nil (by simp) List.Pairwise.nil
  unfold mergePatches; rw [hr]; simpa using hs

/-! ### slicing and building without source-only slices -/

theorem buildFixed_append (a b : List Slice) (ps : List Patch) (src : Str) :
    buildFixed (a ++ b) ps src = buildFixed a ps src ++ buildFixed b ps src := by
  simp [buildFixed, List.map_append, List.flatten_append]

def lookup (ps : List Patch) (s : Slice) : Option Patch :=
  ps.find? (fun p => p.start == s.1 && p.stop == s.2)

theorem buildFixed_single (s : Slice) (ps : List Patch) (src : Str) :
    buildFixed [s] ps src = match lookup ps s with
      | some p => p.raw
      | none => sliceOf src s.1 s.2 := by
  simp only [buildFixed, lookup, List.map_cons, List.map_nil, List.flatten_cons, List.flatten_nil,
    List.append_nil]
  cases List.find? (fun p => p.start == s.fst && p.stop == s.snd) ps <;> rfl

theorem lookup_none (P : List Patch) (s : Slice)
    (h : ∀ q ∈ P, ¬ (q.start = s.1 ∧ q.stop = s.2)) : lookup P s = none := by
  unfold lookup
  rw [List.find?_eq_none]
  intro q hq
  have := h q hq
  simp only [Bool.and_eq_true, beq_iff_eq]
  exact this

/-- Equal slices carry equal text (the residue of `conflict = false` that the build step needs). -/
def SameSliceSameRaw (P : List Patch) : Prop :=
  ∀ a ∈ P, ∀ b ∈ P, a.start = b.start → a.stop = b.stop → a.raw = b.raw

theorem lookup_some (P : List Patch) (p : Patch) (hp : p ∈ P) (hs : SameSliceSameRaw P) :
    ∃ q, lookup P (p.start, p.stop) = some q ∧ q.raw = p.raw := by
  unfold lookup
  have hsome : (P.find? (fun q => q.start == p.start && q.stop == p.stop)).isSome = true := by
    rw [List.find?_isSome]; exact ⟨p, hp, by simp⟩
  obtain ⟨q, hq⟩ := Option.isSome_iff_exists.mp hsome
  refine ⟨q, hq, ?_⟩
  have hpred := List.find?_some hq
  have hmem := List.mem_of_find?_eq_some hq
  simp only [Bool.and_eq_true, beq_iff_eq] at hpred
  exact hs q hmem p hp hpred.1 hpred.2

/-- Invariant on the processed prefix: every processed patch lies behind the cursor or was skipped. -/
def Behind (pre : List Patch) (idx : Nat) : Prop := ∀ q ∈ pre, q.stop ≤ idx ∨ q.start < idx

theorem sliceOf_full (src : Str) (idx : Nat) : sliceOf src idx src.length = src.drop idx := by
  unfold sliceOf
  apply List.take_of_length_le
  simp

theorem sliceOf_empty (src : Str) (i : Nat) : sliceOf src i i = [] := by
  simp [sliceOf]

theorem sliceLoop_noSo (src : Str) (pre ps : List Patch) (buff : List Slice) (idx : Nat)
    (hB : Behind pre idx)
    (hSorted : (pre ++ ps).Pairwise (fun a b => keyLe a b = true))
    (hSame : SameSliceSameRaw (pre ++ ps))
    (hWF : ∀ p ∈ pre ++ ps, p.start ≤ p.stop) :
    buildFixed (sliceLoop src.length buff idx [] ps) (pre ++ ps) src
      = buildFixed buff (pre ++ ps) src ++ spliceAll src idx (accepted idx ps) := by
  induction ps generalizing pre buff idx with
  | nil =>
    simp only [sliceLoop, accepted, spliceAll, List.append_nil] at *
    split
    · rename_i hlt
      rw [buildFixed_append, buildFixed_single, lookup_none]
      · simp [sliceOf_full]
      · intro q hq hcon
        rcases hB q hq with h | h
        · simp at hcon; omega
        · simp at hcon; omega
    · rename_i hge
      have : src.drop idx = [] := List.drop_eq_nil_of_le (by omega)
      simp [this]
  | cons p ps ih =>
    have hP : pre ++ p :: ps = (pre ++ [p]) ++ ps := by simp
    have hsort_p : ∀ q ∈ ps, p.start ≤ q.start := by
      intro q hq
      have h1 := (List.pairwise_append.mp hSorted).2.1
      have h2 := (List.pairwise_cons.mp h1).1 q hq
      simp only [keyLe, Bool.or_eq_true, decide_eq_true_eq, Bool.and_eq_true, beq_iff_eq] at h2
      omega
    have hpmem : p ∈ pre ++ p :: ps := by simp
    have hwf_p : p.start ≤ p.stop := hWF p hpmem
    simp only [sliceLoop, popSo, accepted]
    by_cases hskip : p.start < idx
    · -- skipped
      have hng : ¬ p.start > idx := by omega
      simp only [hskip, hng, if_true, if_false]
      have hB' : Behind (pre ++ [p]) idx := by
        intro q hq
        rcases List.mem_append.mp hq with h | h
        · exact hB q h
        · simp at h; subst h; exact Or.inr hskip
      have := ih (pre ++ [p]) buff idx hB' (hP ▸ hSorted) (hP ▸ hSame) (hP ▸ hWF)
      rw [hP]; exact this
    · simp only [hskip, if_false]
      have hB' : Behind (pre ++ [p]) p.stop := by
        intro q hq
        rcases List.mem_append.mp hq with h | h
        · rcases hB q h with h' | h'
          · left; omega
          · right; omega
        · simp at h; subst h; exact Or.inl (Nat.le_refl _)
      obtain ⟨q, hq, hqraw⟩ := lookup_some (pre ++ p :: ps) p hpmem hSame
      by_cases hgap : p.start > idx
      · simp only [hgap, if_true]
        have := ih (pre ++ [p]) (buff ++ [(idx, p.start)] ++ [(p.start, p.stop)]) p.stop hB'
          (hP ▸ hSorted) (hP ▸ hSame) (hP ▸ hWF)
        rw [← hP] at this
        rw [this, buildFixed_append, buildFixed_append, buildFixed_single, buildFixed_single, hq,
          lookup_none]
        · simp [spliceAll, hqraw, List.append_assoc]
        · intro r hr hcon
          simp only at hcon
          rcases List.mem_append.mp hr with h | h
          · rcases hB r h with h' | h' <;> omega
          · rcases List.mem_cons.mp h with h' | h'
            · subst h'; omega
            · have := hsort_p r h'; omega
      · simp only [hgap, if_false]
        have hidx : p.start = idx := by omega
        have := ih (pre ++ [p]) (buff ++ [(p.start, p.stop)]) p.stop hB'
          (hP ▸ hSorted) (hP ▸ hSame) (hP ▸ hWF)
        rw [← hP] at this
        rw [this, buildFixed_append, buildFixed_single, hq]
        simp [spliceAll, hqraw, hidx, sliceOf_empty, List.append_assoc]

theorem accepted_sublist (idx : Nat) (ps : List Patch) : (accepted idx ps).Sublist ps := by
  induction ps generalizing idx with
  | nil => simp [accepted]
  | cons p ps ih =>
    simp only [accepted]
    split
    · exact (ih idx).cons p
    · exact (ih p.stop).cons₂ p

theorem accepted_chain (idx : Nat) (ps : List Patch) (hWF : ∀ p ∈ ps, p.start ≤ p.stop) :
    Chain idx (accepted idx ps) := by
  induction ps generalizing idx with
  | nil => simp [accepted, Chain]
  | cons p ps ih =>
    simp only [accepted]
    split
    · exact ih idx (fun q hq => hWF q (by simp [hq]))
    · rename_i h
      refine ⟨by omega, hWF p (by simp), ih p.stop (fun q hq => hWF q (by simp [hq]))⟩

theorem pairwise_either {α} (R : α → α → Prop) (P : List α) (h : P.Pairwise R) :
    ∀ x ∈ P, ∀ y ∈ P, x ≠ y → (R x y ∨ R y x) := by
  induction P with
  | nil => intro x hx; simp at hx
  | cons z zs ih =>
    rw [List.pairwise_cons] at h
    intro x hx y hy hne
    rcases List.mem_cons.mp hx with hx' | hx'
    · rcases List.mem_cons.mp hy with hy' | hy'
      · exact absurd (hx'.trans hy'.symm) hne
      · left; subst hx'; exact h.1 y hy'
    · rcases List.mem_cons.mp hy with hy' | hy'
      · right; subst hy'; exact h.1 x hx'
      · exact ih h.2 x hx' y hy' hne

/-- `conflict = false` in either order forces equal text on equal slices. -/
theorem noConf_same (P : List Patch) (h : NoConf P) : SameSliceSameRaw P := by
  intro a ha b hb hs he
  by_cases hab : a = b
  · rw [hab]
  · have key : ∀ x y : Patch, conflict x y = false → x.start = y.start → x.stop = y.stop → x.raw = y.raw := by
      intro x y hc h1 h2
      simp only [conflict, sliceEq, h1, h2, beq_self_eq_true, Bool.and_self, if_true] at hc
      simpa using hc
    rcases pairwise_either _ P h a ha b hb hab with h1 | h1
    · exact key a b h1 hs he
    · exact (key b a h1 hs.symm he.symm).symm

end SqlfluffVerif.Patch
