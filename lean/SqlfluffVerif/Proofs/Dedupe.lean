import SqlfluffVerif.Model.Dedupe
/-! Helper lemmas for C33. -/
namespace SqlfluffVerif.Dedupe

theorem keepFirst_sub (seen : List Nat) (vs : List Viol) : (keepFirst seen vs).Sublist vs := by
  induction vs generalizing seen with
  | nil => simp [keepFirst]
  | cons v vs ih =>
    simp only [keepFirst]; split
    · exact (ih seen).cons v
    · exact (ih _).cons₂ v

theorem keepFirst_notin (seen : List Nat) (vs : List Viol) :
    ∀ w ∈ keepFirst seen vs, w.sig ∉ seen := by
  induction vs generalizing seen with
  | nil => simp [keepFirst]
  | cons v vs ih =>
    intro w hw
    simp only [keepFirst] at hw
    split at hw
    · exact ih seen w hw
    · rename_i hc
      rcases List.mem_cons.mp hw with h | h
      · subst h; intro hm; exact hc (List.contains_iff_mem.mpr hm)
      · have := ih _ w h
        intro hm; exact this (List.mem_cons_of_mem _ hm)

theorem keepFirst_nodup (seen : List Nat) (vs : List Viol) :
    (keepFirst seen vs).Pairwise (fun a b => a.sig ≠ b.sig) := by
  induction vs generalizing seen with
  | nil => simp [keepFirst]
  | cons v vs ih =>
    simp only [keepFirst]; split
    · exact ih seen
    · rw [List.pairwise_cons]
      refine ⟨?_, ih _⟩
      intro w hw heq
      have := keepFirst_notin _ vs w hw
      apply this; rw [← heq]; simp

theorem keepFirst_covers (seen : List Nat) (vs : List Viol) :
    ∀ v ∈ vs, v.sig ∈ seen ∨ ∃ w ∈ keepFirst seen vs, w.sig = v.sig := by
  induction vs generalizing seen with
  | nil => simp
  | cons x xs ih =>
    intro v hv
    simp only [keepFirst]
    rcases List.mem_cons.mp hv with h | h
    · subst h
      split
      · rename_i hc; exact Or.inl (List.contains_iff_mem.mp hc)
      · exact Or.inr ⟨v, by simp, rfl⟩
    · split
      · exact ih seen v h
      · rcases ih (x.sig :: seen) v h with h' | ⟨w, hw, hs⟩
        · rcases List.mem_cons.mp h' with h'' | h''
          · exact Or.inr ⟨x, by simp, h''.symm⟩
          · exact Or.inl h''
        · exact Or.inr ⟨w, List.mem_cons_of_mem _ hw, hs⟩

theorem posLe_trans (a b c : Viol) : posLe a b = true → posLe b c = true → posLe a c = true := by
  simp only [posLe, Bool.or_eq_true, decide_eq_true_eq, Bool.and_eq_true, beq_iff_eq]; omega

theorem posLe_total (a b : Viol) : (posLe a b || posLe b a) = true := by
  simp only [posLe, Bool.or_eq_true, decide_eq_true_eq, Bool.and_eq_true, beq_iff_eq]; omega

theorem recLe_trans (a b c : Viol) : recLe a b = true → recLe b c = true → recLe a c = true := by
  simp only [recLe, Bool.or_eq_true, decide_eq_true_eq, Bool.and_eq_true, beq_iff_eq]; omega

theorem recLe_total (a b : Viol) : (recLe a b || recLe b a) = true := by
  simp only [recLe, Bool.or_eq_true, decide_eq_true_eq, Bool.and_eq_true, beq_iff_eq]; omega

end SqlfluffVerif.Dedupe
