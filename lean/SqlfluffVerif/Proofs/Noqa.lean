import SqlfluffVerif.Model.Noqa
import SqlfluffVerif.Proofs.Util
/-! Helper lemmas for C20. -/
namespace SqlfluffVerif.Noqa

theorem filterSingle_visible (d : Dir) (vs : List V) :
    (filterSingle d vs).2 = vs.filter (fun v => !(matchesSingle d v)) := by
  unfold filterSingle
  by_cases h : (vs.filter (matchesSingle d)).isEmpty
  · simp only [h, if_true]
    have : ∀ v ∈ vs, matchesSingle d v = false := by
      intro v hv
      cases hm : matchesSingle d v with
      | false => rfl
      | true =>
        have : v ∈ vs.filter (matchesSingle d) := List.mem_filter.mpr ⟨hv, hm⟩
        rw [List.isEmpty_iff.mp h] at this; simp at this
    symm; apply List.filter_eq_self.mpr
    intro v hv; simp [this v hv]
  · simp only [h, if_false]
    apply List.filter_congr
    intro v hv
    cases hm : matchesSingle d v with
    | false =>
      simp only [Bool.not_false, Bool.not_eq_true']
      cases hc : (vs.filter (matchesSingle d)).contains v with
      | false => rfl
      | true =>
        have := (List.mem_filter.mp (List.contains_iff_mem.mp hc)).2
        rw [hm] at this; simp at this
    | true =>
      simp only [Bool.not_true, Bool.not_eq_false']
      exact List.contains_iff_mem.mpr (List.mem_filter.mpr ⟨hv, hm⟩)

theorem filterSingle_used (d : Dir) (vs : List V) :
    (filterSingle d vs).1 = vs.any (matchesSingle d) := by
  unfold filterSingle
  by_cases h : (vs.filter (matchesSingle d)).isEmpty
  · simp only [h, if_true]
    symm
    rw [Bool.eq_false_iff]
    intro hany
    obtain ⟨v, hv, hm⟩ := List.any_eq_true.mp hany
    have : v ∈ vs.filter (matchesSingle d) := List.mem_filter.mpr ⟨hv, hm⟩
    rw [List.isEmpty_iff.mp h] at this; simp at this
  · simp only [h]
    symm
    show vs.any (matchesSingle d) = true
    rw [List.any_eq_true]
    cases hf : vs.filter (matchesSingle d) with
    | nil => simp [hf] at h
    | cons v rest =>
      have : v ∈ vs.filter (matchesSingle d) := by rw [hf]; simp
      exact ⟨v, (List.mem_filter.mp this).1, (List.mem_filter.mp this).2⟩

theorem applySingles_visible (ds : List Dir) (vs : List V) :
    (applySingles ds vs).2 = vs.filter (fun v => !(ds.any (fun d => matchesSingle d v))) := by
  induction ds generalizing vs with
  | nil => simp [applySingles]; symm; apply List.filter_eq_self.mpr; simp
  | cons d ds ih =>
    simp only [applySingles]
    rw [ih, filterSingle_visible, List.filter_filter]
    apply List.filter_congr
    intro v _
    simp [List.any_cons, Bool.and_comm]

/-- A directive is marked used exactly when it matched a violation still present when its turn
    came (the sequential semantics of the code). -/
theorem applySingles_marks (ds : List Dir) (vs : List V) (u : Nat) :
    u ∈ (applySingles ds vs).1 →
      ∃ d ∈ ds, d.uid = u ∧ ∃ v ∈ vs, matchesSingle d v = true := by
  induction ds generalizing vs with
  | nil => simp [applySingles]
  | cons d ds ih =>
    simp only [applySingles]
    intro hu
    have hsub : ∀ v ∈ (filterSingle d vs).2, v ∈ vs := by
      intro v hv; rw [filterSingle_visible] at hv; exact (List.mem_filter.mp hv).1
    by_cases hused : (filterSingle d vs).1 = true
    · simp only [hused, if_true] at hu
      rcases List.mem_cons.mp hu with h | h
      · rw [filterSingle_used] at hused
        obtain ⟨v, hv, hm⟩ := List.any_eq_true.mp hused
        exact ⟨d, by simp, h.symm, v, hv, hm⟩
      · obtain ⟨d', hd', hu', v, hv, hm⟩ := ih _ h
        exact ⟨d', List.mem_cons_of_mem _ hd', hu', v, hsub v hv, hm⟩
    · simp only [hused] at hu
      obtain ⟨d', hd', hu', v, hv, hm⟩ := ih _ hu
      exact ⟨d', List.mem_cons_of_mem _ hd', hu', v, hsub v hv, hm⟩

theorem filterRange_visible (ds : List Dir) (vs : List V) :
    (filterRange ds vs).2 =
      vs.filter (fun v => !(shouldIgnore v.line (relevant ds v) false none []).1) := by
  induction vs with
  | nil => simp [filterRange]
  | cons v vs ih =>
    simp only [filterRange, List.filter_cons]
    rw [ih]
    cases h : (shouldIgnore v.line (relevant ds v) false none []).1 <;> simp

/-- The decision of the range state machine is the action of the last directive at or before the
    line (for lists whose actions are enable/disable). -/
theorem shouldIgnore_decision (line : Nat) (ds : List Dir) (ig : Bool) (last : Option Nat)
    (marks : List Nat) (hact : ∀ d ∈ ds, d.action = 1 ∨ d.action = 2) :
    (shouldIgnore line ds ig last marks).1 =
      (match ds.takeWhile (fun d => d.line ≤ line) with
       | [] => ig
       | x :: xs => lastDisable (x :: xs)) := by
  induction ds generalizing ig last marks with
  | nil => simp [shouldIgnore]
  | cons d ds ih =>
    simp only [shouldIgnore, List.takeWhile]
    by_cases hgt : d.line > line
    · have : decide (d.line ≤ line) = false := by simp; omega
      simp [hgt, this]
    · have hle : decide (d.line ≤ line) = true := by simp; omega
      simp only [hgt, if_false, hle]
      have hact' : ∀ d' ∈ ds, d'.action = 1 ∨ d'.action = 2 := fun d' h => hact d' (by simp [h])
      rcases hact d (by simp) with h1 | h2
      · simp only [h1, if_true]
        rw [ih _ _ _ hact']
        cases hk : ds.takeWhile (fun d => d.line ≤ line) with
        | nil => simp [lastDisable, h1]
        | cons y ys => simp [lastDisable]
      · have h21 : ¬ (2 : Nat) = 1 := by omega
        simp only [h2, h21, if_false, if_true]
        rw [ih _ _ _ hact']
        cases hk : ds.takeWhile (fun d => d.line ≤ line) with
        | nil => simp [lastDisable, h2]
        | cons y ys => simp [lastDisable]

theorem relevant_actions (ds : List Dir) (v : V) (h : ∀ d ∈ ds, d.action = 1 ∨ d.action = 2) :
    ∀ d ∈ relevant ds v, d.action = 1 ∨ d.action = 2 := by
  intro d hd
  unfold relevant at hd
  have := (List.mergeSort_perm _ _).mem_iff.mp hd
  exact h d (List.mem_filter.mp this).1

theorem lineLe_trans (a b c : Dir) : lineLe a b = true → lineLe b c = true → lineLe a c = true := by
  simp only [lineLe, decide_eq_true_eq]; omega

theorem lineLe_total (a b : Dir) : (lineLe a b || lineLe b a) = true := by
  simp only [lineLe, Bool.or_eq_true, decide_eq_true_eq]; omega

theorem lastDisable_mem (l : List Dir) (h : lastDisable l = true) :
    ∃ d, l.getLast? = some d ∧ d.action = 2 := by
  induction l with
  | nil => simp [lastDisable] at h
  | cons x xs ih =>
    cases xs with
    | nil => simp [lastDisable] at h; exact ⟨x, by simp, h⟩
    | cons y ys =>
      simp only [lastDisable] at h
      obtain ⟨d, hd, ha⟩ := ih h
      exact ⟨d, by simpa [List.getLast?_cons_cons] using hd, ha⟩

/-- On a line-sorted list, the last directive at or before `line` is a latest one: every directive
    at or before `line` has a line number not larger than it. -/
theorem takeWhile_last_latest (l : List Dir) (line : Nat)
    (hs : l.Pairwise (fun a b => lineLe a b = true)) (d : Dir)
    (hd : (l.takeWhile (fun d => d.line ≤ line)).getLast? = some d) :
    d ∈ l ∧ d.line ≤ line ∧ ∀ d' ∈ l, d'.line ≤ line → d'.line ≤ d.line := by
  induction l with
  | nil => simp at hd
  | cons x xs ih =>
    rw [List.pairwise_cons] at hs
    simp only [List.takeWhile] at hd
    by_cases hx : x.line ≤ line
    · simp only [hx, decide_true] at hd
      cases hk : xs.takeWhile (fun d => d.line ≤ line) with
      | nil =>
        rw [hk] at hd; simp at hd; subst hd
        refine ⟨by simp, hx, ?_⟩
        intro d' hd' hle
        rcases List.mem_cons.mp hd' with h | h
        · subst h; exact Nat.le_refl _
        · -- d' ∈ xs with line ≤ line, but takeWhile is empty: head of xs exceeds `line`
          cases xs with
          | nil => simp at h
          | cons y ys =>
            simp only [List.takeWhile] at hk
            by_cases hy : y.line ≤ line
            · simp [hy] at hk
            · have hyd : lineLe y d' = true ∨ y = d' := by
                rcases List.mem_cons.mp h with h' | h'
                · exact Or.inr h'.symm
                · exact Or.inl ((List.pairwise_cons.mp hs.2).1 d' h')
              rcases hyd with h' | h'
              · simp only [lineLe, decide_eq_true_eq] at h'; omega
              · subst h'; omega
      | cons y ys =>
        rw [hk] at hd
        have hd' : (xs.takeWhile (fun d => d.line ≤ line)).getLast? = some d := by
          rw [hk]; simpa [List.getLast?_cons_cons] using hd
        obtain ⟨hm, hl, hall⟩ := ih hs.2 hd'
        refine ⟨List.mem_cons_of_mem _ hm, hl, ?_⟩
        intro d' hd'' hle
        rcases List.mem_cons.mp hd'' with h | h
        · subst h
          have := hs.1 d hm
          simp only [lineLe, decide_eq_true_eq] at this; exact this
        · exact hall d' h hle
    · simp [hx] at hd

end SqlfluffVerif.Noqa
