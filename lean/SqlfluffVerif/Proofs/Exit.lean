import SqlfluffVerif.Model.Exit
namespace SqlfluffVerif.Exit

theorem sum_pos_iff (l : List Nat) : l.sum > 0 ↔ ∃ x ∈ l, x > 0 := by
  induction l with
  | nil => simp
  | cons a as ih =>
    simp only [List.sum_cons, List.mem_cons]
    constructor
    · intro h
      by_cases ha : a > 0
      · exact ⟨a, Or.inl rfl, ha⟩
      · have : as.sum > 0 := by omega
        obtain ⟨x, hx, hp⟩ := ih.mp this
        exact ⟨x, Or.inr hx, hp⟩
    · rintro ⟨x, hx | hx, hp⟩
      · subst hx; omega
      · have := ih.mpr ⟨x, hx, hp⟩; omega

theorem length_filter_pos {α} (p : α → Bool) (l : List α) : (l.filter p).length > 0 ↔ ∃ x ∈ l, p x = true := by
  show 0 < _ ↔ _
  rw [List.length_pos_iff]
  constructor
  · intro h
    obtain ⟨x, hx⟩ := List.exists_mem_of_ne_nil _ h
    exact ⟨x, (List.mem_filter.mp hx).1, (List.mem_filter.mp hx).2⟩
  · rintro ⟨x, hx, hp⟩
    exact List.ne_nil_of_mem (List.mem_filter.mpr ⟨hx, hp⟩)

/-- membership in the fully filtered list -/
theorem mem_getViolations_default (vs : List Viol) (types : Viol → Bool) (v : Viol) :
    v ∈ getViolations vs types true true none ↔
      v ∈ vs ∧ types v = true ∧ v.ignore = false ∧ v.masked = false ∧ v.warning = false := by
  simp only [getViolations, if_true, List.mem_filter, Bool.not_eq_true']
  constructor
  · rintro ⟨⟨⟨⟨h1, h2⟩, h3⟩, h4⟩, h5⟩; exact ⟨h1, h2, h3, h4, h5⟩
  · rintro ⟨h1, h2, h3, h4, h5⟩; exact ⟨⟨⟨⟨h1, h2⟩, h3⟩, h4⟩, h5⟩

theorem mem_getViolations_unfiltered (vs : List Viol) (types : Viol → Bool) (v : Viol) :
    v ∈ getViolations vs types false false none ↔ v ∈ vs ∧ types v = true := by
  simp [getViolations, List.mem_filter]

theorem numViolations_pos (f : File) :
    numViolations f > 0 ↔ ∃ v ∈ f.viols, v.ignore = false ∧ v.masked = false ∧ v.warning = false := by
  unfold numViolations count
  show 0 < _ ↔ _
  rw [List.length_pos_iff]
  constructor
  · intro h
    obtain ⟨v, hv⟩ := List.exists_mem_of_ne_nil _ h
    obtain ⟨h1, _, h3, h4, h5⟩ := (mem_getViolations_default _ _ v).mp hv
    exact ⟨v, h1, h3, h4, h5⟩
  · rintro ⟨v, h1, h3, h4, h5⟩
    exact List.ne_nil_of_mem ((mem_getViolations_default _ anyType v).mpr ⟨h1, rfl, h3, h4, h5⟩)

theorem unfilteredTmpPrs_pos (f : File) : unfilteredTmpPrs f > 0 ↔ ∃ v ∈ f.viols, v.isTmpPrs = true := by
  unfold unfilteredTmpPrs count
  show 0 < _ ↔ _
  rw [List.length_pos_iff]
  constructor
  · intro h
    obtain ⟨v, hv⟩ := List.exists_mem_of_ne_nil _ h
    exact ⟨v, (mem_getViolations_unfiltered _ _ v).mp hv⟩
  · rintro ⟨v, h1, h2⟩
    exact List.ne_nil_of_mem ((mem_getViolations_unfiltered _ _ v).mpr ⟨h1, h2⟩)

end SqlfluffVerif.Exit

namespace SqlfluffVerif.Exit

theorem sum_zero_of_all (l : List Nat) (h : ∀ x ∈ l, x = 0) : l.sum = 0 := by
  induction l with
  | nil => rfl
  | cons a as ih =>
    simp only [List.sum_cons]
    rw [h a (by simp), ih (fun x hx => h x (by simp [hx]))]

theorem count_fixable_zero (vs : List Viol) (h : ∀ v ∈ vs, v.kind = 3 → v.hasFixes = false)
    (hnf : ∀ v ∈ vs, v.fatal = false) : count vs isLint true false (some true) = 0 := by
  unfold count getViolations
  simp only [if_true, Bool.false_eq_true, if_false, List.length_eq_zero_iff, List.filter_eq_nil_iff,
    List.mem_filter]
  rintro v ⟨⟨⟨hv, h1⟩, h2⟩, _⟩
  simp only [isLint, beq_iff_eq] at h1
  have e1 := h v hv h1
  have e2 := hnf v hv
  simp [Viol.fixable, h1, e1, e2] at h2

end SqlfluffVerif.Exit
