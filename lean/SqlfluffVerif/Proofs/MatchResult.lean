import SqlfluffVerif.Model.MatchResult
/-! Helper lemmas for C02/C03 (core Lean only). -/
namespace SqlfluffVerif.MatchResult

/-! ### leaves -/

@[simp] theorem leavesL_nil : leavesL [] = [] := rfl

@[simp] theorem leavesL_cons (t : Tree) (ts : List Tree) : leavesL (t :: ts) = leaves t ++ leavesL ts := rfl

@[simp] theorem leavesL_append (a b : List Tree) : leavesL (a ++ b) = leavesL a ++ leavesL b := by
  induction a with
  | nil => simp
  | cons t ts ih => simp [ih, List.append_assoc]

@[simp] theorem leaves_tok (i : Nat) : leaves (Tree.tok i) = [i] := rfl
@[simp] theorem leaves_ins (k p : Nat) : leaves (Tree.ins k p) = [] := rfl
@[simp] theorem leaves_node (c : Nat) (ch : List Tree) : leaves (Tree.node c ch) = leavesL ch := rfl

theorem leavesL_map_tok (l : List Nat) : leavesL (l.map Tree.tok) = l := by
  induction l with
  | nil => rfl
  | cons x xs ih => simp [ih]

@[simp] theorem leavesL_toks (a b : Nat) : leavesL (toks a b) = List.range' a (b - a) := by
  simp [toks, leavesL_map_tok]

theorem leavesL_map_ins (ins : List (Nat × Nat)) :
    leavesL (ins.map (fun i => Tree.ins i.2 i.1)) = [] := by
  induction ins with
  | nil => rfl
  | cons x xs ih => simp [ih]

theorem range'_split (a b c : Nat) (h1 : a ≤ b) (h2 : b ≤ c) :
    List.range' a (b - a) ++ List.range' b (c - b) = List.range' a (c - a) := by
  have : c - a = (b - a) + (c - b) := by omega
  rw [this, ← List.range'_append_1]
  congr 2; omega

/-! ### stable sort by key -/

theorem mem_insertByKey {α} (x y : Nat × α) (l : List (Nat × α)) :
    y ∈ insertByKey x l ↔ y = x ∨ y ∈ l := by
  induction l with
  | nil => simp [insertByKey]
  | cons z zs ih =>
    simp only [insertByKey]
    split
    · simp
    · simp only [List.mem_cons, ih]
      constructor
      · rintro (h | h | h)
        · exact Or.inr (Or.inl h)
        · exact Or.inl h
        · exact Or.inr (Or.inr h)
      · rintro (h | h | h)
        · exact Or.inr (Or.inl h)
        · exact Or.inl h
        · exact Or.inr (Or.inr h)

theorem mem_sortByKey {α} (y : Nat × α) (l : List (Nat × α)) : y ∈ sortByKey l ↔ y ∈ l := by
  induction l with
  | nil => simp [sortByKey]
  | cons x xs ih =>
    simp only [sortByKey, List.foldr_cons] at ih ⊢
    rw [mem_insertByKey, ih]; simp

theorem insertByKey_map {α β} (f : α → β) (x : Nat × α) (l : List (Nat × α)) :
    (insertByKey x l).map (fun t => (t.1, f t.2)) =
      insertByKey (x.1, f x.2) (l.map (fun t => (t.1, f t.2))) := by
  induction l with
  | nil => simp [insertByKey]
  | cons y ys ih =>
    simp only [insertByKey, List.map_cons]
    split <;> simp [ih]

theorem sortByKey_map {α β} (f : α → β) (l : List (Nat × α)) :
    (sortByKey l).map (fun t => (t.1, f t.2)) = sortByKey (l.map (fun t => (t.1, f t.2))) := by
  induction l with
  | nil => simp [sortByKey]
  | cons x xs ih =>
    simp only [sortByKey, List.foldr_cons, List.map_cons] at ih ⊢
    rw [insertByKey_map, ih]

/-! ### the trigger loop -/

/-- span of a trigger: `(idx, stop after it)`; the payload-only part -/
def spanOf (idx : Nat) : Trig → Nat
  | .ins _ => idx
  | .child cstop _ => cstop

def spans (l : List (Nat × Trig)) : List (Nat × Nat) := l.map (fun t => (t.1, spanOf t.1 t.2))

/-- a child trigger carries exactly the tokens of its span -/
def TrigOK (t : Nat × Trig) : Prop :=
  match t.2 with
  | .ins _ => True
  | .child cstop trees => leavesL trees = List.range' t.1 (cstop - t.1)

theorem runTriggers_ok (n stop : Nat) (hn : stop ≤ n) (trigs : List (Nat × Trig)) :
    ∀ (mx : Nat) (cur : Option Nat) (acc : List Tree),
      chainOK mx stop (spans trigs) = true →
      (∀ t ∈ trigs, TrigOK t) →
      (∀ i, cur = some i → i ≤ mx) →
      ∃ res, runTriggers n stop mx cur trigs acc = .ok res ∧
        leavesL res = leavesL acc ++ List.range' mx (stop - mx) := by
  induction trigs with
  | nil =>
    intro mx cur acc hc _ _
    simp only [spans, List.map_nil, chainOK, decide_eq_true_eq] at hc
    simp only [runTriggers]
    split
    · exact ⟨_, rfl, by simp⟩
    · have : stop - mx = 0 := by omega
      exact ⟨_, rfl, by simp [this]⟩
  | cons t rest ih =>
    intro mx cur acc hc hok hcur
    obtain ⟨idx, tr⟩ := t
    simp only [spans, List.map_cons, chainOK, Bool.and_eq_true, decide_eq_true_eq] at hc
    obtain ⟨⟨h1, h2⟩, h3⟩ := hc
    have hrest : ∀ t ∈ rest, TrigOK t := fun t ht => hok t (List.mem_cons_of_mem _ ht)
    have hthis := hok (idx, tr) (by simp)
    -- the stop of the remaining chain bounds everything by `stop`
    have hle : ∀ (l : List (Nat × Nat)) (lo : Nat), chainOK lo stop l = true → lo ≤ stop := by
      intro l
      induction l with
      | nil => intro lo h; simpa [chainOK] using h
      | cons p ps ihp =>
        intro lo h
        obtain ⟨i, e⟩ := p
        simp only [chainOK, Bool.and_eq_true, decide_eq_true_eq] at h
        have := ihp e h.2; omega
    have hspan_le : spanOf idx tr ≤ stop := hle _ _ h3
    have hidx_n : idx ≤ n := by omega
    -- unify the three non-error branches: after the optional gap fill, mx' = idx
    have key : ∀ (acc' : List Tree), leavesL acc' = leavesL acc ++ List.range' mx (idx - mx) →
        ∃ res, (match tr with
          | .ins k => if idx > n then Except.error Err.outOfBounds
                      else runTriggers n stop idx (some idx) rest (acc' ++ [Tree.ins k idx])
          | .child cstop trees => runTriggers n stop cstop (some idx) rest (acc' ++ trees)) = .ok res ∧
          leavesL res = leavesL acc ++ List.range' mx (stop - mx) := by
      intro acc' hacc'
      cases tr with
      | ins k =>
        simp only [spanOf] at h2 h3 hspan_le
        have : ¬ idx > n := by omega
        simp only [this, if_false]
        obtain ⟨res, hr, hl⟩ := ih idx (some idx) (acc' ++ [Tree.ins k idx]) h3 hrest
          (by intro i hi; cases hi; exact Nat.le_refl _)
        refine ⟨res, hr, ?_⟩
        rw [hl]; simp only [leavesL_append, leavesL_cons, leaves_ins, leavesL_nil, List.append_nil, hacc']
        rw [List.append_assoc, range'_split mx idx stop h1 (by omega)]
      | child cstop trees =>
        simp only [spanOf] at h2 h3 hspan_le
        simp only [TrigOK] at hthis
        obtain ⟨res, hr, hl⟩ := ih cstop (some idx) (acc' ++ trees) h3 hrest
          (by intro i hi; cases hi; exact h2)
        refine ⟨res, hr, ?_⟩
        rw [hl]; simp only [leavesL_append, hacc', hthis]
        rw [List.append_assoc, List.append_assoc, range'_split idx cstop stop h2 hspan_le,
          range'_split mx idx stop h1 (by omega)]
    simp only [runTriggers]
    by_cases hcur' : cur = some idx
    · have hmx : mx = idx := by have := hcur idx hcur'; omega
      subst hmx
      simp only [hcur', beq_self_eq_true, if_true]
      exact key acc (by simp)
    · have hb : (cur == some idx) = false := by
        cases cur with
        | none => rfl
        | some c =>
          have : c ≠ idx := fun h => hcur' (by rw [h])
          simp [this]
      simp only [hb, Bool.false_eq_true, if_false]
      by_cases hgt : idx > mx
      · simp only [hgt, if_true]
        exact key (acc ++ toks mx idx) (by simp)
      · have hmx : mx = idx := by omega
        subst hmx
        simp only [hgt, if_false, Nat.lt_irrefl]
        exact key acc (by simp)

/-! ### children -/

theorem mapTrigs_ok (g : MR → Except Err (List Tree)) (ch : List MR)
    (h : ∀ c ∈ ch, ∃ ts, g c = .ok ts ∧ leavesL ts = List.range' c.start (c.stop - c.start)) :
    ∃ r, mapTrigs g ch = .ok r ∧ spans r = ch.map (fun c => (c.start, c.stop)) ∧ ∀ t ∈ r, TrigOK t := by
  induction ch with
  | nil => exact ⟨[], rfl, rfl, by simp⟩
  | cons c cs ih =>
    obtain ⟨ts, hts, hl⟩ := h c (by simp)
    obtain ⟨r, hr, hs, hok⟩ := ih (fun c' hc' => h c' (List.mem_cons_of_mem _ hc'))
    refine ⟨(c.start, Trig.child c.stop ts) :: r, by simp [mapTrigs, hts, hr], ?_, ?_⟩
    · simp only [spans, List.map_cons, spanOf] at hs ⊢; rw [hs]
    · intro t ht
      rcases List.mem_cons.mp ht with h' | h'
      · subst h'; simpa [TrigOK] using hl
      · exact hok t h'

theorem spans_insTrigs (ins : List (Nat × Nat)) :
    spans (insTrigs ins) = ins.map (fun i => (i.1, i.1)) := by
  simp [spans, insTrigs, spanOf, List.map_map, Function.comp_def]

theorem spans_sort (l : List (Nat × Trig)) : spans (sortByKey l) = sortByKey (spans l) := by
  -- `spans` keeps the key and maps the payload, but the payload map depends on the key;
  -- go through insertion directly.
  have hins : ∀ (x : Nat × Trig) (l : List (Nat × Trig)),
      spans (insertByKey x l) = insertByKey (x.1, spanOf x.1 x.2) (spans l) := by
    intro x l
    induction l with
    | nil => simp [insertByKey, spans]
    | cons y ys ih =>
      simp only [insertByKey, spans, List.map_cons] at ih ⊢
      split <;> simp [ih]
  induction l with
  | nil => simp [sortByKey, spans]
  | cons x xs ih =>
    simp only [sortByKey, List.foldr_cons] at ih ⊢
    rw [hins, ih]; simp [spans]

end SqlfluffVerif.MatchResult

namespace SqlfluffVerif.MatchResult

theorem lastCodeEnd_go_bounds (codes : List Bool) (st : Nat) :
    ∀ e, st ≤ e → st ≤ lastCodeEnd.go codes st e ∧ lastCodeEnd.go codes st e ≤ e := by
  intro e
  induction e with
  | zero => intro h; simp [lastCodeEnd.go]; omega
  | succ e ih =>
    intro h
    simp only [lastCodeEnd.go]
    split
    · omega
    · split
      · omega
      · have := ih (by omega); omega

theorem lastCodeEnd_bounds (codes : List Bool) (st : Nat) (h : st ≤ codes.length) :
    st ≤ lastCodeEnd codes st ∧ lastCodeEnd codes st ≤ codes.length := by
  unfold lastCodeEnd
  exact lastCodeEnd_go_bounds codes st codes.length h

theorem firstCode_le (codes : List Bool) : firstCode codes ≤ codes.length := by
  unfold firstCode
  split
  · rename_i i h
    have := List.findIdx?_eq_some_iff_getElem.mp h
    obtain ⟨hlt, _⟩ := this
    omega
  · omega

theorem unmatchedSplit_bounds (codes : List Bool) (stop e : Nat) (h : stop < e) :
    stop ≤ unmatchedSplit codes stop e ∧ unmatchedSplit codes stop e ≤ e := by
  unfold unmatchedSplit
  split
  · rename_i i hi
    have := List.mem_of_find?_eq_some hi
    simp only [List.mem_range'_1] at this
    omega
  · omega

theorem range'_three (s e n : Nat) (h1 : s ≤ e) (h2 : e ≤ n) :
    List.range' 0 (s - 0) ++ (List.range' s (e - s) ++ List.range' e (n - e)) = List.range' 0 (n - 0) := by
  rw [range'_split s e n h1 h2, range'_split 0 s n (Nat.zero_le _) (by omega)]

end SqlfluffVerif.MatchResult

namespace SqlfluffVerif.MatchResult
theorem wfF_start_le (n f : Nat) (m : MR) (h : wfF n f m = true) : m.start ≤ m.stop ∧ m.stop ≤ n := by
  cases f with
  | zero => simp [wfF] at h
  | succ f =>
    obtain ⟨s, e, c, i, ch⟩ := m
    simp only [wfF, Bool.and_eq_true, decide_eq_true_eq] at h
    exact ⟨h.1.1.1, h.1.1.2⟩
end SqlfluffVerif.MatchResult
