/-! Small list utilities shared by the proof files (core Lean only). -/
namespace SqlfluffVerif.Util

theorem rev_induction {α : Type _} {motive : List α → Prop}
    (nil : motive []) (snoc : ∀ (l : List α) (a : α), motive l → motive (l ++ [a]))
    (l : List α) : motive l := by
  have h : ∀ (r : List α), motive r.reverse := by
    intro r
    induction r with
    | nil => simpa using nil
    | cons a r ih => simpa using snoc _ a ih
  simpa using h l.reverse

theorem takeWhile_all {α : Type _} (p : α → Bool) (l : List α) (h : ∀ x ∈ l, p x = true) :
    l.takeWhile p = l := by
  induction l with
  | nil => rfl
  | cons x xs ih =>
    simp only [List.takeWhile, h x (by simp)]
    rw [ih (fun y hy => h y (by simp [hy]))]

theorem takeWhile_length_le {α : Type _} (p : α → Bool) (l : List α) :
    (l.takeWhile p).length ≤ l.length :=
  (List.takeWhile_sublist p).length_le

theorem takeWhile_append_of {α : Type _} (p : α → Bool) (a b : List α)
    (ha : ∀ x ∈ a, p x = true) (hb : ∀ x ∈ b, p x = false) :
    (a ++ b).takeWhile p = a := by
  rw [List.takeWhile_append_of_pos ha]
  cases b with
  | nil => simp
  | cons y ys => simp [List.takeWhile, hb y (by simp)]

end SqlfluffVerif.Util
