import SqlfluffVerif.Driver.Proto
import SqlfluffVerif.Driver.Pos
import SqlfluffVerif.Driver.Patch
import SqlfluffVerif.Driver.Dedupe
import SqlfluffVerif.Driver.Noqa
import SqlfluffVerif.Driver.Select
import SqlfluffVerif.Driver.MatchResult
import SqlfluffVerif.Driver.TreeSpec
import SqlfluffVerif.Driver.Lexer
import SqlfluffVerif.Driver.LexSpec
import SqlfluffVerif.Driver.Slices
import SqlfluffVerif.Driver.Exit
import SqlfluffVerif.Driver.Discovery
import SqlfluffVerif.Driver.WritePath
import SqlfluffVerif.Driver.Config
import SqlfluffVerif.Driver.Serialise
import SqlfluffVerif.Driver.Edits
import SqlfluffVerif.Driver.FixLoop
import SqlfluffVerif.Driver.ParseOpt
import SqlfluffVerif.Driver.Guard
import SqlfluffVerif.Driver.Funnel
import SqlfluffVerif.Driver.Sql
import SqlfluffVerif.Driver.Shared
import SqlfluffVerif.Driver.IterSeg
import SqlfluffVerif.Driver.Skel
import SqlfluffVerif.Driver.Rectify
open SqlfluffVerif SqlfluffVerif.Proto SqlfluffVerif.Driver

def handlers : List (List String → Option String) := [handlePos, handlePatch, handleDedupe, handleNoqa, handleSelect, handleMR, handleTreeSpec, handleLexer, handleLexSpec, handleSlices, handleExit, handleDiscovery, handleWritePath, handleConfig, handleSerialise, handleEdits, handleFixLoop, handleParseOpt, handleGuard, handleFunnel, handleSql, handleShared, handleIterSeg, handleSkel, handleRectify]

def handle (toks : List String) : String :=
  match toks with
  | ["echo", s] => showNatList (natList s)
  | _ =>
    match handlers.findSome? (fun h => h toks) with
    | some r => r
    | none => "err:bad-op"

partial def loop (h : IO.FS.Stream) (out : IO.FS.Stream) : IO Unit := do
  let line ← h.getLine
  if line.isEmpty then return ()
  let l := (line.trimAsciiEnd.toString)
  out.putStrLn (handle (l.splitOn " "))
  loop h out

def main : IO Unit := do
  let i ← IO.getStdin
  let o ← IO.getStdout
  loop i o
