import SqlfluffVerif.Driver.Proto
import SqlfluffVerif.Model.Pos
open SqlfluffVerif SqlfluffVerif.Proto

def handle (toks : List String) : String :=
  match toks with
  | ["echo", s] => showNatList (natList s)
  | ["pos.linepos", s, p] =>
      let r := Pos.linePos (natList s) p.toNat!
      s!"{r.1} {r.2}"
  | ["pos.nls", s] => showNatList (Pos.newlineIndices (natList s))
  | ["pos.infer", raw, l, c] =>
      let r := Pos.inferNext (natList raw) l.toNat! c.toNat!
      s!"{r.1} {r.2}"
  | ["pos.walk", s, p] =>
      let r := Pos.walk ((natList s).take p.toNat!) (1, 1)
      s!"{r.1} {r.2}"
  | _ => "err:bad-op"

partial def loop (h : IO.FS.Stream) (out : IO.FS.Stream) : IO Unit := do
  let line ← h.getLine
  if line.isEmpty then return ()
  let l := (line.dropRightWhile (fun c => c = '\n' || c = '\r'))
  out.putStrLn (handle (l.splitOn " "))
  loop h out

def main : IO Unit := do
  let i ← IO.getStdin
  let o ← IO.getStdout
  loop i o
