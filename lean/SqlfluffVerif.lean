import SqlfluffVerif.Model.Pos
