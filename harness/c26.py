"""C26 — writing fixed files is atomic and faithful.

Theorems: Props/C26.lean (every fault position: target old-or-new, no temp file after an exception, faithful success,
original untouched with a suffix). Tie: fault enumeration on the real LintedFile._safe_create_replace_file: every
file-system operation of the write path is made to raise (OSError / KeyboardInterrupt) or the process to die there
(forked child), the directory is inspected afterwards and compared with the model; plus end-to-end fixes through
lint_paths for permissions, BOM and suffix.
"""
import json
import os
import shutil
import stat
import tempfile

PROP = "C26"
STEPS = ["stat", "mkstemp", "write", "flush", "fsync", "close", "chmod", "move"]


class Boom(Exception):
    pass


def inject(step, action):
    """Context manager patching the operation at `step` to perform `action()` (raise or die) instead."""
    import contextlib
    import sqlfluff.core.linter.linted_file as lfm

    @contextlib.contextmanager
    def cm():
        saved = []
        def patch(obj, name, new):
            saved.append((obj, name, getattr(obj, name)))
            setattr(obj, name, new)
        real_ntf = tempfile.NamedTemporaryFile
        real_stat = os.stat
        try:
            if step == 0:
                def fstat(p, *a, **k):
                    if str(p).endswith(".sql") and not os.path.basename(str(p)).startswith("tmpmark"):
                        action()
                    return real_stat(p, *a, **k)
                patch(lfm.os, "stat", fstat)
            if step in (1, 2, 3, 5):
                def ntf(*a, **k):
                    if step == 1:
                        action()
                    f = real_ntf(*a, **k)

                    class FileProxy:
                        def write(self_, data):
                            if step == 2:
                                f.file.write(data[: len(data) // 2]); f.file.flush()
                                action()
                            return f.file.write(data)

                    class Proxy:
                        name = f.name
                        file = FileProxy()
                        def flush(self_):
                            if step == 3:
                                action()
                            return f.flush()
                        def fileno(self_):
                            return f.fileno()
                        def __enter__(self_):
                            f.__enter__(); return self_
                        def __exit__(self_, *exc):
                            r = f.__exit__(*exc)
                            if step == 5 and exc[0] is None:
                                action()
                            return r
                    return Proxy()
                patch(lfm.tempfile, "NamedTemporaryFile", ntf)
            if step == 4:
                patch(lfm.os, "fsync", lambda fd: action())
            if step == 6:
                patch(lfm.os, "chmod", lambda *a, **k: action())
            if step == 7:
                patch(lfm.shutil, "move", lambda *a, **k: action())
            yield
        finally:
            for obj, name, old in reversed(saved):
                setattr(obj, name, old)
    return cm()


def snapshot(d, target, inp):
    files = sorted(os.listdir(d))
    def rd(p):
        if not os.path.exists(p):
            return None
        return (open(p, "rb").read(), stat.S_IMODE(os.stat(p).st_mode))
    extra = [f for f in files if os.path.join(d, f) not in (target, inp)]
    return {"target": rd(target), "input": rd(inp) if inp else None, "extra": extra}


def one_case(target_exists, mode, suffix, fault_kind, step, exc_type, encoding):
    from sqlfluff.core.linter.linted_file import LintedFile
    d = tempfile.mkdtemp(prefix="verif_c26_")
    try:
        old = "SELECT 1  -- é old\n"
        new = "SELECT 2 -- é new\n"
        orig = "SELECT 3 -- orig\n"
        inp = os.path.join(d, "in.sql")
        target = os.path.join(d, "in_fixed.sql") if suffix else inp
        if suffix:
            open(inp, "w", encoding=encoding).write(orig); os.chmod(inp, mode)
            if target_exists:
                open(target, "w", encoding=encoding).write(old); os.chmod(target, 0o600)
        elif target_exists:
            open(inp, "w", encoding=encoding).write(old); os.chmod(inp, mode)
        outcome = "ok"
        def act_raise():
            raise exc_type("injected")
        if fault_kind == 2:
            pid = os.fork()
            if pid == 0:
                try:
                    with inject(step, lambda: os._exit(7)):
                        LintedFile._safe_create_replace_file(inp, target, new, encoding)
                finally:
                    os._exit(0)
            _, status = os.waitpid(pid, 0)
            outcome = "died" if os.WEXITSTATUS(status) == 7 else "ok"
        else:
            try:
                if fault_kind == 1:
                    with inject(step, act_raise):
                        LintedFile._safe_create_replace_file(inp, target, new, encoding)
                else:
                    LintedFile._safe_create_replace_file(inp, target, new, encoding)
            except BaseException as e:
                outcome = "raised" if isinstance(e, exc_type) else "raised-other:%s" % type(e).__name__
        snap = snapshot(d, target, inp if suffix else None)
        enc = lambda s: s.encode(encoding)
        return snap, outcome, {"old": enc(old), "new": enc(new), "orig": enc(orig)}
    finally:
        shutil.rmtree(d, ignore_errors=True)


def run(ctx, prove=True):
    ctx.rule = ("every write-path operation (stat, mkstemp, write, flush, fsync, close, chmod, move) x {raise OSError, raise KeyboardInterrupt, process death} "
                "+ no fault, x target exists/not x suffix/in-place x modes x encodings (utf-8, utf-8-sig, latin-1); exhaustive over the fault space; "
                "non-trivial = a fault is injected; distinct by full configuration")
    if prove:
        ctx.prove(["SqlfluffVerif.Props.C26"], ["Props/C26.lean"])
    ctx.assumptions += ["rename inside one directory is atomic; shutil.move does not fall back to copy (temp file is created next to the target)",
                        "fsync durability and power loss are not modelled; a process death may leave the temp file (the property forbids it only for failed writes)"]
    lines, meta = [], []
    combos = []
    for target_exists in (True, False):
        for suffix in (False, True):
            if not suffix and not target_exists and False:
                continue
            for (fk, step, et) in [(0, 0, None)] + [(1, s, OSError) for s in range(8)] + [(1, s, KeyboardInterrupt) for s in (2, 4, 7)] + [(2, s, None) for s in range(8)]:
                combos.append((target_exists, suffix, fk, step, et))
    modes = [0o644, 0o600, 0o755]
    encs = ["utf-8", "utf-8-sig", "latin-1"]
    for i, (target_exists, suffix, fk, step, et) in enumerate(combos):
        if fk == 2 and ctx.quick() and (i % 2):
            continue  # forks are slower; half of the death cases per quick run (all in thorough)
        mode = modes[i % 3]; enc = encs[(i // 3) % 3]
        if not suffix and not target_exists and step == 0 and fk != 0:
            pass
        try:
            snap, outcome, c = one_case(target_exists, mode, suffix, fk, step, et or OSError, enc)
        except Exception as e:
            ctx.bump("case_failed:" + type(e).__name__); continue
        case = {"target_exists": target_exists, "mode": oct(mode), "suffix": suffix, "fault": ["none", "exception", "death"][fk],
                "step": STEPS[step], "exc": et.__name__ if et else None, "encoding": enc}
        ctx.count(json.dumps(case, sort_keys=True), nontrivial=fk != 0, sample=dict(case, outcome=outcome, extra=snap["extra"]) if fk and len(ctx.samples) < 5 else None)
        ctx.bump(case["fault"])
        tgt = snap["target"]
        # property, directly
        olds = None if not target_exists else c["old"]
        if tgt is None:
            if target_exists:
                ctx.violation("the target file disappeared", case)
        elif tgt[0] not in ((olds,) if olds is not None else ()) + (c["new"],):
            ctx.violation("the target holds neither its complete original nor the complete new content", dict(case, content=repr(tgt[0][:60])))
        if fk == 1 and snap["extra"]:
            ctx.violation("a failed write left a temporary file behind", dict(case, left=snap["extra"]))
        if fk == 0:
            src_mode = mode if (suffix or target_exists) else None
            if tgt is None or tgt[0] != c["new"]:
                ctx.violation("a successful write did not produce the new content", case)
            elif src_mode is not None and tgt[1] != src_mode:
                ctx.violation("a successful write did not keep the file's permissions", dict(case, got=oct(tgt[1])))
            if enc == "utf-8-sig" and tgt and not tgt[0].startswith(b"\xef\xbb\xbf"):
                ctx.violation("a successful write dropped the UTF-8 BOM", case)
        if suffix and (snap["input"] is None or snap["input"][0] != c["orig"]):
            ctx.violation("with a fixed-file suffix the original file was modified", case)
        # model correspondence (only when the fault actually fired; a step that is skipped, e.g. chmod without a source mode, cannot fire)
        tmode = 0o600 if suffix else mode
        lines.append("wp.run %d %d %d %d %d %d" % (1 if target_exists else 0, tmode, 1 if suffix else 0, mode, fk, step))
        def tok(x, m):
            return "none" if x is None else "%d:%d" % (m[x[0]], x[1])
        cm = {c["old"]: 1, c["new"]: 2, c["orig"]: 3}
        real = "%s %s %s %s" % ("none" if tgt is None else ("%d:%d" % (cm.get(tgt[0], 9), tgt[1])),
                                "none" if not suffix else ("%d:%d" % (cm.get(snap["input"][0], 9), snap["input"][1]) if snap["input"] else "missing"),
                                "tmp" if snap["extra"] else "none", outcome)
        meta.append((case, real))
    outs = ctx.driver.run(lines)
    for (case, real), out in zip(meta, outs):
        t = out.split(" ")
        model = "%s %s %s %s" % (t[0], t[1], "tmp" if t[2] != "none" else "none", t[3])
        if model != real:
            ctx.corr_fail("_safe_create_replace_file fault trace", {"case": case, "real": real, "model": model})
    e2e(ctx)


def e2e(ctx):
    """Through lint_paths(fix=True): permissions, BOM, suffix."""
    from sqlfluff.core import Linter, FluffConfig
    for enc, suffix, mode in [("utf-8", "", 0o640), ("utf-8-sig", "", 0o644), ("utf-8-sig", "_fixed", 0o600), ("utf-8", "_fixed", 0o755)]:
        d = tempfile.mkdtemp(prefix="verif_c26e_")
        try:
            p = os.path.join(d, "q.sql")
            src = "SELECT a  FROM t\n"
            open(p, "w", encoding=enc, newline="").write(src); os.chmod(p, mode)
            cfg = FluffConfig(overrides={"dialect": "ansi", "rules": "LT01", "encoding": enc})
            Linter(config=cfg).lint_paths((p,), fix=True, apply_fixes=True, fixed_file_suffix=suffix)
            out = os.path.join(d, "q_fixed.sql") if suffix else p
            case = {"encoding": enc, "suffix": suffix, "mode": oct(mode)}
            ctx.count(("e2e", json.dumps(case)), nontrivial=True)
            if not os.path.exists(out):
                ctx.violation("fix did not write the output file", case); continue
            data = open(out, "rb").read()
            want = "SELECT a FROM t\n".encode(enc)
            if data != want:
                ctx.violation("fixed file content/encoding is not faithful (BOM or bytes differ)", dict(case, got=repr(data[:40])))
            if stat.S_IMODE(os.stat(out).st_mode) != mode:
                ctx.violation("fixed file lost its permissions", dict(case, got=oct(stat.S_IMODE(os.stat(out).st_mode))))
            if suffix and open(p, "rb").read() != src.encode(enc):
                ctx.violation("with a suffix the original file was modified", case)
            if [f for f in os.listdir(d) if f not in ("q.sql", "q_fixed.sql")]:
                ctx.violation("stray files after a successful fix", dict(case, files=os.listdir(d)))
        finally:
            shutil.rmtree(d, ignore_errors=True)


def search(ctx):
    saved = (list(ctx.proof_broken), list(ctx.corr_broken), list(ctx.contract_fail))
    run(ctx, prove=False)
    ctx.proof_broken, ctx.corr_broken, ctx.contract_fail = saved


def replay(ctx, path):
    case = json.load(open(path))["case"]
    print(json.dumps(case, indent=1))
    return 0
