"""C10 — fixes never edit template code.

Theorems: Props/C10.lean over Model/TemplateGuard.lean + Model/Patch.lean: a patch that passes the filter of
`generate_source_patches` (and is not an explicit source fix) touches no non-literal raw slice; hence the rebuilt file
contains every tag/expression/comment/parameter verbatim and in order.

Tie: (a) the filter model (`raw_slices_spanning_source_slice`, keep/skip, dedupe, sort) is run against the real
`generate_source_patches` on real templated files with synthetic patch streams (its patch iterator is replaced);
(b) contract RawSlicesTile on every real templated file; (c) the end-to-end statement on real `fix` runs: the non-literal
raw slices of the source and of the fixed file are equal, in order (whitespace inside tags ignored only when the
tag-padding rule JJ01 is enabled) — jinja (inline and block style, empty-rendering expressions glued to code), python and
placeholder templaters, rule sets all / layout / capitalisation.
"""
import json
import re
import sys

from vlib import fixchecks, fixrun, gen
from vlib.core import enc_nats, enc_nnl

PROP = "C10"
WHAT = "a template tag, expression, comment or parameter of the source is changed, lost or reordered by fix"


def glued_template(rng):
    """Expressions that render to nothing / set-blocks written directly against code tokens; whitespace-control tags."""
    ctx = {"empty": "", "cols": ["a", "b"], "t": "tbl", "flag": True, "name": "x"}
    e = lambda: rng.choice(["{{ empty }}", "{% set v = 1 %}", "{{ empty }}", "{#c#}", "{{- empty }}", "{{ empty -}}", "{%- if flag %}", "{% if flag -%}"])
    close = {"{%- if flag %}": "{% endif %}", "{% if flag -%}": "{%- endif %}"}
    parts = []
    opened = []
    def tag():
        t = e()
        if t in close:
            opened.append(close[t])
        return t
    parts.append(rng.choice(["SELECT ", "select  ", "SELECT\n    "]))
    parts.append(rng.choice(["a,", "a ,", "a,  ", "a"]))
    parts.append(tag())
    parts.append(rng.choice(["b", "b ", " b", ",b"]))
    while opened:
        parts.append(opened.pop())
    parts.append(rng.choice([" FROM t ", "\nfrom t ", " from  t"]))
    parts.append(tag())
    parts.append(rng.choice(["WHERE a=1", "where a = 1", " WHERE  a = 1"]))
    while opened:
        parts.append(opened.pop())
    # endings: template code directly before surplus trailing blanks / blank lines (where LT01/LT12 delete whitespace)
    if rng.random() < 0.5:
        parts.append(rng.choice(["", " ", "\n  ", "\n"]))
        parts.append(rng.choice(["{% if flag %} and b = 2{% endif %}", "{# trailing comment #}", "{{ empty }}", "{{ undefined_thing }}", "{{ '' }}"]))
        parts.append(rng.choice(["", "   ", " "]))
    parts.append(rng.choice(["\n", "", "\n\n", "\n\n\n"]))
    return "".join(parts), ctx


def other_templaters(rng):
    """(sql, templater tuple)"""
    r = rng.random()
    if r < 0.5:
        style, mk = rng.choice([("colon", lambda n: ":" + n), ("dollar", lambda n: "$" + n), ("percent", lambda n: "%(" + n + ")s"),
                                ("at", lambda n: "@" + n), ("question_mark", lambda n: "?"), ("pyformat", lambda n: "%(" + n + ")s")])
        a, b, c = mk("p1"), mk("p2"), mk("tbl")
        sql = rng.choice(["SELECT a  ,b FROM t WHERE x = %s  AND y=%s\n", "select a from t where x=%s and y IN (%s ,%s)\n",
                          "SELECT  %s AS v,\n b FROM t\nWHERE c = %s\n", "SELECT a FROM t WHERE x = %s\n\n\n"]) 
        n = sql.count("%s")
        sql = sql % tuple([a, b, c][:n])
        return sql, ("placeholder", {"param_style": style})
    ctxp = {"foo": "a", "bar": "tbl", "n": 1}
    sql = rng.choice(["SELECT {foo}  ,b FROM {bar}\n", "select {foo} from {bar} where x={n}\n", "SELECT  {foo} AS v FROM {bar}  WHERE {foo} = {n}\n"])
    return sql, ("python", {"context": ctxp})


def guard_correspondence(ctx, n):
    import sqlfluff.core.linter.patch as pm
    from sqlfluff.core import Linter, FluffConfig
    from sqlfluff.core.linter.patch import FixPatch
    rng = ctx.rng
    lines, meta = [], []
    orig_iter = pm._iter_templated_patches
    try:
        for k in range(n):
            tpl, jctx = glued_template(rng) if k % 3 == 0 else (gen.jinja_block_template(rng) if k % 3 == 1 else gen.jinja_template(rng))
            lnt = Linter(config=fixrun.make_config("ansi", "all", jctx))
            try:
                rendered = lnt.render_string(tpl, fname="t.sql", config=lnt.config, encoding="utf-8")
                tf = rendered.templated_variants[0]
            except Exception:
                ctx.bump("render_failed"); continue
            rs = tf.raw_sliced
            tiled = all(r.source_idx == sum(len(x.raw) for x in rs[:i]) and len(r.raw) > 0 for i, r in enumerate(rs))
            ctx.contract("RawSlicesTile", tiled, {"template": tpl})
            if not tiled or not rs:
                continue
            n_src = len(tf.source_str)
            bounds = sorted({r.source_idx for r in rs} | {n_src})
            ps = []
            for _ in range(rng.randint(1, 8)):
                a = rng.choice(bounds) + rng.choice([0, 0, 0, 1, -1, 2]) if rng.random() < 0.7 else rng.randint(0, n_src + 1)
                a = max(0, min(n_src + 1, a))
                b = a if rng.random() < 0.4 else min(n_src + 2, a + rng.choice([1, 2, 3, 5, 8]))
                cat = rng.choice(["literal", "literal", "mid_point", "end_point", "source"])
                raw = rng.choice(["", " ", "\n", "X"])
                ts = rng.randint(0, 5)
                ps.append(FixPatch(slice(ts, ts + rng.choice([0, 0, 1, 3])), raw, cat, slice(a, b), "", ""))
            if rng.random() < 0.4 and ps:
                ps.append(ps[rng.randrange(len(ps))])
            pm._iter_templated_patches = lambda tree, templated_file, _ps=ps: iter(_ps)
            try:
                out = pm.generate_source_patches(None, tf)
                spans = [len(tf.raw_slices_spanning_source_slice(p.source_slice)) for p in ps]
            except Exception as e:
                ctx.bump("generate_raised"); continue
            cats = {"literal": 0, "source": 1, "mid_point": 2, "end_point": 3}
            real = (";".join("%d,%d,%d" % (p.source_slice.start, p.source_slice.stop, cats[p.patch_category]) for p in out) or "~") + " " + enc_nats(spans)
            rsflat = [x for r in rs for x in (r.source_idx, len(r.raw), 1 if r.slice_type == "literal" else 0)]
            lines.append("guard.generate %s %s %s %s %s" % (enc_nats(rsflat), enc_nats(p.source_slice.start for p in ps), enc_nats(p.source_slice.stop for p in ps),
                                                            enc_nats(cats[p.patch_category] for p in ps), enc_nnl([ord(c) for c in p.fixed_raw] for p in ps)))
            meta.append((real, {"template": tpl, "patches": [(p.source_slice.start, p.source_slice.stop, p.patch_category, p.fixed_raw, p.templated_slice.start, p.templated_slice.stop) for p in ps]}))
    finally:
        pm._iter_templated_patches = orig_iter
        if hasattr(sys, "tracebacklimit"):
            del sys.tracebacklimit
    outs = ctx.driver.run(lines)
    for (real, case), out in zip(meta, outs):
        ctx.count(("guard", json.dumps(case, sort_keys=True)), nontrivial=True)
        ctx.bump("guard_streams")
        if out.strip() != real:
            ctx.corr_fail("generate_source_patches filter: model vs real", dict(case, model=out, real=real))


def tags_verdict(rec, ruleset):
    if "src_tags" not in rec or rec.get("fixed_tags") is None:
        return None
    jj = ruleset == "all"
    norm = (lambda t: re.sub(r"\s+", "", t)) if jj else (lambda t: t)
    return [norm(t) for t in rec["src_tags"]] == [norm(t) for t in rec["fixed_tags"]]


def extra_runs(ctx, n):
    import multiprocessing
    rng = ctx.rng
    jobs = []
    for k in range(n):
        if k % 3 == 2:
            sql, tm = other_templaters(rng)
        else:
            sql, c = glued_template(rng) if k % 3 == 0 else gen.jinja_block_template(rng)
            tm = ("jinja", {"context": c})
        jobs.append((sql, tm, rng.choice(["all", "layout", "layout", "capitalisation"])))
    from vlib.par import robust_map
    recs = [r if "dialect" in r else {"raised": "timeout/worker died"} for r in robust_map(_extra, jobs, 14, 300)]
    for (sql, tm, rs), rec in zip(jobs, recs):
        case = {"sql": sql, "templater": tm[0], "templater_config": tm[1], "ruleset": rs}
        ctx.count(("extra", sql, tm[0], rs), nontrivial=bool(rec.get("changed")), sample=case if len(ctx.samples) < 4 and rec.get("changed") else None)
        ctx.bump("extra_" + tm[0]); ctx.bump("extra_changed" if rec.get("changed") else "extra_unchanged")
        if "raised" in rec:
            ctx.bump("extra_raised"); continue
        v = tags_verdict(rec, rs)
        if v is False:
            ctx.violation(WHAT, dict(case, source_tags=rec["src_tags"], fixed_tags=rec["fixed_tags"], fixed=rec.get("fixed", "")[:600]))


def _extra(job):
    import logging
    logging.disable(logging.CRITICAL)
    sql, tm, rs = job
    return fixrun.fix_record("ansi", sql, rs, tm)


def run(ctx, prove=True):
    ctx.rule = ("synthetic patch streams through the real generate_source_patches on real templated files (model vs real) + real fix runs on generated templates "
                "(jinja inline/block/glued empty expressions, python, placeholder styles) and on the jinja slice of the fixed universe; "
                "non-trivial = fix changed the file; distinct by (template, templater, rule set)")
    if prove:
        ctx.prove(["SqlfluffVerif.Props.C10", "SqlfluffVerif.Props.C30"], ["Props/C10.lean"])
    ctx.assumptions += ["RawSlicesTile: raw slices of a templated file tile the source with non-empty pieces (checked on every templated file visited)"]
    ctx.partial += ["which patches the fixed tree yields (_iter_templated_patches) is not modelled: the theorem covers the filter and the rebuild; the end-to-end statement is evaluated on real runs",
                    "explicit source fixes (JJ01) are exempt by the property; whitespace inside tags is ignored only when JJ01 is enabled"]
    guard_correspondence(ctx, ctx.budget(150, 4000))
    extra_runs(ctx, ctx.budget(90, 3000))
    fixchecks.run_universe(ctx, PROP, ["all", "layout"], ctx.budget(60, 10 ** 9), WHAT, ["jinja", "jpad"])


def search(ctx):
    saved = (list(ctx.proof_broken), list(ctx.corr_broken), list(ctx.contract_fail))
    run(ctx, prove=False)
    ctx.proof_broken, ctx.corr_broken, ctx.contract_fail = saved


def replay(ctx, path):
    case = json.load(open(path))["case"]
    print(json.dumps(case, indent=1)[:3000])
    return 0
