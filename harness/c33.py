"""C33 — violations are reported once and in source order.

Theorems: Props/C33.lean (dedupe-by-signature + stable sort, for every violation list).
Tie: correspondence of Model/Dedupe.lean with LintedFile.deduplicate_in_source_space and the
record sort of LintedDir.add on stub violations; end-to-end on looped/conditional jinja templates
(several variants) the property spec is evaluated in Lean on what the real linter reported, using
signatures recomputed independently by this harness from public attributes.
"""
import json

from vlib.core import enc_nats
from vlib import gen

PROP = "C33"


def indep_signature(v):
    """Recompute the source signature from public attributes (not via source_signature())."""
    fixes = getattr(v, "fixes", None) or []
    fix_raws = tuple(tuple(e.raw for e in f.edit) if f.edit else None for f in fixes)
    sfix = []
    for f in fixes:
        for e in (f.edit or []):
            for sf in e.source_fixes:
                sfix.append((sf.edit, sf.source_slice.start, sf.source_slice.stop))
    return (v.rule_code(), v.line_no, v.line_pos, v.desc(), fix_raws, tuple(sfix))


def stub_lists(ctx):
    from sqlfluff.core.errors import SQLBaseError, SQLParseError, SQLLexError, SQLTemplaterError
    rng = ctx.rng
    classes = [SQLBaseError, SQLParseError, SQLLexError, SQLTemplaterError]
    for _ in range(ctx.budget(1500, 30000)):
        n = rng.randint(0, 9)
        vs = []
        for _ in range(n):
            cls = rng.choice(classes)
            vs.append(cls(description=rng.choice(["d1", "d2"]), line_no=rng.randint(1, 3), line_pos=rng.randint(1, 3)))
        yield vs


def run(ctx, prove=True):
    from sqlfluff.core.linter.linted_file import LintedFile
    import sqlfluff.core.linter.linter as lm
    from sqlfluff.core import Linter, FluffConfig
    ctx.rule = ("random stub violation lists (4 error classes x 2 descriptions x 3x3 positions, length<=9) and real violation "
                "lists from generated looped/conditional jinja templates under all rules; non-trivial = the pre-dedupe list has a "
                "duplicate signature or is out of order; distinct by signature/position vector")
    if prove:
        ctx.prove(["SqlfluffVerif.Props.C33"], ["Props/C33.lean"])
    ctx.assumptions += ["sorted() is stable (List.mergeSort)", "set membership of source_signature() = equality of the signature tuple"]
    lines, meta = [], []

    def enc(vs_sig):
        # vs_sig: list of (sig, line, pos, code)
        sigmap, codemap = {}, {}
        sigs = [sigmap.setdefault(s[0], len(sigmap)) for s in vs_sig]
        codes = [codemap.setdefault(s[3], None) for s in vs_sig]
        order = {c: i for i, c in enumerate(sorted(codemap))}
        codes = [order[s[3]] for s in vs_sig]
        return "%s %s %s %s" % (enc_nats(sigs), enc_nats(s[1] for s in vs_sig), enc_nats(s[2] for s in vs_sig), enc_nats(codes))

    def add(vs, real_out, e2e):
        ids = {id(v): i for i, v in enumerate(vs)}
        info = [(indep_signature(v), v.line_no, v.line_pos, v.rule_code()) for v in vs]
        out_uids = [ids.get(id(v), 10 ** 6) for v in real_out]
        e = enc(info)
        sigs = [x[0] for x in info]
        nontriv = len(set(sigs)) < len(sigs) or [(x[1], x[2]) for x in info] != sorted((x[1], x[2]) for x in info)
        ctx.count(("stub" if not e2e else "e2e", [(str(s), l, p) for s, l, p, _ in info]), nontrivial=nontriv,
                  sample={"pre_dedupe": [[c, l, p] for _, l, p, c in info], "reported_idx": out_uids} if nontriv and e2e else None)
        ctx.bump("e2e" if e2e else "stub"); ctx.bump("with_dup" if len(set(sigs)) < len(sigs) else "no_dup")
        lines.append("dedupe.sort " + e); meta.append(("sort", info, out_uids, e2e))
        lines.append("dedupe.spec %s %s" % (e, enc_nats(out_uids))); meta.append(("spec", info, out_uids, e2e))

    for vs in stub_lists(ctx):
        add(vs, LintedFile.deduplicate_in_source_space(list(vs)), False)

    # end-to-end: capture the pre-dedupe list and the final list of real lints
    captured = []
    orig = LintedFile.deduplicate_in_source_space

    def spy(violations):
        out = orig(violations)
        captured.append((list(violations), list(out)))
        return out
    LintedFile.deduplicate_in_source_space = staticmethod(spy)
    recs = []
    try:
        for k in range(ctx.budget(80, 1200)):
            tpl, jctx = gen.jinja_template(ctx.rng) if k % 2 else gen.jinja_block_template(ctx.rng)
            over = {"dialect": "ansi", "templater": "jinja"}
            if k % 4 == 0:
                over["ignore_templated_areas"] = False
            cfg = FluffConfig(overrides=over, configs={"templater": {"jinja": {"context": jctx}}})
            captured.clear()
            try:
                lf = Linter(config=cfg).lint_string(tpl)
            except Exception as e:  # crashes are C04's business
                ctx.bump("lint_raised")
                continue
            for (vs, out) in captured:
                add(vs, out, True)
            # what the user sees must itself be duplicate-free and ordered
            final = lf.get_violations(filter_warning=False)
            sigs = [indep_signature(v) for v in final]
            pos = [(v.line_no, v.line_pos) for v in final]
            if len(set(sigs)) != len(sigs):
                dup = [s for s in sigs if sigs.count(s) > 1][0]
                ctx.violation("a distinct violation is reported twice", {"template": tpl, "context": jctx, "overrides": over, "duplicate": str(dup)})
            if pos != sorted(pos):
                ctx.violation("violations not in source order", {"template": tpl, "context": jctx, "positions": pos})
            from sqlfluff.core.linter.linted_dir import LintedDir
            ld = LintedDir("x", retain_files=False)
            ld.add(lf)
            for rec in ld.as_records():
                keys = [(v["start_line_no"], v["start_line_pos"], v["code"]) for v in rec["violations"]]
                if keys != sorted(keys):
                    ctx.violation("serialised records not sorted by (line, pos, code)", {"template": tpl, "context": jctx, "keys": keys})
                recs.append(keys)
    finally:
        LintedFile.deduplicate_in_source_space = staticmethod(orig)

    outs = ctx.driver.run(lines)
    for (kind, info, out_uids, e2e), out in zip(meta, outs):
        if kind == "sort":
            model = [] if out == "-" else [int(x) for x in out.split(",")]
            if model != out_uids:
                ctx.corr_fail("deduplicate_in_source_space", {"input": [(str(s), l, p) for s, l, p, _ in info], "real": out_uids, "model": model})
        else:
            ok = out.split(" ")
            if ok != ["1", "1", "1", "1"]:
                what = ["reported violation not among inputs", "a distinct violation is reported twice",
                        "violations not in source order", "a violation signature was lost"][ok.index("0")]
                ctx.violation(what, {"pre_dedupe": [(str(s), l, p) for s, l, p, _ in info], "reported_idx": out_uids, "e2e": e2e})


def search(ctx):
    saved = (list(ctx.proof_broken), list(ctx.corr_broken), list(ctx.contract_fail))
    run(ctx, prove=False)
    ctx.proof_broken, ctx.corr_broken, ctx.contract_fail = saved


def replay(ctx, path):
    case = json.load(open(path))["case"]
    print(json.dumps(case, indent=1))
    if "template" in case:
        from sqlfluff.core import Linter, FluffConfig
        cfg = FluffConfig(overrides=case.get("overrides", {"dialect": "ansi", "templater": "jinja"}), configs={"templater": {"jinja": {"context": case["context"]}}})
        lf = Linter(config=cfg).lint_string(case["template"])
        final = lf.get_violations(filter_warning=False)
        sigs = [indep_signature(v) for v in final]
        pos = [(v.line_no, v.line_pos) for v in final]
        bad = len(set(sigs)) != len(sigs) or pos != sorted(pos)
        print("still failing" if bad else "holds")
        return 1 if bad else 0
    return 0
