"""C30 — edits are applied to disjoint source ranges exactly once.

Theorems: lean/SqlfluffVerif/Props/C30.lean. Tie: correspondence of Model/Patch.lean with
_patches_conflict / merge_source_patches / _slice_source_file_using_patches /
_build_up_fixed_source_string (exhaustive small scope + random + patch sets captured from real fixes).
Spec on the real output: the fixed string is the splice of an ordered, pairwise-disjoint subset of the
input patches (each applied exactly once, the others dropped entirely).
"""
import itertools
import json

from vlib.core import enc_str, enc_nats, enc_nnl, dec_str, dec_nats

PROP = "C30"


def enc_patches(ps):
    return "%s %s %s %s" % (
        enc_nats(p[0] for p in ps), enc_nats(p[1] for p in ps),
        enc_nnl([ord(c) for c in p[2]] for p in ps), enc_nats(p[3] for p in ps))


CATS = {"literal": 0, "source": 1, "mid_point": 2, "end_point": 3}
CATN = {v: k for k, v in CATS.items()}


def mk_real(ps, src):
    from sqlfluff.core.linter.patch import FixPatch
    return [FixPatch(slice(a, b), raw, CATN.get(c, "literal"), slice(a, b), "", src[a:b]) for (a, b, raw, c) in ps]


def unreal(fps):
    return [(int(p.source_slice.start), int(p.source_slice.stop), p.fixed_raw, CATS.get(p.patch_category, 0)) for p in fps]


def mk_so(so, src):
    from sqlfluff.core.templaters.base import RawFileSlice
    return [RawFileSlice(src[a:b], "block_start", a) for (a, b) in so]


def protected(ps, so):
    """Every patch is disjoint from every source-only slice or equal to one (post-condition of
    generate_source_patches; see DESIGN §10 reading of C30)."""
    for (a, b, _, _) in ps:
        for (s0, s1) in so:
            if s0 >= s1 or not ((a, b) == (s0, s1) or s1 <= a or b <= s0):
                return False
    return True


def splice(src, acc):
    out, idx = [], 0
    for (a, b, raw, _) in acc:
        out.append(src[idx:a]); out.append(raw); idx = b
    out.append(src[idx:])
    return "".join(out)


def exists_disjoint_splice(src, ps, result):
    """∃ ordered pairwise-disjoint subset of the input patches whose splice is `result`."""
    uniq = sorted(set((a, b, r) for (a, b, r, _) in ps))
    for k in range(len(uniq) + 1):
        for sub in itertools.combinations(uniq, k):
            ok = all(sub[i][1] <= sub[i + 1][0] for i in range(len(sub) - 1))
            if ok and splice(src, [(a, b, r, 0) for (a, b, r) in sub]) == result:
                return True
    return False


def small_cases(ctx):
    n = 4
    src = "01234"[:n]
    ranges = [(a, b) for a in range(n + 1) for b in range(a, n + 1)]
    raws = ["", "x", "yz"]
    atoms = [(a, b, r, 0) for (a, b) in ranges for r in raws]
    so_sets = [[], [(1, 2)], [(1, 3)], [(0, 1), (2, 4)], [(2, 2)]]
    # singles and pairs: exhaustive; triples: sampled (quick) / larger sample (thorough)
    for p in atoms:
        for so in so_sets:
            yield src, [[p]], so
    for p, q in itertools.product(atoms, repeat=2):
        for so in so_sets[:3]:
            yield src, [[p, q]], so
        yield src, [[p], [q]], []
    rng = ctx.rng
    for _ in range(ctx.budget(4000, 120000)):
        k = rng.choice([3, 3, 4])
        ps = [rng.choice(atoms) for _ in range(k)]
        cut = rng.randint(0, k)
        bufs = [b for b in (ps[:cut], ps[cut:]) if b]
        yield src, bufs, rng.choice(so_sets)
    # random larger
    for _ in range(ctx.budget(1500, 30000)):
        n2 = rng.randint(5, 30)
        s = "".join(rng.choice("abcdefgh \n") for _ in range(n2))
        ps = []
        for _ in range(rng.randint(1, 7)):
            a = rng.randint(0, n2); b = min(n2, a + rng.choice([0, 0, 1, 2, 5]))
            ps.append((a, b, rng.choice(["", "X", "YZ", "\n"]), rng.choice([0, 0, 1, 2, 3])))
        nb = rng.randint(1, 3)
        bufs = [[] for _ in range(nb)]
        for p in ps:
            bufs[rng.randrange(nb)].append(p)
        bufs = [b for b in bufs if b]
        so = []
        pos = 0
        while pos < n2 and rng.random() < 0.5:
            a = rng.randint(pos, n2); b = min(n2, a + rng.randint(0, 4))
            so.append((a, b)); pos = b + 1
        yield s, bufs, so


def real_cases(ctx):
    """Patch buffers captured from real fixes of templated files."""
    import sqlfluff.core.linter.linter as lm
    from sqlfluff.core import Linter, FluffConfig
    captured = []
    orig = lm.merge_source_patches

    def spy(bufs):
        captured.append([list(b) for b in bufs])
        return orig(bufs)
    lm.merge_source_patches = spy
    try:
        srcs = [
            "SELECT  a,b FROM {{ t }}  WHERE x=1\n",
            "{% if x %}\nSELECT  a ,b\n{% else %}\nselect  c\n{% endif %}\nFROM t\n",
            "SELECT\n{% for c in ['a','b'] %}\n  {{ c }}  ,\n{% endfor %}\n 1 FROM t\n",
            "select a,{#c#}b from  t where a  =1 {% if y %} and b=2{% endif %}\n",
            "SELECT {{ \"a\" }}  FROM t  -- c\n   \n\n\n",
        ]
        cfg = FluffConfig(overrides={"dialect": "ansi", "templater": "jinja"})
        for s in srcs:
            captured.clear()
            lf = Linter(config=cfg).lint_string(s, fix=True)
            if lf.templated_file is None:
                continue
            so = [(r.source_idx, r.source_idx + len(r.raw)) for r in lf.templated_file.source_only_slices()]
            for bufs in list(captured):
                yield s, [unreal(b) for b in bufs], so, lf.fix_string()[0]
    finally:
        lm.merge_source_patches = orig


def run(ctx, prove=True):
    from sqlfluff.core.linter.patch import merge_source_patches, _patches_conflict
    from sqlfluff.core.linter.linted_file import LintedFile
    ctx.rule = ("patch buffers over a 4-char source: all single patches and all ordered pairs (ranges x raws in {'', x, yz}) x "
                "source-only slice sets, sampled triples/quads, random larger files, and buffers captured from real jinja fixes; "
                "non-trivial = at least two patches that touch or overlap; distinct by canonical case hash")
    if prove:
        ctx.prove(["SqlfluffVerif.Props.C30"], ["Props/C30.lean"])
    ctx.assumptions += ["sorted() is stable (modelled by List.mergeSort)",
                        "source-only slice lists satisfy Protected for the property verdict (DESIGN §10); unprotected inputs are corresponded only"]
    lines, meta = [], []
    n_protected = 0

    def add(src, bufs, so, e2e=None):
        nonlocal n_protected
        flat = [p for b in bufs for p in b]
        real_merged = unreal(merge_source_patches([mk_real(b, src) for b in bufs]))
        rm = mk_real(real_merged, src)
        real_slices = LintedFile._slice_source_file_using_patches(list(rm), mk_so(so, src), src)
        real_fixed = LintedFile._build_up_fixed_source_string(real_slices, rm, src)
        so0, so1 = enc_nats(s[0] for s in so), enc_nats(s[1] for s in so)
        sizes = enc_nats(len(b) for b in bufs)
        lines.append("patch.merge %s %s" % (sizes, enc_patches(flat)))
        meta.append(("merge", src, bufs, so, real_merged))
        lines.append("patch.slice %d %s %s %s" % (len(src), enc_patches(real_merged), so0, so1))
        meta.append(("slice", src, bufs, so, [(int(s.start), int(s.stop)) for s in real_slices]))
        lines.append("patch.fix %s %s %s %s %s" % (enc_str(src), sizes, enc_patches(flat), so0, so1))
        meta.append(("fix", src, bufs, so, real_fixed))
        prot = protected(flat, so)
        n_protected += prot
        touching = any(max(p[0], q[0]) <= min(p[1], q[1]) for i, p in enumerate(flat) for q in flat[i + 1:])
        ctx.count((src, bufs, so), nontrivial=touching,
                  sample={"src": src, "buffers": bufs, "source_only": so, "fixed": real_fixed} if touching and len(flat) > 1 else None)
        ctx.bump("patches=%d" % min(len(flat), 5)); ctx.bump("protected" if prot else "unprotected")
        if prot:
            # property verdict on the REAL output (independent brute-force existential spec)
            if len(set((a, b, r) for (a, b, r, _) in flat)) <= 8:
                if not exists_disjoint_splice(src, flat, real_fixed):
                    ctx.violation("fixed text is not the splice of an ordered pairwise-disjoint subset of the input edits "
                                  "(an edit was applied partially, twice, or overlapping another)",
                                  {"src": src, "buffers": bufs, "source_only": so, "fixed": real_fixed})
            # and the Lean spec (accepted/spliceAll) on the real merged list
            lines.append("patch.spec %s %s" % (enc_str(src), enc_patches(real_merged)))
            meta.append(("spec", src, bufs, so, real_fixed))
        if e2e is not None and e2e != real_fixed:
            ctx.corr_fail("fix_string != slice+build on captured patches", {"src": src, "bufs": bufs})

    for (src, bufs, so) in small_cases(ctx):
        add(src, bufs, so)
    for (src, bufs, so, fixed) in real_cases(ctx):
        ctx.bump("real_fix_buffers")
        add(src, bufs, so, e2e=fixed)
    # conflict predicate, exhaustively on small ranges
    n = 3
    ranges = [(a, b) for a in range(n + 1) for b in range(a, n + 1)]
    from sqlfluff.core.linter.patch import FixPatch
    for (a0, a1), (b0, b1) in itertools.product(ranges, repeat=2):
        for ar, br in (("x", "x"), ("x", "y")):
            r = _patches_conflict(FixPatch(slice(a0, a1), ar, "literal", slice(a0, a1), "", ""),
                                  FixPatch(slice(b0, b1), br, "literal", slice(b0, b1), "", ""))
            lines.append("patch.conflict %d %d %s %d %d %s" % (a0, a1, enc_str(ar), b0, b1, enc_str(br)))
            meta.append(("conflict", None, ((a0, a1, ar), (b0, b1, br)), None, r))
    outs = ctx.driver.run(lines)
    for (kind, src, bufs, so, real), out in zip(meta, outs):
        if kind == "merge":
            t = out.split(" ")
            starts, stops, cats = dec_nats(t[0]), dec_nats(t[1]), dec_nats(t[3])
            raws = [] if t[2] == "~" else [dec_str(x) for x in t[2].split(";")]
            model = list(zip(starts, stops, raws, cats))
            if model != [tuple(x) for x in real]:
                ctx.corr_fail("merge_source_patches", {"src": src, "bufs": bufs, "real": real, "model": model})
        elif kind == "slice":
            t = out.split(" ")
            model = list(zip(dec_nats(t[0]), dec_nats(t[1])))
            if model != real:
                ctx.corr_fail("_slice_source_file_using_patches", {"src": src, "bufs": bufs, "so": so, "real": real, "model": model})
        elif kind == "fix":
            if dec_str(out) != real:
                ctx.corr_fail("fix_string pipeline", {"src": src, "bufs": bufs, "so": so, "real": real, "model": dec_str(out)})
        elif kind == "spec":
            spl = dec_str(out.split(" ")[0])
            if spl != real:
                # the model's own choice of accepted patches differs from the code's; only the existential
                # spec above decides a violation, this is a tie break
                ctx.corr_fail("fixed text != spliceAll(accepted(merged))", {"src": src, "bufs": bufs, "so": so, "real": real, "spec": spl})
        elif kind == "conflict":
            if (out == "1") != bool(real):
                ctx.corr_fail("_patches_conflict", {"pair": bufs, "real": real, "model": out})
    ctx.extra["protected_cases"] = n_protected


def search(ctx):
    saved = (list(ctx.proof_broken), list(ctx.corr_broken), list(ctx.contract_fail))
    run(ctx, prove=False)
    ctx.proof_broken, ctx.corr_broken, ctx.contract_fail = saved


def replay(ctx, path):
    from sqlfluff.core.linter.patch import merge_source_patches
    from sqlfluff.core.linter.linted_file import LintedFile
    case = json.load(open(path))["case"]
    src, bufs, so = case["src"], [[tuple(p) for p in b] for b in case["buffers"]], [tuple(s) for s in case["source_only"]]
    rm = merge_source_patches([mk_real(b, src) for b in bufs])
    sl = LintedFile._slice_source_file_using_patches(list(rm), mk_so(so, src), src)
    fixed = LintedFile._build_up_fixed_source_string(sl, rm, src)
    ok = exists_disjoint_splice(src, [p for b in bufs for p in b], fixed)
    print("fixed=%r ok=%s" % (fixed, ok))
    return 0 if ok else 1
