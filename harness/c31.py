"""C31 — offset → line/column conversion is exact.

Theorems: lean/SqlfluffVerif/Props/C31.lean (for all strings and offsets).
Tie: correspondence of Model/Pos.lean with TemplatedFile.get_line_pos_of_char_pos and
PositionMarker.infer_next_position; spec (reference walk, evaluated in Lean) on the real outputs,
on source and rendered text, and on the position markers of real lexed tokens.
"""
import itertools

from vlib.core import enc_str

PROP = "C31"


def _real_linepos(tf, p, source):
    return tf.get_line_pos_of_char_pos(p, source=source)


def cases(ctx):
    """Yield (string) cases: exhaustive small scope, then random unicode."""
    maxlen = ctx.budget(5, 7)
    alphabet = ["a", "\n", "\r"]
    for n in range(0, maxlen + 1):
        for t in itertools.product(alphabet, repeat=n):
            yield "".join(t)
    rng = ctx.rng
    pool = ["a", "\n", "\n", "\r", "\r\n", " ", "\x0b", "\x0c", "\U0001F600", "é", " ", "\t", "\x85", "--", "'"]
    for _ in range(ctx.budget(300, 5000)):
        n = rng.randint(0, 40)
        yield "".join(rng.choice(pool) for _ in range(n))


def run(ctx):
    from sqlfluff.core.templaters.base import TemplatedFile, TemplatedFileSlice, RawFileSlice
    from sqlfluff.core.parser.markers import PositionMarker

    ctx.rule = ("exhaustive strings over {a,\\n,\\r} up to a length bound x every offset, plus random unicode strings; "
                "non-trivial = string contains a newline and offset > 0; distinct by (string, offset, view)")
    ctx.prove(["SqlfluffVerif.Props.C31"], ["Props/C31.lean"])
    ctx.assumptions += [
        "bisect.bisect_left returns the number of elements < x on a sorted list (stdlib contract)",
        "Python str is indexed by code point, as the model's List Nat",
    ]
    lines = []
    meta = []
    for s in cases(ctx):
        # source view (raw file) and rendered view (templated file whose templated_str = s)
        tf_raw = TemplatedFile(source_str=s, fname="<c31>")
        src = "{{x}}"
        tf_t = TemplatedFile(
            source_str=src, fname="<c31>", templated_str=s,
            sliced_file=[TemplatedFileSlice("templated", slice(0, len(src)), slice(0, len(s)))],
            raw_sliced=[RawFileSlice(src, "templated", 0)],
        )
        es = enc_str(s)
        lines.append("pos.nls %s" % es)
        meta.append(("nls", s, None, list(tf_raw._source_newlines)))
        for p in range(len(s) + 1):
            r1 = _real_linepos(tf_raw, p, True)
            r2 = _real_linepos(tf_t, p, False)
            lines.append("pos.linepos %s %d" % (es, p))
            meta.append(("linepos", s, p, (r1, r2)))
            lines.append("pos.walk %s %d" % (es, p))
            meta.append(("walk", s, p, (r1, r2)))
        # infer_next_position: split s at every pair a|raw|b (bounded)
        n = len(s)
        pairs = [(i, j) for i in range(n + 1) for j in range(i, n + 1)]
        if len(pairs) > 40:
            pairs = ctx.rng.sample(pairs, 40)
        for (i, j) in pairs:
            l0, c0 = _real_linepos(tf_raw, i, True)
            r = PositionMarker.infer_next_position(s[i:j], l0, c0)
            lines.append("pos.infer %s %d %d" % (enc_str(s[i:j]), l0, c0))
            meta.append(("infer", s, (i, j), r))
            # spec: must equal the absolute position of j (evaluated by the reference walk)
            lines.append("pos.walk %s %d" % (es, j))
            meta.append(("inferspec", s, (i, j), r))
    outs = ctx.driver.run(lines)
    for (kind, s, p, real), out in zip(meta, outs):
        if kind == "nls":
            ctx.count(("nls", s), nontrivial="\n" in s)
            if out != (",".join(map(str, real)) or "-"):
                ctx.corr_fail("newlineIndices", {"s": s, "real": real, "model": out})
            continue
        if kind in ("linepos", "walk"):
            r1, r2 = real
            mv = tuple(int(x) for x in out.split())
            for view, r in (("source", r1), ("templated", r2)):
                ctx.count((kind, s, p, view), nontrivial=("\n" in s and p > 0),
                          sample={"text": s, "offset": p, "view": view, "real": list(r)} if ("\n" in s and p > 1) else None)
                if tuple(r) != mv:
                    if kind == "linepos":
                        ctx.corr_fail("linePos", {"s": s, "p": p, "view": view, "real": r, "model": mv})
                    else:
                        ctx.violation("line/col of offset differs from the definition (newlines before offset, position in line)",
                                      {"text": s, "offset": p, "view": view, "real": list(r), "expected": list(mv)})
        elif kind == "infer":
            mv = tuple(int(x) for x in out.split())
            ctx.count(("infer", s, p), nontrivial="\n" in s[p[0]:p[1]])
            if tuple(real) != mv:
                ctx.corr_fail("inferNext", {"s": s, "span": p, "real": real, "model": mv})
        elif kind == "inferspec":
            mv = tuple(int(x) for x in out.split())
            if tuple(real) != mv:
                ctx.violation("infer_next_position from a token's start does not land on the position of its end",
                              {"text": s, "span": list(p), "real": list(real), "expected": list(mv)})
    lexed_markers(ctx)


def lexed_markers(ctx):
    """End-to-end: position markers of real lexed tokens agree with the reference walk."""
    from sqlfluff.core import FluffConfig, Lexer
    from sqlfluff.core.templaters.base import TemplatedFile
    cfg = FluffConfig(overrides={"dialect": "ansi"})
    lexer = Lexer(config=cfg)
    rng = ctx.rng
    pool = ["SELECT", " ", "\n", "a", ",", "\r\n", "/* c\n c */", "-- x\n", "'s\ns'", "\t", "1", "(", ")", "\n\n"]
    lines, meta = [], []
    for _ in range(ctx.budget(60, 600)):
        s = "".join(rng.choice(pool) for _ in range(rng.randint(1, 25)))
        toks, _ = lexer.lex(TemplatedFile(source_str=s, fname="<c31>"))
        es = enc_str(s)
        for t in toks:
            pm = t.pos_marker
            if t.is_type("end_of_file"):
                continue
            lines.append("pos.walk %s %d" % (es, pm.source_slice.start))
            meta.append((s, t.raw, pm.source_slice.start, pm.source_position(), (pm.working_line_no, pm.working_line_pos)))
    outs = ctx.driver.run(lines)
    for (s, raw, off, sp, wp), out in zip(meta, outs):
        mv = tuple(int(x) for x in out.split())
        ctx.count(("marker", s, off), nontrivial="\n" in s[:off])
        if tuple(sp) != mv or tuple(wp) != mv:
            ctx.violation("token position marker differs from the definition",
                          {"text": s, "token": raw, "offset": off, "source_position": list(sp), "working": list(wp), "expected": list(mv)})


def search(ctx):
    run_search_budget(ctx)


def run_search_budget(ctx):
    # escalated budget: rerun the correspondence with thorough bounds on the real code
    saved = (ctx.proof_broken, ctx.corr_broken, ctx.contract_fail)
    run_no_prove(ctx)
    ctx.proof_broken, ctx.corr_broken, ctx.contract_fail = saved


def run_no_prove(ctx):
    orig = ctx.prove
    ctx.prove = lambda *a, **k: True
    try:
        run(ctx)
    finally:
        ctx.prove = orig


def replay(ctx, path):
    import json
    case = json.load(open(path))["case"]
    from sqlfluff.core.templaters.base import TemplatedFile
    s = case["text"]
    if "offset" in case and "view" in case:
        tf = TemplatedFile(source_str=s, fname="<c31>")
        r = tf.get_line_pos_of_char_pos(case["offset"], source=True)
        out = ctx.driver.run(["pos.walk %s %d" % (enc_str(s), case["offset"])])[0]
        print("real=%s expected=%s" % (list(r), out))
        return 0 if list(r) == [int(x) for x in out.split()] else 1
    print(json.dumps(case))
    return 0
