"""C05 — no rule fails internally on any parse tree.

Theorems: Props/C05.lean (the result contains an 'Unexpected exception' violation iff some rule's _eval raised; a raising
rule never hides the others). Tie: funnel correspondence of C04 (stubbed rules raising) + the statement itself sampled on
the fixed universe (every fixture, one mutant of each, generated SQL, jinja templates; all rules) and on generated/mutated
SQL under non-default rule options, in lint and fix mode. Internal errors found on the unchanged tree were repaired
(fix: commits, see known_findings.json).
"""
import json
import sys

from vlib import fixchecks, gen

PROP = "C05"
WHAT = "a rule raised an internal error ('Unexpected exception' violation)"

OPTION_SETS = [
    {},
    {"rules": {"aliasing.table": {"aliasing": "implicit"}, "aliasing.column": {"aliasing": "implicit"}, "aliasing.length": {"min_alias_length": 3, "max_alias_length": 5},
               "aliasing.forbid": {"force_enable": True}, "ambiguous.column_references": {"group_by_and_order_by_style": "explicit"},
               "ambiguous.join": {"fully_qualify_join_types": "both"}, "convention.count_rows": {"prefer_count_1": True},
               "convention.select_trailing_comma": {"select_clause_trailing_comma": "require"}, "convention.terminator": {"multiline_newline": True, "require_final_semicolon": True},
               "convention.quoted_literals": {"preferred_quoted_literal_style": "double_quotes", "force_enable": True},
               "convention.casting_style": {"preferred_type_casting_style": "shorthand"}, "convention.not_equal": {"preferred_not_equal_style": "ansi"},
               "references.from": {"force_enable": True}, "references.qualification": {"single_table_references": "qualified"},
               "references.keywords": {"quoted_identifiers_policy": "all", "unquoted_identifiers_policy": "all"},
               "references.special_chars": {"allow_space_in_identifier": True, "additional_allowed_characters": "-"},
               "references.quoting": {"prefer_quoted_identifiers": True, "case_sensitive": False}, "structure.subquery": {"forbid_subquery_in": "both"},
               "structure.join_condition_order": {"preferred_first_table_in_join_clause": "later"}, "layout.long_lines": {"ignore_comment_lines": True, "ignore_comment_clauses": True},
               "layout.select_targets": {"wildcard_policy": "multiple"}, "jinja.padding": {}}},
    {"rules": {"convention.select_trailing_comma": {"select_clause_trailing_comma": "forbid"}, "convention.casting_style": {"preferred_type_casting_style": "convert"},
               "convention.not_equal": {"preferred_not_equal_style": "c_style"}, "references.qualification": {"single_table_references": "unqualified"},
               "references.quoting": {"prefer_quoted_identifiers": False, "prefer_quoted_keywords": True}, "structure.subquery": {"forbid_subquery_in": "from"},
               "convention.blocked_words": {"blocked_words": "select,a,tbl", "blocked_regex": "^.*x.*$"}, "capitalisation.identifiers": {"extended_capitalisation_policy": "snake", "unquoted_identifiers_policy": "column_aliases"},
               "layout.cte_bracket": {}, "layout.keyword_newline": {}, "aliasing.unused": {"alias_case_check": "case_sensitive"}, "aliasing.self_alias.column": {}},
     "indentation": {"indent_unit": "tab", "indented_joins": True, "indented_ctes": True, "indented_using_on": False, "indented_on_contents": False, "indented_then": False, "allow_implicit_indents": True},
     "layout": {"type": {"comma": {"line_position": "leading"}, "binary_operator": {"line_position": "trailing"}, "comparison_operator": {"line_position": "trailing"}}}},
]


def _lint(job):
    import logging
    logging.disable(logging.CRITICAL)
    from sqlfluff.core import Linter, FluffConfig
    d, sql, k = job
    out = {"internal": [], "raised": None}
    try:
        cfg = FluffConfig(configs=json.loads(json.dumps(OPTION_SETS[k])), overrides={"dialect": d, "max_line_length": 60 if k else 80})
        lf = Linter(config=cfg).lint_string(sql, fix=True)
        out["internal"] = ["%s: %s" % (v.rule_code(), v.desc()[:160]) for v in lf.violations if v.desc().startswith("Unexpected exception")]
        out["codes"] = len({v.rule_code() for v in lf.violations})
    except BaseException as e:  # noqa
        out["raised"] = "%s: %s" % (type(e).__name__, str(e)[:160])
    finally:
        if hasattr(sys, "tracebacklimit"):
            del sys.tracebacklimit
    return out


def quote_one_identifier(rng, d, sql):
    from vlib import corpus
    q = corpus.QUOTE.get(d, '"%s"')
    if q is None:
        return sql
    toks = corpus._tokens(d, sql)
    from collections import Counter
    cnt = Counter(t.raw.lower() for t in toks if t.is_type("word") and t.raw.isidentifier() and t.raw.lower() not in corpus.KEYWORDISH and len(t.raw) > 1)
    multi = [w for w, n in cnt.items() if n >= 2]
    if not multi:
        return sql
    w = rng.choice(multi)
    return "".join((q % t.raw) if (t.is_type("word") and t.raw.lower() == w) else t.raw for t in toks)


def option_runs(ctx):
    import multiprocessing
    rng = ctx.rng
    files = gen.fixture_files(); rng.shuffle(files)
    jobs = []
    for d, f in files[: ctx.budget(40, 2249)]:
        try:
            t = f.read_text(encoding="utf-8")
        except Exception:
            continue
        if len(t) > 5000:
            continue
        jobs.append((d, t, rng.choice([1, 2])))
        jobs.append((d, gen.mutate_sql(rng, t), rng.choice([0, 1, 2])))
    for _ in range(ctx.budget(60, 1500)):
        s = gen.sql_file(rng)
        jobs.append(("ansi", s if rng.random() < 0.6 else gen.mutate_sql(rng, s), rng.choice([1, 2])))
    # one identifier quoted consistently in all its occurrences (the statement keeps its meaning: CTE names, aliases, columns
    # referenced through a quoted spelling), on files that define names and refer back to them
    named = [(d, f) for d, f in files if any(k in f.name for k in ("with", "cte", "alias", "select", "join", "union", "insert", "merge"))]
    for d, f in named[: ctx.budget(50, 1200)]:
        try:
            t = f.read_text(encoding="utf-8")
            if len(t) <= 5000:
                jobs.append((d, quote_one_identifier(rng, d, t), rng.choice([0, 0, 1])))
        except Exception:
            pass
    for q in ['WITH "cte" AS (SELECT 1 AS a) SELECT * FROM "cte"\n', 'WITH cte AS (SELECT 1 AS a) SELECT "cte".* FROM cte AS "cte"\n',
              'WITH "a b" AS (SELECT 1 AS x) SELECT * FROM "a b" UNION SELECT * FROM "a b"\n', 'SELECT "t".* FROM tbl AS "t" JOIN u AS "U" ON "t".a = "U".a\n']:
        jobs.append(("ansi", q, 0))
    from vlib.par import robust_map
    res = [r if "internal" in r else {"internal": [], "raised": "timeout/worker died"} for r in robust_map(_lint, jobs, 14, 300)]
    for (d, sql, k), r in zip(jobs, res):
        case = {"dialect": d, "options": k, "sql": sql[:1500]}
        ctx.count((d, sql, k), nontrivial=bool(r.get("codes")), sample={"dialect": d, "options": k, "rules_reporting": r.get("codes")} if len(ctx.samples) < 4 else None)
        ctx.bump("option_set_%d" % k)
        if r["raised"]:
            ctx.bump("lint_raised"); continue
        if r["internal"]:
            ctx.violation(WHAT, dict(case, internal=r["internal"][:3]))


def _lint_only(item):
    import logging
    logging.disable(logging.CRITICAL)
    from sqlfluff.core import Linter
    from vlib import corpus, fixrun
    out = {"internal": [], "raised": None}
    try:
        name, sql, jctx = corpus.load(item)
        lf = Linter(config=fixrun.make_config(item[1], "all", jctx)).lint_string(sql)
        out["internal"] = ["%s: %s" % (v.rule_code(), v.desc()[:160]) for v in lf.violations if v.desc().startswith("Unexpected exception")]
        out["sql"] = sql[:1500]
    except BaseException as e:  # noqa
        out["raised"] = "%s: %s" % (type(e).__name__, str(e)[:160])
    finally:
        if hasattr(sys, "tracebacklimit"):
            del sys.tracebacklimit
    return out


def lint_slice(ctx):
    """A second, larger seed-chosen slice of the universe in lint mode only (about four times cheaper than a fix run)."""
    from vlib import corpus
    from vlib.par import robust_map
    items = [i for i in corpus.full_universe(("all",)) if i[0] in ("fixture", "mutant")]
    items = fixchecks.slice_of(ctx, items, 700)
    res = robust_map(_lint_only, items, 14, 200)
    for it, r in zip(items, res):
        name = corpus.name_of(it)
        ctx.count((name, "lint"), nontrivial=True)
        ctx.bump("lint_only_items")
        if r.get("internal"):
            ctx.violation(WHAT, {"input": name, "dialect": it[1], "ruleset": "all", "sql": r.get("sql"), "internal": r["internal"][:3]}, key=fixchecks.key_for(name, "all", PROP))


def run(ctx, prove=True):
    import c04
    ctx.rule = ("all rules in fix mode over the fixed universe slice (fixtures, seeded mutants, generated SQL, jinja templates) + shuffled fixtures/mutants/generated SQL under two "
                "non-default rule-option sets; non-trivial = at least one rule reported something; distinct by (dialect, text, option set)")
    if prove:
        ctx.prove(["SqlfluffVerif.Props.C05"], ["Props/C05.lean"])
    ctx.partial += ["the ~70 rule implementations are not modelled: 'no _eval raises' is sampled, the theorem only reduces the property to it"]
    c04.funnel_correspondence(ctx)
    option_runs(ctx)
    if ctx.tier == "quick":
        lint_slice(ctx)
    fixchecks.run_universe(ctx, PROP, ["all", "layout_alt", "cap_snake", "cap_camel"], ctx.budget(120, 10 ** 9), WHAT)


def search(ctx):
    saved = (list(ctx.proof_broken), list(ctx.corr_broken), list(ctx.contract_fail))
    run(ctx, prove=False)
    ctx.proof_broken, ctx.corr_broken, ctx.contract_fail = saved


def replay(ctx, path):
    case = json.load(open(path))["case"]
    print(json.dumps(case, indent=1)[:3000])
    if "options" in case:
        r = _lint((case["dialect"], case["sql"], case["options"]))
        print(r)
        return 1 if r["internal"] else 0
    return 0
