"""C34 — oversized files are skipped, never parsed or modified.

Theorems: Props/C34.lean (size gates, skip-fail exit). Tie: real CLI runs over a small and a boundary-size file
(limit-1, limit, limit+1 bytes; multi-byte characters so bytes != chars) x lint/fix x serial/parallel x
large_file_skip_fail; the model's gate and exit are compared with the real run and the property is checked directly.
Known finding: the deprecated character limit is swallowed in render_string: the file is not counted as skipped and
large_file_skip_fail has no effect on it.
"""
import json
import os
import shutil
import tempfile

from vlib.core import enc_nnl

PROP = "C34"
KEY_CHAR = "callsite:Linter.render_string:swallows-SQLFluffSkipFile-from-char-limit"


def mk_sql(nbytes, multibyte):
    """A file of exactly nbytes bytes with a fixable LT01 violation (double space)."""
    head = "SELECT a  FROM t -- "
    pad_char = "é" if multibyte else "x"
    body = head
    while len((body + "\n").encode("utf-8")) < nbytes:
        body += pad_char if len((body + pad_char + "\n").encode("utf-8")) <= nbytes else "x"
    txt = body + "\n"
    assert len(txt.encode("utf-8")) == nbytes, (len(txt.encode("utf-8")), nbytes)
    return txt


def run_nested(mode, processes, skip_fail, which):
    """The limit comes from a config file in a sub-directory (lower limit there) or is lifted there (which='lift')."""
    from click.testing import CliRunner
    from sqlfluff.cli.commands import lint, fix
    d = tempfile.mkdtemp(prefix="verif_c34n_")
    cwd0 = os.getcwd()
    try:
        os.makedirs(os.path.join(d, "gen"))
        root_limit, sub_limit = (0, 60) if which == "lower" else (60, 0)
        open(os.path.join(d, ".sqlfluff"), "w").write("[sqlfluff]\ndialect = ansi\nrules = LT01\nlarge_file_skip_byte_limit = %d\nlarge_file_skip_fail = %s\n" % (root_limit, skip_fail))
        open(os.path.join(d, "gen", ".sqlfluff"), "w").write("[sqlfluff]\nlarge_file_skip_byte_limit = %d\n" % sub_limit)
        big = mk_sql(120, False)
        pb = os.path.join(d, "gen", "big.sql"); open(pb, "w", newline="").write(big)
        ps = os.path.join(d, "small.sql"); open(ps, "w", newline="").write("SELECT b FROM t\n")
        os.chdir(d)
        r = CliRunner().invoke(lint if mode == "lint" else fix, [".", "--disable-progress-bar", "--processes", str(processes)] + (["--format", "json"] if mode == "lint" else []))
        out = {"exit": r.exit_code, "big_after": open(pb, newline="").read(), "big": big,
               "exc": repr(r.exception) if r.exception and not isinstance(r.exception, SystemExit) else None}
        if mode == "lint":
            try:
                js = json.loads(r.output[r.output.index("["):])
                out["big_violations"] = sum(len(x["violations"]) for x in js if x["filepath"].endswith("big.sql"))
            except Exception:
                out["big_violations"] = None
        return out
    finally:
        os.chdir(cwd0)
        shutil.rmtree(d, ignore_errors=True)


def run_case(limit_kind, limit, size, multibyte, mode, processes, skip_fail):
    from click.testing import CliRunner
    from sqlfluff.cli.commands import lint, fix
    d = tempfile.mkdtemp(prefix="verif_c34_")
    try:
        big = mk_sql(size, multibyte)
        small = "SELECT b  FROM t\n" if mode == "fix" else "SELECT b FROM t\n"
        os.mkdir(os.path.join(d, "p"))
        pb, ps = os.path.join(d, "p", "big.sql"), os.path.join(d, "p", "small.sql")
        open(pb, "w", encoding="utf-8", newline="").write(big); open(ps, "w", newline="").write(small)
        cfg = os.path.join(d, "cfg.ini")
        lines = ["[sqlfluff]", "dialect = ansi", "rules = LT01", "large_file_skip_fail = %s" % skip_fail]
        if limit_kind == "byte":
            lines.append("large_file_skip_byte_limit = %d" % limit)
        else:
            lines += ["large_file_skip_byte_limit = 0", "large_file_skip_char_limit = %d" % limit]
        open(cfg, "w").write("\n".join(lines) + "\n")
        args = [os.path.join(d, "p"), "--config", cfg, "--ignore-local-config", "--disable-progress-bar", "--processes", str(processes)]
        r = CliRunner().invoke(lint if mode == "lint" else fix, args + (["--format", "json"] if mode == "lint" else []))
        out = {"exit": r.exit_code, "big_after": open(pb, encoding="utf-8", newline="").read(), "small_after": open(ps, newline="").read(),
               "big": big, "small": small, "exc": repr(r.exception) if r.exception and not isinstance(r.exception, SystemExit) else None}
        if mode == "lint":
            try:
                js = json.loads(r.output[r.output.index("["):])
                out["big_violations"] = sum(len(x["violations"]) for x in js if x["filepath"].endswith("big.sql"))
                out["big_reported"] = any(x["filepath"].endswith("big.sql") for x in js)
            except Exception:
                out["big_violations"] = None
        return out
    finally:
        shutil.rmtree(d, ignore_errors=True)


def run(ctx, prove=True):
    ctx.rule = ("directory with a small fixable file and a file of limit-1 / limit / limit+1 bytes (ASCII and multi-byte) x byte/char limit x "
                "lint/fix x processes 1/2 x large_file_skip_fail; non-trivial = the boundary file exceeds the limit; distinct by full configuration")
    if prove:
        ctx.prove(["SqlfluffVerif.Props.C34"], ["Props/C34.lean"])
    rng = ctx.rng
    combos = []
    for limit_kind in ("byte", "char"):
        for delta in (-1, 0, 1):
            for multibyte in (False, True):
                for mode in ("lint", "fix"):
                    for skip_fail in (False, True):
                        combos.append((limit_kind, delta, multibyte, mode, skip_fail))
    rng.shuffle(combos)
    combos = combos[: ctx.budget(len(combos), len(combos))]
    lines, meta = [], []
    for i, (limit_kind, delta, multibyte, mode, skip_fail) in enumerate(combos):
        limit = 60
        size = limit + delta if limit_kind == "byte" else None
        if limit_kind == "char":
            # size in bytes chosen so that the number of characters is limit+delta
            txt_chars = limit + delta
            base = mk_sql(txt_chars, False)  # ASCII: chars == bytes
            size = len(base.encode("utf-8"))
            multibyte = False
        processes = 2 if (i % 5 == 0) else 1
        try:
            o = run_case(limit_kind, limit, size, multibyte, mode, processes, skip_fail)
        except Exception as e:
            ctx.bump("case_failed:" + type(e).__name__); continue
        nchars = len(o["big"])
        over = size > limit if limit_kind == "byte" else nchars > limit
        case = {"limit_kind": limit_kind, "limit": limit, "bytes": size, "chars": nchars, "multibyte": multibyte, "mode": mode,
                "processes": processes, "large_file_skip_fail": skip_fail}
        ctx.count(json.dumps(case, sort_keys=True), nontrivial=over, sample=dict(case, exit=o["exit"]) if over and len(ctx.samples) < 4 else None)
        ctx.bump("%s_%s" % (limit_kind, "over" if over else "within"))
        lines.append("exit.skip %d %d" % (limit, size if limit_kind == "byte" else nchars)); meta.append((case, over))
        if o["exc"]:
            ctx.violation("CLI raised on an oversized-file run", dict(case, exception=o["exc"]))
            continue
        key = KEY_CHAR if limit_kind == "char" else None
        if over:
            if o["big_after"] != o["big"]:
                ctx.violation("an oversized file was rewritten", case)
            if mode == "lint" and o.get("big_violations"):
                ctx.violation("an oversized file was linted", case)
            if mode == "lint":
                want = 1 if skip_fail else 0
                if o["exit"] != want:
                    ctx.violation("skipped oversized file: lint exit code %d, expected %d (fails only with large_file_skip_fail)" % (o["exit"], want), case, key=key)
            if mode == "fix":
                want = 1 if skip_fail else 0
                if o["exit"] != want:
                    ctx.violation("skipped oversized file: exit code %d, expected %d (fails only with large_file_skip_fail)" % (o["exit"], want), case, key=key)
                if o["small_after"] == o["small"]:
                    ctx.violation("the small file next to a skipped one was not fixed", case)
        else:
            if mode == "fix" and o["big_after"] == o["big"]:
                ctx.violation("a file within the size limit was not fixed (skipped?)", case)
            if mode == "fix" and o["exit"] != 0:
                ctx.violation("no file skipped but fix exit is %d" % o["exit"], case)
            if mode == "lint" and not o.get("big_violations"):
                ctx.violation("a file within the size limit was not linted (skipped?)", case)
    # the limit that applies is the one of the file's own (nearest) configuration
    for which in ("lower", "lift"):
        for mode in ("lint", "fix"):
            for skip_fail in (False, True):
                for processes in ((1, 2) if (mode, skip_fail) == ("fix", True) else (1,)):
                    try:
                        o = run_nested(mode, processes, skip_fail, which)
                    except Exception as e:
                        ctx.bump("nested_failed:" + type(e).__name__); continue
                    case = {"nested_config": which, "mode": mode, "processes": processes, "large_file_skip_fail": skip_fail, "bytes": 120, "sub_limit": 60 if which == "lower" else 0}
                    over = which == "lower"
                    ctx.count(json.dumps(case, sort_keys=True), nontrivial=True)
                    ctx.bump("nested_" + which)
                    if o["exc"]:
                        ctx.violation("CLI raised on an oversized-file run", dict(case, exception=o["exc"])); continue
                    if over:
                        if o["big_after"] != o["big"]:
                            ctx.violation("an oversized file (limit set by a nested config) was rewritten", case)
                        if mode == "lint" and o.get("big_violations"):
                            ctx.violation("an oversized file (limit set by a nested config) was linted", case)
                        if o["exit"] != (1 if skip_fail else 0):
                            ctx.violation("skipped oversized file (nested config): exit %d" % o["exit"], case)
                    else:
                        if mode == "fix" and o["big_after"] == o["big"]:
                            ctx.violation("a file whose nested config lifts the size limit was skipped", case)
                        if mode == "lint" and not o.get("big_violations"):
                            ctx.violation("a file whose nested config lifts the size limit was not linted", case)
    outs = ctx.driver.run(lines)
    for (case, over), out in zip(meta, outs):
        if (out == "1") != over:
            ctx.corr_fail("size gate", {"case": case, "model": out})


def search(ctx):
    saved = (list(ctx.proof_broken), list(ctx.corr_broken), list(ctx.contract_fail))
    run(ctx, prove=False)
    ctx.proof_broken, ctx.corr_broken, ctx.contract_fail = saved


def replay(ctx, path):
    case = json.load(open(path))["case"]
    print(json.dumps(case, indent=1))
    return 0
