"""Regenerates /verif/MANIFEST.json from the table below (developer tool, not run by checks)."""
import json
from pathlib import Path

VERIF = Path(__file__).resolve().parents[1]

# id -> (strength text, technique, level_note, design_ref)
CHECKS = {
    "C31": (
        "Lean 4 theorems (all strings, all offsets): line = 1 + #newlines before the offset, column = 1-based position in "
        "its line, incremental inference = absolute conversion, positions in range. The model is tied to "
        "get_line_pos_of_char_pos / infer_next_position by exhaustive small-scope + random correspondence, and the "
        "reference walk is evaluated in Lean on real outputs (source and rendered views, real lexed tokens). Full strength.",
        "Lean 4 proof by induction over a hand model + differential correspondence with the Python functions",
        "Lean kernel; axioms propext/Classical.choice/Quot.sound; bisect_left modelled by its contract; hand model tied only by sampled correspondence",
        "DESIGN.md §6 C31",
    ),
}

CHECKS["C30"] = (
    "Lean 4 theorems for every source text and every finite family of patch buffers: merged patches are pairwise "
    "non-conflicting, sorted, duplicate-free and drawn from the inputs; slicing+building equals the splice of an ordered, "
    "pairwise-disjoint sub-family (each applied exactly once, all others contribute nothing). Proved for an empty "
    "source-only-slice list; the source-only handling is tied by exhaustive small-scope correspondence and the existential "
    "splice spec is evaluated on the real output for Protected inputs (DESIGN §10).",
    "Lean 4 proof (loop invariant over the patch list) + exhaustive small-scope differential correspondence",
    "Lean kernel; standard axioms; sorted() stability; hand model tied by sampled correspondence; source-only slices not in the theorem",
    "DESIGN.md §6 C30",
)

CHECKS["C33"] = (
    "Lean 4 theorems for every violation list: after de-duplication by source signature and the stable sort, signatures are "
    "pairwise distinct, the list is ordered by (line, column), every input signature survives and nothing is invented; the "
    "serialised records are a sorted permutation. Tied to deduplicate_in_source_space / LintedDir.add by correspondence on stub "
    "violations and on real multi-variant jinja lints, with signatures recomputed independently by the harness.",
    "Lean 4 proof (Pairwise/Perm over stable mergeSort) + differential correspondence",
    "Lean kernel; standard axioms; sorted() stability; 'distinct' = the code's source signature (DESIGN §10)",
    "DESIGN.md §6 C33",
)
CHECKS["C20"] = (
    "Lean 4 theorems for every directive list and violation list: the visible violations are exactly those not hidden (plain "
    "directive on the same line naming the rule or none; or last covering range directive at or before the line is a disable, "
    "proved to be a latest one), masking is pointwise, plain directives are marked used only if they hid something, unmatched "
    "references stay literal. The comment parser, glob matcher and mask are tied to noqa.py by exhaustive small-scope + random "
    "correspondence; the Lean `hidden` predicate is evaluated on real directives/violations of generated files (incl. unparsable).",
    "Lean 4 proof (filter algebra + state-machine invariant) + exhaustive small-scope differential correspondence",
    "Lean kernel; standard axioms; fnmatch modelled for the metacharacter subset; used-flags of enable/disable directives tied by correspondence only",
    "DESIGN.md §6 C20",
)

CHECKS["C29"] = (
    "Per-dialect reference graphs are regenerated from the live dialect objects on every run and Lean's kernel re-checks, for "
    "each of the 28 dialects, that every edge of every reachable element lands on a defined element or a listed known finding "
    "(decide +kernel per 100-row chunk), lifted by the general reachability theorem. Full for the reference graph; the lexer "
    "clause is sampled here (each dialect's lexer on control/whitespace/astral strings) and proved on the lexer model in C01.",
    "translator-regenerated Lean obligations (kernel-checked closure certificate) + general reachability theorem",
    "Lean kernel; standard axioms; translator walk trusted but cross-checked against names requested from Dialect.ref at parse time; 170 dangling references on the unchanged tree are listed known findings (pinned as expected behaviour by the repo's parity tests)",
    "DESIGN.md §6 C29",
)
CHECKS["C21"] = (
    "Lean 4 theorems: the selected rules are exactly registered ∧ matched-by-selection ∧ ¬matched-by-exclusion (general); on the "
    "live rule table, regenerated every run: every code/name/group/alias reaches its rule, a code selects only itself, `all` is "
    "everything, codes are distinct (decide +kernel); lint-mode frame rule proved over the CrawlPure contract, which is sampled "
    "end-to-end (rule alone vs among all).",
    "Lean 4 proof + generated table obligations + differential correspondence with RuleSet",
    "Lean kernel; standard axioms; rule independence itself is a sampled contract (rule bodies unmodelled)",
    "DESIGN.md §6 C21",
)

CHECKS["C02"] = (
    "Lean 4 theorems over a transcription of MatchResult.apply / root_parse: for every well-formed match tree (any nesting, any "
    "inserts) materialisation never raises and the leaves are exactly the tokens of its slice in order, without repetition; for a "
    "root match starting at the first code token the file tree's leaves are exactly all tokens. Well-formedness of what the dialect "
    "grammars return (GrammarWF, MatchStartsAtIdx) is a contract evaluated by Lean on every real root match; the leaves=tokens spec "
    "is evaluated on every real tree. Partial: the combinator engine producing match results is not modelled.",
    "Lean 4 proof (induction on nesting + trigger-loop invariant) + differential correspondence + contract validation",
    "Lean kernel; standard axioms; GrammarWF / MatchStartsAtIdx sampled, not proved; hand model tied by sampled correspondence",
    "DESIGN.md §6 C02",
)

CHECKS["C03"] = (
    "Lean 4 theorems for every match tree: the indent values at the leaves of a materialised tree are exactly the inserts of the "
    "match result (apply neither invents, drops nor duplicates markers), a bracket pair is neutral, spans are (min,max) of "
    "children by construction. The decidable statement specC03 (spans, child order, no whitespace/comment at node ends, running "
    "balance >= 0, final balance 0) is evaluated in Lean on every real tree of fixtures, truncations and generated templates. "
    "Stage 2, from the grammar definitions: a translator reduces every library entry of every bundled dialect (39 215 entries, regenerated "
    "from the live objects on each run) to the skeleton of its Indent/Dedent/Conditional metas; Lean's kernel re-checks that each distinct "
    "skeleton is neutral, and the theorem C03_grammar_balanced (induction over derivation height, soundness of the vector analysis) "
    "lifts that to: every complete match of every listed entry balances, under every configuration, references resolved to any depth. "
    "The skeleton semantics (e.g. that Bracketed.match drops every meta written inside the bracket) are corresponded with the real engine on "
    "random small grammars built from the real grammar classes. Five entries are not neutral and are listed known findings. Partial: partial matches (Sequence.match returning early, a listed known "
    "finding attributed by instrumentation), running-balance >= 0 and the no-whitespace-ends clause are decided on real trees only.",
    "Lean 4 proof (indent accounting; soundness of the grammar skeleton analysis) + translator-regenerated kernel-checked obligations + Lean-evaluated tree specification on real parser output",
    "Lean kernel; standard axioms; translator grammar_balance.py trusted (a grammar without metas is abstracted to a leaf; match semantics of Sequence/OneOf/AnyNumberOf/Delimited/Bracketed/Ref as derivation rules); known findings keyed by call site / grammar entry",
    "DESIGN.md §6 C03",
)

CHECKS["C01"] = (
    "Lean 4 theorems over a transcription of the lexer loop (lex_match, _subdivide, _trim_match, last-resort branch, "
    "map_template_slices) with the regex engines as parameters: whatever the matchers return, the elements concatenate to the input "
    "(lossless); if the dialect's matchers cover tab/newline/space the lexer never raises, for every input (total). The model is "
    "tied to PyLexer by correspondence on families of real StringLexer/RegexLexer matchers; the decidable statement specC01 "
    "(contiguous rendered positions, in-bounds and monotone source positions, coverage, one LXR per unlexable) is evaluated by Lean "
    "on the real lexer's output for real dialects and all four templaters. The whitespace-splitting branch of _iter_segments is "
    "modelled and proved to tile the element in the rendered text and in its own text for any number of literal slices (the loop as it "
    "stood before repair f54e85c is a kernel-checked counterexample); the stash logic for tokens that may not be split is proved to give the "
    "source slice from the first to the last literal slice; both are corresponded on every such element of real jinja files. "
    "Partial: the remaining branches of _iter_segments are checked by evaluation only.",
    "Lean 4 proof (loop invariants, fuel-indexed induction) + differential correspondence + Lean-evaluated spec on real lexer output",
    "Lean kernel; standard axioms; regex engines are parameters (MatcherOK, NoStartAfterMid sampled); two genuine defects repaired (fix: ed45326, f54e85c)",
    "DESIGN.md §6 C01",
)
CHECKS["C07"] = (
    "Lean 4 theorem: for every source text and every ordered, disjoint family of parameter matches the placeholder templater's "
    "output is consistent (raw slices tile the source with matching text, rendered slices tile the rendered SQL, source slices in "
    "bounds, literal slices map to identical text). Tied to PlaceholderTemplater.process for every KNOWN_STYLES key (read from the "
    "code each run). The same Lean predicate is evaluated on every variant produced by the jinja and python templaters "
    "(partial: those templaters are not modelled). JinjaTemplater._rectify_templated_slices is transcribed and corresponded exactly on random "
    "delta maps and slice lists: it is proved to restore contiguity for loop-free variants, and a kernel-checked instance shows how a loop "
    "(a tag visited twice) leaves later slices off by the unapplied delta - the alternate-variant drift that is a listed known finding.",
    "Lean 4 proof (loop invariant over the match list) + differential correspondence + Lean-evaluated consistency predicate",
    "Lean kernel; standard axioms; regex.finditer spans are a checked contract; Jinja/str.format external",
    "DESIGN.md §6 C07",
)

CHECKS["C18"] = (
    "Lean 4 theorems over the decision logic of the three fix gates (violation attribute vectors: kind, ignore, warning, noqa-masked, "
    "fixable): a file with any templating/parsing violation - suppressed or not - is never written by `fix` (path), is echoed unchanged "
    "(stdin) and is returned unchanged by sqlfluff.fix, which never raises. The model is evaluated on the attribute vectors of the real "
    "violations of generated files and compared with what the real CLI/API did; the property is also checked directly on the real behaviour. "
    "One genuine defect in the API gate was repaired (fix: bff2607).",
    "Lean 4 proof of decision logic + end-to-end differential correspondence through CliRunner and the Python API",
    "Lean kernel; standard axioms; per-violation attributes and 'text would change' come from the real linter; loop-limit rollback not modelled here",
    "DESIGN.md §6 C18",
)
CHECKS["C22"] = (
    "Lean 4 theorems: `lint` exits 1 exactly when some violation is neither ignored, noqa-masked nor a warning; warnings never fail "
    "lint or fix; --nofail exits 0; large_file_skip_fail with a skipped file exits 1; fix exit characterised when no TMP/PRS is present. "
    "Model evaluated on the real violations' attribute vectors and compared with real `lint`/`fix` exit codes (path and stdin); usage "
    "errors checked to exit 2. One genuine defect repaired (fix: 90e428d).",
    "Lean 4 proof of decision logic + end-to-end differential correspondence through CliRunner",
    "Lean kernel; standard axioms; interactive --check prompts not modelled",
    "DESIGN.md §6 C22",
)

CHECKS["C19"] = (
    "Lean 4 theorems over the glue model: path and stdin emit the same fixed text for every attribute vector (no fatal errors); the "
    "API agrees whenever a countable fixable violation exists; the remaining divergences (API with `ignore=linting`; two stdin exit-code "
    "cases) are characterised exactly by kernel-checked witnesses and listed as known findings. End-to-end: the same SQL and config through "
    "CLI path, CLI stdin with --stdin-filename and the Python API - violations, fixed text and exit status compared; model predictions "
    "compared with all of them. One divergence repaired (fix: 0d5587f).",
    "Lean 4 proof over the entry-point glue + end-to-end differential correspondence across the three entry points",
    "Lean kernel; standard axioms; the shared core (lint_string) is abstract; same-configuration assumption (one explicit config file)",
    "DESIGN.md §6 C19",
)
CHECKS["C34"] = (
    "Lean 4 theorems for the size gates (skip iff limit>0 and size>limit; zero disables) and the skip-fail exit; real CLI runs at "
    "limit-1/limit/limit+1 bytes and characters (ASCII and multi-byte) x lint/fix x serial/parallel x large_file_skip_fail check that "
    "oversized files are never parsed, linted or rewritten and that the exit code follows large_file_skip_fail. The deprecated "
    "character limit is a listed known finding (not counted as skipped).",
    "Lean 4 proof of decision logic + exhaustive boundary correspondence through the real CLI",
    "Lean kernel; standard axioms; os.path.getsize / len() are the size oracles",
    "DESIGN.md §6 C34",
)

CHECKS["C25"] = (
    "Lean 4 theorem: for every directory tree, every placement of ignore files and every pathspec behaviour, the walk (inner specs "
    "scoped to their sub-tree, outer specs always active, ignored sub-directories pruned) returns exactly the files the statement "
    "selects. The real paths_from_path is compared with the Lean walk (fed with match tables from the real pathspec) on enumerated "
    "trees x ignore files at every level (both kinds, also two in one directory, nested, and in the parent) x gitignore patterns x "
    "path spellings x working directories; spelling invariance is checked directly. One genuine defect repaired (fix: b1ede77).",
    "Lean 4 proof (induction over the tree) + exhaustive small-scope differential correspondence with the real walk",
    "Lean kernel; standard axioms; pathspec is a parameter (tables computed by the real library); os.walk order abstracted (result is sorted)",
    "DESIGN.md §6 C25",
)
CHECKS["C26"] = (
    "Lean 4 theorems over the write path as a sequence of file-system operations with a fault at any step: whatever fails (exception "
    "or process death at stat/mkstemp/write/flush/fsync/close/chmod/move) the target holds its complete old or complete new content; "
    "an exception never leaves a temp file; success keeps content and permissions; with a suffix the original is untouched. The real "
    "_safe_create_replace_file is driven through the whole fault space (raising OSError/KeyboardInterrupt, dying in a forked child) "
    "and compared with the model; end-to-end fixes check permissions, BOM and suffix.",
    "Lean 4 proof by exhaustive case analysis over the finite fault space + fault-injection correspondence on the real function",
    "Lean kernel; standard axioms; rename atomicity / no copy fallback of shutil.move / fsync durability are OS assumptions",
    "DESIGN.md §6 C26",
)

CHECKS["C27"] = (
    "Lean 4 theorems over the path-map view of configurations: combining layers gives each setting the value of the last layer that "
    "sets it (inheritance otherwise), inline directives override everything for that file and leave other settings alone; the two "
    "section/value clash behaviours of nested_combine are modelled. nested_combine is corresponded on generated nested dicts; generated "
    "hierarchies (defaults, home, cwd, nested dirs, ini+toml in one directory, extra config, overrides, inline) are compared with the "
    "precedence order; histories of several files linted in one run check that no setting leaks between files.",
    "Lean 4 proof (lookup over right-biased layering) + differential correspondence + history correspondence on the real Linter",
    "Lean kernel; standard axioms; isolation is an object-sharing property of the real code and is sampled by histories, not proved",
    "DESIGN.md §6 C27",
)

CHECKS["C24"] = (
    "Lean 4 theorems: the assembly of per-file results (routing, counters, exit code) is invariant under every permutation of worker "
    "completion, and the per-file results are the same set. That a file's result does not depend on the worker, the pickled config or "
    "the arrival order (PerFileFunctional) is sampled: real runs with 1/2/4 processes, seeded per-file worker delays injected through the "
    "guarded hook in ParallelRunner._apply and permuted path lists are compared file by file (violations, fixed contents, exit, skips) "
    "with the serial run. Partial: the schedule space is sampled, OS scheduling is not modelled.",
    "Lean 4 proof (List.Perm induction over the assembly fold) + schedule-steered differential runs",
    "Lean kernel; standard axioms; multiprocessing/OS scheduler unmodelled; hook guarded by SQLFLUFF_VERIF=1",
    "DESIGN.md §6 C24",
)

CHECKS["C28"] = (
    "Lean 4 theorems over a transcription of to_tuple / structural_simplify / as_record: for every tree the record lists exactly the "
    "tree's tokens (type, text) in file order, in both layouts (dict when child keys are distinct, list otherwise or with positions). "
    "The model is corresponded with as_record on real trees for six option combinations; the CLI `parse` output in json, yaml and human "
    "form (with/without --include-meta) and sqlfluff.parse are parsed back and checked: tokens in order, texts concatenate to the rendered "
    "SQL, types nest as in the tree.",
    "Lean 4 proof (fuel-indexed induction over nested records) + differential correspondence + output re-parsing",
    "Lean kernel; standard axioms; json/yaml dumpers and the human formatter are external (their output is parsed back)",
    "DESIGN.md §6 C28",
)

CHECKS["C23"] = (
    "Lean 4 theorems: the six machine-readable position keys are built from one slice by the C31 conversion and therefore agree with "
    "the definition of line/column; positions lie within the file; the conversion is injective, so the hoisting of a fix's offsets "
    "into the violation (done when their line/column match) is sound. On real violations of all rules (fixtures, mutants, generated "
    "SQL, jinja templates) the position is checked to lie in the file, to identify the anchor's first character for literal anchors, "
    "and every offset is re-converted by the Lean reference walk; json/yaml/github-annotation/sarif outputs are parsed back. "
    "Partial: the choice of anchor segment by each rule is a sampled contract.",
    "Lean 4 proof (injectivity and range of the offset conversion) + Lean-evaluated spec on real violations",
    "Lean kernel; standard axioms; anchor choice of rules unmodelled (contract AnchorInSource, sampled)",
    "DESIGN.md §6 C23",
)

CHECKS["C08"] = (
    "Lean 4 theorems over the decision logic of JinjaTemplater.process: the marker search is exactly 'a `{` followed by `{`, `%` or `#`'; "
    "the fast path is taken only for non-empty marker-free text without macro/library configuration; whether or not it is taken the "
    "primary rendering equals Jinja's rendering, provided Jinja renders marker-free text to itself. The predicate is corresponded "
    "with the real code on all small strings x config probes; the contract and the end-to-end property are checked against an "
    "independently constructed jinja2 environment. Partial: Jinja2 is external.",
    "Lean 4 proof of decision logic + differential comparison with an independent Jinja2 environment",
    "Lean kernel; standard axioms; MarkerFreeIdentity is a sampled contract about Jinja2",
    "DESIGN.md §6 C08",
)
CHECKS["C09"] = (
    "Lean 4 theorem (full, placeholder): for every source, context and match list the rendered text is the source with each matched "
    "parameter replaced by its configured value or its name (quotation kept, nameless styles numbered) - tied to the code by the C07 "
    "correspondence over every KNOWN_STYLES key. Python templater (partial): the dot-notation rewrite regex is modelled exactly and "
    "corresponded with re.sub on all small strings; the templater's output is compared with an independent string.Formatter "
    "evaluation; two defects of the rewrite regex are kernel-checked witnesses and listed known findings.",
    "Lean 4 proof (fold invariant) + exhaustive small-scope correspondence of the regex scanner + differential rendering",
    "Lean kernel; standard axioms; str.format and the regex engines external",
    "DESIGN.md §6 C09",
)


CHECKS["C04"] = (
    "Lean 4 theorems over the exception funnel (render_string, _lex_templated_file, _parse_tokens with the node pre-check, BaseRule.crawl): a result "
    "is returned for every environment in which each engine raises only its own error class, reported as TMP/LXR/PRS; node and depth limits give PRS "
    "for every size; anything else escapes (witness). The funnel model is corresponded with the real Linter with every engine stubbed to return or "
    "raise each class. The hypothesis (engines raise only their own classes) and the end-to-end statement are sampled by stress inputs x dialects x "
    "templaters x rule selections x limit configurations through Linter, the simple API and the CLI, and on the fixed universe. Partial: engines are "
    "external to the model. Four crashes found this way were repaired (fix: commits), one is a listed known finding.",
    "Lean 4 proof of the funnel's decision logic + stub-driven correspondence + stress/differential runs",
    "Lean kernel; standard axioms; templater/lexer/parser/rule behaviour on an input is a parameter (contract StagesRaiseOwnErrors, sampled)",
    "DESIGN.md §6 C04",
)
CHECKS["C05"] = (
    "Lean 4 theorems: the result contains an 'Unexpected exception' violation iff some rule's _eval raised, and a raising rule never hides the "
    "others; C05 is thereby reduced to 'no rule raises on any tree', which is sampled: all rules in fix mode over the fixed universe (2249 "
    "fixtures, a seeded mutant of each, 400 generated statements, 300 jinja templates) and shuffled inputs under two non-default rule-option sets. "
    "Partial: the rule implementations are not modelled. Three internal errors found on the unchanged tree were repaired (AL05, AM04, CV05).",
    "Lean 4 proof (reduction) + exhaustive sweep of a fixed input universe + option-variation runs",
    "Lean kernel; standard axioms; rules are external to the model",
    "DESIGN.md §6 C05",
)
CHECKS["C06"] = (
    "Lean 4 theorems over a transcription of longest_match: pruning is transparent whenever dropped options would fail (HintSound), the parse cache "
    "is transparent over every history of calls whenever a key determines the fresh match (KeyDetermines) — by induction with the invariant that every "
    "entry equals the fresh result — and a kernel-checked witness shows KeyDetermines is necessary. The model is corresponded with the real function on stub "
    "matchers; both hypotheses are sampled on the real parser by shadow execution (every recomputation under a used key compared; dropped options matched "
    "anyway); whole-parse trees are compared normal / cache off / pruning off / both off, twice, after other files, and in fresh processes with "
    "different hash seeds, including systematically generated 'false terminator' statements. Partial: grammar match functions are parameters.",
    "Lean 4 proof (refinement of the optimised loop to the plain one) + stub correspondence + shadow execution",
    "Lean kernel; standard axioms; grammar behaviour is a parameter (contracts HintSound, KeyDetermines, sampled)",
    "DESIGN.md §6 C06",
)
CHECKS["C10"] = (
    "Lean 4 theorems: for raw slices tiling the source, a patch that passes the filter of generate_source_patches (through the two while loops of "
    "raw_slices_spanning_source_slice) and is not an explicit source fix touches no non-literal slice; hence the file rebuilt from any ordered disjoint "
    "family of such patches (C30) contains every tag, expression, comment and parameter verbatim and in order. The filter model is corresponded with the real "
    "function on real templated files with synthetic patch streams; the tiling hypothesis is checked on every templated file; the end-to-end statement is "
    "evaluated on real fix runs (jinja inline/block/glued empty expressions, python, placeholder styles; universe jinja slice). Partial: which patches "
    "the tree yields is not modelled. Clean-tree failures are listed by input.",
    "Lean 4 proof (loop transcription + splice lemma) + differential correspondence + end-to-end spec on real runs",
    "Lean kernel; standard axioms; _iter_templated_patches external; JJ01 source fixes exempt as the property says",
    "DESIGN.md §6 C10",
)
CHECKS["C11"] = (
    "Lean 4 theorems on top of C30: every source range that no applied patch touches is present verbatim (and in order) in fixString, for every "
    "source and every family of patch buffers; no patches = identity. Patch buffers of real fixes go through the Lean fixString and are compared with "
    "the file written. Byte level (outside the model): files assembled from clean lines and known-fix lines x six encodings, BOMs, LF/CRLF/CR, "
    "undecodable bytes — the CLI must leave clean lines byte-identical, not rewrite a clean file (inode, mtime), and agree with the API. The "
    "backslashreplace handling of undecodable bytes is a listed known finding.",
    "Lean 4 proof (splice lemma) + captured-patch correspondence + independent byte-level oracle",
    "Lean kernel; standard axioms; codecs and newline handling outside the model",
    "DESIGN.md §6 C11",
)
CHECKS["C12"] = (
    "Lean 4 theorems over the lexer model of C01: every token list the lexer produces is stable under re-lexing (for all matcher families and inputs), so "
    "instability can only be introduced by an edit; witnesses show gluing and splitting in a mini dialect. The Lean spec (same boundaries and kinds, tree "
    "text = written text) is evaluated on the real fixed tree vs the re-lexed output over the fixed universe x nine rule sets. Partial: the fix engine has "
    "no re-lex check, so the property is decided by the sweep; clean-tree failures are listed by input.",
    "Lean 4 proof (lexer fixed point) + Lean-evaluated spec on real fix runs over a fixed universe",
    "Lean kernel; standard axioms; rules/reflow external to the model",
    "DESIGN.md §6 C12",
)
CHECKS["C13"] = (
    "Lean 4 theorems over a transcription of the lint_fix_parsed loop (phases, proposals, conflict and validity gates, loop limit, previous-versions set): the "
    "result is the initial tree or one accepted by apply_fixes' validation; a runaway loop rolls back. The real loop is traced into tables and replayed through "
    "the Lean loop (same final tree). The validation works on the edited token list, not the re-lexed text, so the end-to-end statement is decided by the sweep: "
    "clean inputs of the universe x rule sets are fixed and re-parsed. Partial; clean-tree failures listed by input.",
    "Lean 4 proof (loop invariant) + trace-replay correspondence + end-to-end sweep",
    "Lean kernel; standard axioms; rules' proposals and apply_fixes are recorded tables (contract RulesAreFunctions)",
    "DESIGN.md §6 C13",
)
CHECKS["C14"] = (
    "Lean 4 theorems: an edit whose removed and inserted tokens have the same code projection and comments preserves the file's; so does any sequence of "
    "such edits (induction over the edit list); tokens of whitespace/newline class are neutral. A translator lists every segment constructor and "
    ".edit() call site in rules/layout and utils/reflow and the kernel re-checks that only WhitespaceSegment/NewlineSegment are constructed. The Lean spec (code tokens unchanged in text and order, comment multiset preserved) is evaluated on the "
    "original vs re-lexed fixed tokens over the fixed universe with the layout group and a non-default layout configuration. Partial: that each reflow "
    "edit is whitespace-only is what the sweep samples; clean-tree failures listed by input.",
    "Lean 4 proof (edit algebra) + Lean-evaluated spec on real fix runs over a fixed universe",
    "Lean kernel; standard axioms; reflow external to the model",
    "DESIGN.md §6 C14",
)
CHECKS["C15"] = (
    "Lean 4 theorems: the case-only relation is pointwise, leaves non-code and quoted tokens unchanged and is transitive (composes over successive fixes). "
    "The Lean spec is evaluated on original vs re-lexed fixed tokens over the fixed universe with the capitalisation group under the default and five explicit "
    "policies. Clean-tree failures (case changed inside quoted identifiers/strings in some dialects; the snake policy inserting underscores) are listed.",
    "Lean 4 proof (relation algebra) + Lean-evaluated spec on real fix runs over a fixed universe",
    "Lean kernel; standard axioms; CP rules external to the model",
    "DESIGN.md §6 C15",
)
CHECKS["C17"] = (
    "Lean 4 theorems over the fix-loop model: if the loop ends because no rule proposes anything (quiescent) a second run changes nothing; kernel-checked "
    "witnesses show how a stable exit differs from quiescence (an oscillating pair stopped by the seen-before check) and record that post-phase rules run "
    "in every main loop as the code stands (the trace correspondence corrected the model on this point). The real "
    "loop is traced and replayed through the model; the end-to-end statement (fix twice = fix once) is evaluated over the fixed universe x all/layout/"
    "alternative layout, including jinja templates. Partial; clean-tree failures listed by input.",
    "Lean 4 proof (loop model) + trace-replay correspondence + end-to-end sweep",
    "Lean kernel; standard axioms; rules' proposals are recorded tables",
    "DESIGN.md §6 C17",
)


CHECKS["C16"] = (
    "Lean 4 theorems over a three-valued-logic evaluator of scalar SQL (NULL/integers, SQLite truthiness, right-nested CASE): the rewrites of ST01, ST02 (four "
    "forms), ST04, CV01, CV02 and ST09 evaluate identically for every row and all sub-expressions; CV05's rewrite does not (witness), which is why the property "
    "excludes it. The evaluator is corresponded with SQLite on generated expressions x rows; each modelled rule is checked to emit the form the theorem is "
    "about; the statement itself is sampled by differential execution in SQLite of generated queries (joins, grouping, CTEs, set operations, subqueries, "
    "fixable anti-patterns) before and after fixing with all rules except ST06/CV05. Partial: statement-level semantics are not modelled. A failure is "
    "attributed to the single rule that reproduces it; RF03's qualification of GROUP BY ordinals is a listed known finding.",
    "Lean 4 proof (expression equivalences under 3VL) + evaluator correspondence with SQLite + differential execution",
    "Lean kernel; standard axioms; SQLite is the oracle for query results; rule implementations external (contract RewriteShape)",
    "DESIGN.md §6 C16",
)
CHECKS["C32"] = (
    "Lean 4 theorems over the process-wide mutable state: the mutation allowed_rule_ref_map performs on the shared reference map is idempotent, so its result is "
    "the same after any number of earlier calls; ids from the class-level BlockTracker map are equal exactly when the source slices are, from every reachable "
    "state (invariant: injective map below the fresh-id supply). Both models are corresponded with the real functions. The statement is sampled on histories: "
    "generated project directories, random sequences of lint/parse/render through CLI and API, every file snapshotted (bytes, mtime, inode, mode, listing), "
    "targets re-linted in-process with the same and new Linters and in fresh processes with random hash seeds. Partial: other caches are covered by the "
    "histories only.",
    "Lean 4 proof (idempotence; injectivity invariant) + differential correspondence + history runs with snapshots",
    "Lean kernel; standard axioms; file system and other module-level caches observed, not modelled",
    "DESIGN.md §6 C32",
)

NOT_YET = {}


def main():
    props = [json.loads(l) for l in (VERIF / "properties.jsonl").read_text().splitlines() if l.strip()]
    checks = []
    na = []
    for p in props:
        pid = p["id"]
        if pid in CHECKS:
            text, tech, note, ref = CHECKS[pid]
            checks.append({
                "property_id": pid,
                "quick_cmd": "./check %s --tier quick" % pid,
                "thorough_cmd": "./check %s --tier thorough" % pid,
                "evidence_file": "evidence/%s.json" % pid,
                "replay_cmd_template": "./check %s --replay {path}" % pid,
                "engine": "lean4-model+correspondence",
                "level_claimed": {"category": "proof", "text": text, "design_ref": ref},
                "level_note": note,
                "technique": tech,
            })
        else:
            na.append({"property_id": pid, "reason": NOT_YET.get(pid, "check not built yet in this commit (work in progress; see DESIGN.md §11 for the order)")})
    man = {
        "version": 1,
        "setup_cmd": "./check --setup",
        "hooks": {
            "guard": "SQLFLUFF_VERIF",
            "enable": "export SQLFLUFF_VERIF=1 (the ./check wrapper sets it) and, for the worker-delay hook, SQLFLUFF_VERIF_DELAY_SEED=<int>; sqlfluff is installed editable from /repo so no rebuild is needed",
            "baseline_off_cmd": "cd /repo && env -u SQLFLUFF_VERIF /venv/bin/python -m pytest -ra -q -p no:cacheprovider --timeout=900 --continue-on-collection-errors",
            "source_commits": ["a964fe3"],
            "add_only": True,
        },
        "engines": [{
            "name": "lean4-model+correspondence",
            "path": "lean/ + harness/",
            "serves_properties": [c["property_id"] for c in checks],
            "kind_free_text": "Lean 4 models and theorems (lake project lean/), Python translators regenerating lean/SqlfluffVerif/Gen, and a differential correspondence harness driving the compiled Lean model driver against the real sqlfluff code",
        }],
        "checks": checks,
        "not_applicable": na,
        "notes": "Exit codes: 0 held, 1 violation (VIOLATION line), 2 infrastructure failure. known_findings.json lists triaged genuine defects.",
    }
    (VERIF / "MANIFEST.json").write_text(json.dumps(man, indent=1) + "\n")


if __name__ == "__main__":
    main()
