#!/bin/bash
# developer tool: every claimed check for the given seeds on the current /verif and /repo (one line per run)
cd /verif
checks=$(python3 -c "import json;print(' '.join(c['property_id'] for c in json.load(open('MANIFEST.json'))['checks']))")
for s in "$@"; do for c in $checks; do
  out=$(VERIF_SEED=$s timeout 1500 ./check $c 2>&1 | grep -v '^KNOWN-FINDING' | tail -2 | tr '\n' ' ')
  echo "seed=$s $out"
done; done
