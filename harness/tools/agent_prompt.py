import json,sys
pid=sys.argv[1]
avoid=sys.argv[2] if len(sys.argv)>2 else ''
out=sys.argv[3] if len(sys.argv)>3 else pid
for l in open('/verif/properties.jsonl'):
    p=json.loads(l)
    if p['id']==pid: break
print(f"""You are helping test a verification framework for the open-source SQL linter sqlfluff by writing a *seeded defect*: a small, realistic change to sqlfluff's source that breaks one stated property while still compiling and passing the existing test-suite.

Work ONLY inside the scratch git worktree at /tmp/wt_{out} (a checkout of sqlfluff). Do not touch /repo or /verif, and do not read anything under /verif. To run Python against your worktree use:
    cd /tmp/wt_{out} && PYTHONPATH=/tmp/wt_{out}/src /venv/bin/python ...
(the venv has sqlfluff's dependencies and pytest; `PYTHONPATH` makes `import sqlfluff` resolve to your worktree - verify with `python -c "import sqlfluff; print(sqlfluff.__file__)"`). There is no network.

THE PROPERTY ({pid} - {p['title']}):
{p['statement']}
Quantified over: {p['quantifier']['text']}

YOUR TASK
1. Read the relevant sqlfluff source under /tmp/wt_{out}/src/sqlfluff and devise a change (a plausible bug a developer could introduce: an off-by-one, a wrong comparison, a dropped branch, a reordered step, a stale cache, a missed case, two sites that each look fine alone...) that makes the property FALSE for some inputs.
2. The change must need something specific to manifest - an unusual input, a particular multi-step sequence, a rare configuration, a corner case - NOT something ordinary use would expose at once. It must NOT break the existing tests: run the most relevant test files with
       cd /tmp/wt_{out} && PYTHONPATH=/tmp/wt_{out}/src /venv/bin/python -m pytest -q -p no:cacheprovider -x -n 4 <relevant test paths>
   (e.g. test/core/..., test/api, test/cli, test/rules for rule changes; do not run the whole suite, it takes too long; pick the test directories that cover the files you changed and make sure they pass). If a test fails because of your change, refine the change so that tests pass but the property is still broken.
3. Write a demonstration: a small standalone Python script (or pytest file) that exits non-zero / fails WITH your change and exits zero / passes WITHOUT it (check both by `git diff > /tmp/seed_out/{out}/patch.diff; git checkout -- .; <run demo>; git apply /tmp/seed_out/{out}/patch.diff`; NEVER use `git stash` - the stash is shared with other worktrees of the same repository and other people are using them concurrently).
4. Produce these files in /tmp/seed_out/{out}/ (create the directory):
   - patch.diff   : `git diff` of your change (source files only, relative to the worktree root, applicable with `git apply`)
   - demo.py      : the demonstration script; it must be runnable as `PYTHONPATH=<root>/src /venv/bin/python demo.py` for any checkout root, so do not hard-code /tmp/wt_{out} inside it (import sqlfluff normally)
   - meta.json    : {{"property": "{pid}", "summary": "...what the change does...", "needs": "...what specific input/sequence/config is needed for it to manifest...", "tests_run": "...the pytest command(s) you ran and their result...", "files_changed": [...]}}
5. Leave the worktree with your change applied (uncommitted is fine). Keep the patch small (ideally under 15 changed lines).

{("ALREADY EXPLORED (choose a different mechanism and a different file if you can): " + avoid) if avoid else ""}

Report back briefly: what the change is, what input triggers it, and which tests you ran. Be subtle and realistic; prefer a change in the core mechanism the property depends on.""")
