"""Developer tool: turn a universe sweep (vlib/fixrun.py sweep) into input-keyed known-findings entries.
usage: findings_from_sweep.py <sweep.json> [--refresh name:ruleset ...]   (run from /verif/harness)
Only ever run by hand on the unchanged tree; checks never write known_findings.json."""
import json
import sys
import os

sys.path.insert(0, os.path.dirname(os.path.dirname(os.path.abspath(__file__))))
from vlib import corpus, fixrun  # noqa: E402

REL = {"C04": None, "C05": None, "C10": ("all", "layout"), "C12": None, "C13": None,
       "C14": ("layout", "layout_alt"),
       "C15": ("capitalisation", "cap_upper", "cap_lower", "cap_pascal", "cap_snake", "cap_camel"),
       "C17": ("all", "layout", "layout_alt")}
WHAT = {"C04": "fix raised an exception instead of returning a result",
        "C05": "a rule raised an internal error ('Unexpected exception' violation)",
        "C10": "fix changes, loses or duplicates template code of the source",
        "C12": "re-lexing the fixed SQL gives different token boundaries/kinds than the fixed tree (tokens glued or split by a fix)",
        "C13": "the input renders, lexes and parses cleanly but the text produced by fix does not",
        "C14": "fixing with the layout rules changed the sequence of code tokens or the comments",
        "C15": "fixing with the capitalisation rules changed more than the letter case of unquoted code",
        "C17": "running fix again on its own output changes the file"}


def main():
    path = sys.argv[1]
    res = json.load(open(path))
    if "--refresh-internal" in sys.argv:
        todo = [(x["name"], x["ruleset"]) for x in res if x.get("internal") or x.get("raised")]
        items = {(corpus.name_of(i), i[3]): i for i in corpus.full_universe()}
        for key in todo:
            new = fixrun._work(items[key])
            for k, x in enumerate(res):
                if (x["name"], x["ruleset"]) == key:
                    res[k] = new
        json.dump(res, open(path, "w"), indent=0)
    kf_path = os.path.join(os.path.dirname(os.path.dirname(os.path.dirname(os.path.abspath(__file__)))), "known_findings.json")
    kf = json.load(open(kf_path))
    kf["findings"] = [f for f in kf["findings"] if not (f["key"].startswith("input:") and f["key"].rsplit(":", 1)[-1] in REL and f["kind"] == "known"
                                                        and f["property"] in REL)]
    n = {}
    for x in res:
        v = dict(x.get("verdicts") or {})
        for p, rss in REL.items():
            if rss is not None and x["ruleset"] not in rss:
                continue
            if v.get(p) is False:
                kf["findings"].append({"property": p, "kind": "known", "key": "input:%s:%s:%s" % (x["name"], x["ruleset"], p),
                                       "what": "%s [%s, rules=%s]: %s" % (x["name"], x["dialect"], x["ruleset"], WHAT[p])})
                n[p] = n.get(p, 0) + 1
    json.dump(kf, open(kf_path, "w"), indent=1)
    print(n, len(kf["findings"]))


if __name__ == "__main__":
    main()
