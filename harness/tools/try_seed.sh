#!/bin/bash
# usage: try_seed.sh <seed dir> <prop> [more props]
d=$1; shift
cd /repo && git status --short | grep -v '^??' | head -3
echo "== demo on clean /repo (expect 0)"; (cd /tmp && PYTHONPATH=/repo/src timeout 600 /venv/bin/python $d/demo.py >/dev/null 2>&1; echo rc=$?)
git -C /repo apply $d/patch.diff || { echo "PATCH DOES NOT APPLY"; exit 1; }
echo "== demo with patch (expect non-zero)"; (cd /tmp && PYTHONPATH=/repo/src timeout 600 /venv/bin/python $d/demo.py >/dev/null 2>&1; echo rc=$?)
for p in "$@"; do
  echo "== check $p with patch"; (cd /verif && timeout 1500 ./check $p 2>&1 | grep -v "^KNOWN-FINDING" | tail -4)
done
git -C /repo checkout -- . ; git -C /repo status --short | grep -v '^??' | head -3
