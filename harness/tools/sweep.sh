#!/bin/bash
# seed sweep over every claimed check (run from a /verif snapshot): prints one line per (check, seed)
./check --setup > /tmp/sweep_setup.log 2>&1 || { echo SETUP-FAILED; tail -5 /tmp/sweep_setup.log; exit 2; }
checks=$(python3 -c "import json;print(' '.join(c['property_id'] for c in json.load(open('MANIFEST.json'))['checks']))")
for s in "$@"; do for c in $checks; do
  out=$(VERIF_SEED=$s timeout 1500 ./check $c 2>&1 | grep -v '^KNOWN-FINDING' | tail -3 | tr '\n' ' ')
  echo "seed=$s $out"
done; done
