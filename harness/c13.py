"""C13 — fixing never makes a parsable file unparsable.

Theorems: Props/C13.lean over Model/FixLoop.lean (the loop of Linter.lint_fix_parsed: phases, per-rule proposals, conflict and
validity gates, loop limit, previous-versions set). Tie: the real loop is traced (vlib/looptrace.py) into finite tables and replayed
through the Lean loop — same final tree; the end-to-end statement is evaluated on real `fix` runs over the fixed universe of
vlib/corpus.py x rule sets (including jinja templates). Clean-tree failures are genuine defects listed in known_findings.json by input.
"""
import json

from vlib import fixchecks

PROP = "C13"
RULESETS = "all layout capitalisation cap_upper cap_lower cap_pascal cap_snake cap_camel layout_alt".split()
WHAT = "the file renders, lexes and parses cleanly but the text produced by fix does not"


def run(ctx, prove=True):
    ctx.rule = ("one fix run (+ re-parse / second fix of the output) per (input, rule set) of the fixed universe (fixtures, seeded mutants, generated SQL, "
                "generated jinja templates); quick = seed-chosen slice, thorough = all; plus traced fix loops replayed through the Lean model; "
                "non-trivial = fix changed the file / loop visited more than one tree; distinct by (input, rule set)")
    if prove:
        ctx.prove(["SqlfluffVerif.Props.C13"], ["Props/C13.lean"])
    ctx.assumptions += ["RulesAreFunctions: within one fix run a rule proposes the same fixes on the same tree (sampled contract, needed to tabulate the loop)"]
    ctx.partial += ["what each rule proposes and what apply_fixes returns are tables recorded from the real run, not modelled"]
    fixchecks.loop_correspondence(ctx, 24, 600)
    fixchecks.run_universe(ctx, PROP, RULESETS, ctx.budget(300, 10 ** 9), WHAT, focus=("cmt", "edge"))


def search(ctx):
    saved = (list(ctx.proof_broken), list(ctx.corr_broken), list(ctx.contract_fail))
    run(ctx, prove=False)
    ctx.proof_broken, ctx.corr_broken, ctx.contract_fail = saved


def replay(ctx, path):
    case = json.load(open(path))["case"]
    print(json.dumps(case, indent=1)[:3000])
    return 0
