"""C24 — parallel and serial runs agree.

Theorems: Props/C24.lean (assembly is invariant under any permutation of worker completion).
Tie / contract PerFileFunctional: real runs over directories of generated files with processes in {1,2,4} and
completion order steered by the guarded hook in ParallelRunner._apply (SQLFLUFF_VERIF=1 +
SQLFLUFF_VERIF_DELAY_SEED: seeded per-file delay inside the spawned workers), and with permuted path lists;
per-file violations, fixed file contents and exit status are compared with the serial run.
"""
import json
import os
import shutil
import subprocess
import sys
import tempfile

from vlib import gen

PROP = "C24"

RUNNER = r'''
import json, sys, os, logging
logging.disable(logging.CRITICAL)
from sqlfluff.core import Linter, FluffConfig
args = json.loads(sys.argv[1])
os.chdir(args["cwd"])
cfg = FluffConfig(overrides={"dialect": "ansi", "large_file_skip_byte_limit": 4000})
lnt = Linter(config=cfg)
res = lnt.lint_paths(tuple(args["paths"]), fix=args["fix"], apply_fixes=args["fix"], processes=args["processes"])
out = {"records": {}, "stats": res.stats(1, 0)["exit code"], "skipped": res.files_skipped}
for rec in res.as_records():
    out["records"][os.path.normpath(rec["filepath"])] = sorted((v["code"], v["start_line_no"], v["start_line_pos"], v["description"]) for v in rec["violations"])
print("RESULT" + json.dumps(out))
'''


def make_tree(rng, d):
    names = []
    for i in range(rng.randint(5, 8)):
        sub = rng.choice(["", "", "a", "b/c"])
        os.makedirs(os.path.join(d, sub), exist_ok=True)
        name = os.path.join(sub, "f%d.sql" % i)
        r = rng.random()
        if r < 0.7:
            txt = gen.sql_file(rng)
        elif r < 0.8:
            txt = "SELECT a  FROM t WHERE (\n"
        elif r < 0.9:
            txt = "SELECT a  FROM t -- " + "x" * 4100 + "\n"     # over the byte limit: skipped
        else:
            txt = "select 1\n"
        if rng.random() < 0.3:
            # in-file configuration: applies to this file only, whatever else is linted in the same run or directory
            txt = rng.choice(["-- sqlfluff:rules:capitalisation.keywords:capitalisation_policy:lower\n", "-- sqlfluff:exclude_rules:LT01,CP01\n",
                              "-- sqlfluff:rules:LT01\n", "-- sqlfluff:max_line_length:30\n", "-- sqlfluff:dialect:postgres\n"]) + txt
        open(os.path.join(d, name), "w").write(txt)
        names.append(name)
    if rng.random() < 0.5:
        os.makedirs(os.path.join(d, "a"), exist_ok=True)
        open(os.path.join(d, "a", ".sqlfluff"), "w").write("[sqlfluff]\n" + rng.choice(["exclude_rules = LT01\n", "max_line_length = 40\n", "rules = CP01,LT01\n"]))
    return names


def run_one(cwd, paths, fix, processes, delay_seed):
    env = dict(os.environ, SQLFLUFF_VERIF="1")
    if delay_seed is not None:
        env["SQLFLUFF_VERIF_DELAY_SEED"] = str(delay_seed)
    else:
        env.pop("SQLFLUFF_VERIF_DELAY_SEED", None)
    p = subprocess.run(["/venv/bin/python", "-c", RUNNER, json.dumps({"cwd": cwd, "paths": paths, "fix": fix, "processes": processes})],
                       capture_output=True, text=True, env=env, timeout=600)
    for line in p.stdout.splitlines():
        if line.startswith("RESULT"):
            return json.loads(line[6:])
    raise RuntimeError("runner failed: %s" % p.stderr[-800:])


def snapshot(d, names):
    return {n: open(os.path.join(d, n)).read() for n in names}


def run(ctx, prove=True):
    ctx.rule = ("directories of 5-8 generated files (clean, with violations, unparsable, oversized, with in-file directives, nested config) linted and fixed with processes 1 (serial reference), "
                "2 and 4, with seeded per-file worker delays (hook) and permuted path lists; each comparison = one (tree, mode, processes, delay seed, "
                "path order); non-trivial = parallel run with an injected delay")
    if prove:
        ctx.prove(["SqlfluffVerif.Props.C24"], ["Props/C24.lean"])
    ctx.assumptions += ["PerFileFunctional: a file's result depends only on its content and configuration (sampled here)",
                        "OS scheduling and multiprocessing internals are not modelled; completion order is steered through the guarded hook"]
    ctx.partial += ["the schedule space is sampled through injected delays, not enumerated"]
    rng = ctx.rng
    for t in range(ctx.budget(2, 12)):
        base = tempfile.mkdtemp(prefix="verif_c24_")
        try:
            names = make_tree(rng, base)
            orig = snapshot(base, names)
            # serial references
            ref_lint = run_one(base, names, False, 1, None)
            work = tempfile.mkdtemp(prefix="verif_c24w_")
            shutil.copytree(base, work, dirs_exist_ok=True)
            ref_fix = run_one(work, names, True, 1, None)
            ref_fixed = snapshot(work, names)
            shutil.rmtree(work, ignore_errors=True)
            variants = []
            for processes in (2, 4):
                for k in range(ctx.budget(1, 3)):
                    order = list(names); rng.shuffle(order)
                    variants.append((processes, rng.randint(1, 10 ** 6), order if k % 2 == 0 else ["."]))
            # the serial runner with the paths in another order must agree with itself too
            variants.append((1, None, list(reversed(names))))
            for (processes, dseed, order) in variants:
                for fix in (False, True):
                    work = tempfile.mkdtemp(prefix="verif_c24w_")
                    try:
                        shutil.copytree(base, work, dirs_exist_ok=True)
                        got = run_one(work, order, fix, processes, dseed)
                        after = snapshot(work, names)
                    finally:
                        shutil.rmtree(work, ignore_errors=True)
                    ref = ref_fix if fix else ref_lint
                    case = {"files": {n: orig[n][:300] for n in names}, "processes": processes, "delay_seed": dseed, "paths": order, "fix": fix}
                    ctx.count(json.dumps([t, processes, dseed, order, fix]), nontrivial=True,
                              sample={"files": len(names), "processes": processes, "delay_seed": dseed, "paths": order, "fix": fix} if len(ctx.samples) < 4 else None)
                    ctx.bump("parallel_runs")
                    if got["records"] != ref["records"]:
                        diff = [n for n in set(got["records"]) | set(ref["records"]) if got["records"].get(n) != ref["records"].get(n)]
                        ctx.violation("per-file violations differ between the serial run and a parallel run", dict(case, differing=diff[:3],
                                      serial={n: ref["records"].get(n) for n in diff[:2]}, parallel={n: got["records"].get(n) for n in diff[:2]}))
                    if got["stats"] != ref["stats"] or got["skipped"] != ref["skipped"]:
                        ctx.violation("exit status / skipped count differ between serial and parallel runs",
                                      dict(case, serial=[ref["stats"], ref["skipped"]], parallel=[got["stats"], got["skipped"]]))
                    want_files = ref_fixed if fix else orig
                    if after != want_files:
                        diff = [n for n in names if after[n] != want_files[n]]
                        ctx.violation("fixed file contents differ between serial and parallel runs" if fix else "a lint run modified files",
                                      dict(case, differing=diff[:3]))
        finally:
            shutil.rmtree(base, ignore_errors=True)


def search(ctx):
    saved = (list(ctx.proof_broken), list(ctx.corr_broken), list(ctx.contract_fail))
    run(ctx, prove=False)
    ctx.proof_broken, ctx.corr_broken, ctx.contract_fail = saved


def replay(ctx, path):
    case = json.load(open(path))["case"]
    print(json.dumps(case, indent=1)[:3000])
    return 0
