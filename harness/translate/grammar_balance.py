"""Translator: every dialect's grammar as a skeleton that keeps only what matters for indent accounting (C03).

Node encoding (a tree of tuples, later flattened for Lean):
  ("meta", v, cond)      an Indent/Dedent/ImplicitIndent (v = +1/-1) — cond = 0 unconditional, else an id of the Conditional's config rule
  ("seq", [nodes])       Sequence / Bracketed (the bracket's own Indent/Dedent pair cancels; metas that are direct elements of a
                         bracket's content are dropped, as Bracketed.match drops them — at any depth below the bracket, up to the next reference)
  ("alt", [nodes])       OneOf / AnyNumberOf(max_times=1) / OptionallyBracketed
  ("rep", [nodes])       AnyNumberOf with repetition, AnySetOf, Delimited (elements and delimiter)
  ("opt", node)          optional wrapper
  ("ref", name)          reference to a library entry (segment class or named grammar)
  ("leaf",)              anything that inserts no meta

Obligation per library entry: the set of possible net indent vectors of its skeleton is {0}, counting each reference as 0
(induction over the tree then gives: every complete match has balance 0 for every configuration).
"""
from __future__ import annotations


FIXED_CONDS = {(("indented_joins", True),): 1, (("indented_joins", False),): 2, (("indented_then", True),): 3}


def convert_object(o):
    """Skeleton of one grammar object with the fixed condition numbering used by the synthetic correspondence."""
    return _converter(dict(FIXED_CONDS), [])(o)


def skeletons(label):
    """-> (entries: {name: node}, conds: {cond_id: repr}, notes)"""
    from sqlfluff.core.dialects import dialect_selector
    dialect = dialect_selector(label)
    lib = dialect._library
    conds = {}
    notes = []
    conv = _converter(conds, notes)
    from sqlfluff.core.parser.segments.base import BaseSegment
    entries = {}
    for name, v in lib.items():
        if isinstance(v, type) and issubclass(v, BaseSegment):
            mg = getattr(v, "match_grammar", None)
            entries[name] = conv(mg) if mg is not None else ("leaf",)
        else:
            entries[name] = conv(v)
    return entries, {v: repr(k) for k, v in conds.items()}, notes


def strip_metas(n):
    t = n[0]
    if t == "meta":
        return ("leaf",)
    if t == "opt":
        return ("opt", strip_metas(n[1]))
    if t in ("seq", "alt", "rep"):
        return (t, [strip_metas(e) for e in n[1]])
    return n


def _converter(conds, notes):
    from sqlfluff.core.parser.grammar.base import BaseGrammar, Ref, Anything, Nothing
    from sqlfluff.core.parser.grammar.sequence import Sequence, Bracketed
    from sqlfluff.core.parser.grammar.anyof import AnyNumberOf, OneOf, OptionallyBracketed, AnySetOf
    from sqlfluff.core.parser.grammar.delimited import Delimited
    from sqlfluff.core.parser.grammar.conditional import Conditional
    from sqlfluff.core.parser.segments.base import BaseSegment
    from sqlfluff.core.parser.segments.meta import Indent, MetaSegment

    def cond_id(rules):
        key = tuple(sorted(rules.items()))
        if key not in conds:
            conds[key] = len(conds) + 1
        return conds[key]

    def opt(o, n):
        try:
            return ("opt", n) if o.is_optional() else n
        except Exception:
            return n

    def conv(o, depth=0):
        if depth > 60:
            notes.append("depth limit"); return ("leaf",)
        if isinstance(o, type):
            if issubclass(o, Indent):
                return ("meta", int(o.indent_val), 0)
            if issubclass(o, MetaSegment):
                return ("leaf",)
            return ("leaf",)          # a segment class used inline: its own grammar is a separate obligation (anonymous classes are rare)
        if isinstance(o, Conditional):
            return ("meta", int(o._meta.indent_val), cond_id(dict(o._config_rules)))
        if isinstance(o, Ref):
            return opt(o, ("ref", o._ref))
        if isinstance(o, (Anything, Nothing)):
            return ("leaf",)
        if isinstance(o, Delimited):
            els = [conv(e, depth + 1) for e in o._elements] + [conv(o.delimiter, depth + 1)]
            return opt(o, ("rep", els))
        if isinstance(o, OptionallyBracketed):
            return opt(o, ("alt", [conv(e, depth + 1) for e in o._elements]))
        if isinstance(o, AnyNumberOf):
            els = [conv(e, depth + 1) for e in o._elements]
            if isinstance(o, AnySetOf) or o.max_times != 1:
                n = ("rep", els)
            else:
                n = ("alt", els)
            if o.min_times == 0:
                n = ("opt", n)
            return opt(o, n)
        if isinstance(o, Bracketed):
            # Bracketed.match keeps only the *child matches* of its content match, and Sequence/OneOf/Delimited merge the inserts
            # of unclassed sub-matches into their own: every meta inside the bracket that is not inside a classed segment
            # (a `ref`) is dropped by the engine. The bracket's own Indent/Dedent pair cancels.
            return opt(o, ("seq", [strip_metas(conv(e, depth + 1)) for e in o._elements]))
        if isinstance(o, Sequence):
            return opt(o, ("seq", [conv(e, depth + 1) for e in o._elements]))
        if isinstance(o, BaseGrammar):
            els = getattr(o, "_elements", None)
            if els:
                notes.append("unknown grammar class %s treated as seq" % type(o).__name__)
                return opt(o, ("seq", [conv(e, depth + 1) for e in els]))
            return ("leaf",)
        return ("leaf",)              # parsers

    return conv


ZERO = ()


def vadd(a, b):
    d = dict(a)
    for k, v in b:
        d[k] = d.get(k, 0) + v
    return tuple(sorted((k, v) for k, v in d.items() if v != 0))


def balances(node, cap=24):
    """Set of possible net indent vectors ({cond: sum}); None = too many / unbounded."""
    t = node[0]
    if t in ("leaf", "ref"):
        return {ZERO}
    if t == "meta":
        return {((node[2], node[1]),)}
    if t == "opt":
        b = balances(node[1], cap)
        return None if b is None else b | {ZERO}
    if t == "alt":
        out = set()
        for e in node[1]:
            b = balances(e, cap)
            if b is None:
                return None
            out |= b
        return out or {ZERO}
    if t == "rep":
        for e in node[1]:
            b = balances(e, cap)
            if b is None or b - {ZERO}:
                return None          # a repeated element that is not neutral: unbounded
        return {ZERO}
    if t == "seq":
        out = {ZERO}
        for e in node[1]:
            b = balances(e, cap)
            if b is None:
                return None
            out = {vadd(x, y) for x in out for y in b}
            if len(out) > cap:
                return None
        return out
    raise ValueError(t)


def survey(label):
    entries, conds, notes = skeletons(label)
    bad = {}
    for name, n in entries.items():
        b = balances(n)
        if b is None or b != {ZERO}:
            bad[name] = None if b is None else sorted(b)
    return entries, conds, bad, notes


if __name__ == "__main__":
    import sys
    from sqlfluff.core.dialects import dialect_readout
    labels = sys.argv[1:] or [d.label for d in dialect_readout()]
    tot = 0
    for l in labels:
        entries, conds, bad, notes = survey(l)
        tot += len(entries)
        print(l, len(entries), "entries;", len(bad), "not provably balanced:", {k: v for k, v in list(bad.items())[:12]}, set(notes))
    print(tot)


# ------------------------------------------------------------------------------------------
# Lean emission

def has_meta(n):
    t = n[0]
    if t == "meta":
        return True
    if t == "opt":
        return has_meta(n[1])
    if t in ("seq", "alt", "rep"):
        return any(has_meta(e) for e in n[1])
    return False


def inline(n, name, body):
    t = n[0]
    if t == "ref":
        return body if n[1] == name else n
    if t == "opt":
        return ("opt", inline(n[1], name, body))
    if t in ("seq", "alt", "rep"):
        return (t, [inline(e, name, body) for e in n[1]])
    return n


def refs_of(n, out):
    t = n[0]
    if t == "ref":
        out.add(n[1])
    elif t == "opt":
        refs_of(n[1], out)
    elif t in ("seq", "alt", "rep"):
        for e in n[1]:
            refs_of(e, out)
    return out


def resolve_fragments(entries):
    """Entries that are not neutral on their own but make every user neutral when inlined are fragments (e.g. a clause
    that opens an indent its only caller closes). Returns (entries after inlining, fragments, findings)."""
    entries = dict(entries)
    flagged = [k for k, n in entries.items() if balances(n) != {ZERO}]
    fragments, findings = [], []
    for name in flagged:
        users = [k for k, n in entries.items() if k != name and name in refs_of(n, set())]
        trial = {k: inline(entries[k], name, entries[name]) for k in users}
        if users and all(balances(trial[k]) == {ZERO} for k in users):
            entries.update(trial)
            fragments.append(name)
    for name in flagged:
        if name in fragments:
            continue
        if balances(entries[name]) != {ZERO}:
            findings.append(name)
    return entries, fragments, findings


def lean_node(n):
    t = n[0]
    if t == "meta":
        return ".ind (%d) %d" % (n[1], n[2])
    if t == "leaf":
        return ".leaf"
    if t == "ref":
        return ".ref"
    if t == "opt":
        return ".opt (%s)" % lean_node(n[1])
    return ".%s [%s]" % (t, ", ".join(lean_node(e) for e in n[1]))


def lean_vecset(b):
    if b is None:
        return "none"
    vs = []
    for vec in sorted(b):
        d = dict(vec)
        vs.append("[" + ", ".join(str(d.get(i, 0)) for i in range(16)) + "]")
    return "some [" + ", ".join(vs) + "]"


def generate(labels=None, known=None):
    """Writes Gen/GrammarSkel.lean. known: set of 'grammar:<dialect>:<Entry>' keys that may be listed as findings.
    Returns info dict for the harness."""
    from sqlfluff.core.dialects import dialect_readout
    from vlib import core
    labels = labels or [d.label for d in dialect_readout()]
    global_conds = {}
    rows, row_idx = [], {}
    finding_rows = []
    info = {"dialects": {}, "findings": [], "fragments": [], "notes": []}
    for label in labels:
        entries, conds, notes = skeletons(label)
        # renumber conditions globally (same config rule = same component in every dialect)
        remap = {}
        for cid, rep in conds.items():
            remap[cid] = global_conds.setdefault(rep, len(global_conds) + 1)
        def rn(n):
            t = n[0]
            if t == "meta":
                return ("meta", n[1], remap.get(n[2], 0) if n[2] else 0)
            if t == "opt":
                return ("opt", rn(n[1]))
            if t in ("seq", "alt", "rep"):
                return (t, [rn(e) for e in n[1]])
            return n
        entries = {k: rn(v) for k, v in entries.items()}
        entries2, fragments, findings = resolve_fragments(entries)
        n_meta = 0
        for name, n in entries2.items():
            if name in fragments or not has_meta(n):
                continue
            n_meta += 1
            term = lean_node(n)
            if name in findings:
                finding_rows.append((label, name, term, lean_vecset(balances(n))))
                continue
            if term not in row_idx:
                row_idx[term] = len(rows)
                rows.append(term)
        info["dialects"][label] = {"entries": len(entries), "with_metas": n_meta, "fragments": fragments, "findings": findings}
        info["findings"] += [(label, f) for f in findings]
        info["fragments"] += [(label, f) for f in fragments]
        info["notes"] += notes
    assert len(global_conds) < 15, "more Conditional rules than vector components"
    out = ["import SqlfluffVerif.Props.C03b", "/-! GENERATED by harness/translate/grammar_balance.py from the live dialect objects. Do not edit. -/",
           "namespace SqlfluffVerif.Gen.Skel", "open SqlfluffVerif.Skel", ""]
    out.append("/-! Conditional rules (vector components): " + "; ".join("%d = %s" % (v, k) for k, v in sorted(global_conds.items(), key=lambda x: x[1])) + " -/")
    chunks = [rows[i:i + 60] for i in range(0, len(rows), 60)]
    for ci, ch in enumerate(chunks):
        out.append("def rows%d : List Node := [\n  %s]" % (ci, ",\n  ".join(ch)))
        out.append("theorem rows%d_neutral : rows%d.all neutral = true := by decide +kernel\n" % (ci, ci))
    out.append("def rows : List Node := " + (" ++ ".join("rows%d" % i for i in range(len(chunks))) or "[]"))
    out.append("theorem rows_all : rows.all neutral = true := by\n  simp only [rows, List.all_append, Bool.and_eq_true]\n  exact %s" % (
        "⟨" * max(0, len(chunks) - 1) + ", ".join(("rows%d_neutral" % i) + ("⟩" if i > 0 else "") for i in range(len(chunks))) if chunks else "rfl"))
    out.append("theorem rows_neutral : ∀ e ∈ rows, neutral e = true := fun e he => List.all_eq_true.mp rows_all e he")
    out.append("\n/-- every complete match of every library entry of every bundled dialect that is listed in `rows` balances its indentation markers,\n    for every configuration, references resolved to any depth -/")
    out.append("theorem dialect_grammars_balanced : ∀ (h : Nat), ∀ e ∈ rows, ∀ w, Dh rows h e w → w = zero :=\n  C03_grammar_balanced rows rows_neutral\n")
    out.append("/-- the entries that are not neutral, with what the analysis computes for them (known findings of C03) -/")
    out.append("def sameSet (a b : Option (List Vec)) : Bool := match a, b with\n  | none, none => true\n  | some x, some y => x.all y.contains && y.all x.contains\n  | _, _ => false")
    for k, (label, name, term, exp) in enumerate(finding_rows):
        out.append("/-- %s %s -/\ntheorem finding%d : sameSet (vecs 40 (%s)) (%s) = true := by decide +kernel" % (label, name, k, term, exp))
    out.append("\nend SqlfluffVerif.Gen.Skel\n")
    core.write_if_changed(core.GEN / "GrammarSkel.lean", "\n".join(out))
    info["rows"] = len(rows)
    info["conds"] = {v: k for k, v in global_conds.items()}
    return info
