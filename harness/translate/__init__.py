"""Translators: regenerate lean/SqlfluffVerif/Gen/*.lean from /repo's live objects."""
import json

from vlib import core


def known_dangling():
    """{dialect: set(names)} from known_findings.json (kind=known, key dangling:<dialect>:<name>)."""
    out = {}
    for f in core.load_findings():
        if f["property"] == "C29" and f.get("kind") == "known" and f["key"].startswith("dangling:"):
            _, d, name = f["key"].split(":", 2)
            out.setdefault(d, set()).add(name)
    return out


def gen_dialects(report=None):
    """Regenerate Gen/Dialect_*.lean and Gen/Dialects.lean. Returns {label: info | {'error': str}}."""
    from translate import dialect_graph as dg
    known = known_dangling()
    infos = {}
    mods = []
    for label in dg.load_dialects():
        try:
            g = dg.walk_dialect(label)
        except Exception as e:  # a dialect that fails to load is itself the failing input
            infos[label] = {"error": "%s: %s" % (type(e).__name__, e)}
            continue
        text, info = dg.emit_lean(label, g, known.get(label, set()))
        info["graph"] = g
        infos[label] = info
        mod = "Dialect_" + dg.lean_ident(label)[2:]
        core.write_if_changed(core.GEN / (mod + ".lean"), text)
        mods.append(mod)
    allsrc = "".join("import SqlfluffVerif.Gen.%s\n" % m for m in mods)
    allsrc += "/-! GENERATED: imports every per-dialect reference-graph obligation. -/\n"
    core.write_if_changed(core.GEN / "Dialects.lean", allsrc)
    return infos


def run_all():
    gen_dialects()
    try:
        from translate import rule_table
        rule_table.generate()
    except ImportError:
        pass
    from translate import grammar_balance
    grammar_balance.generate()
    from translate import layout_edits
    layout_edits.generate()
