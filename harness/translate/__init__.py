"""Translators: regenerate lean/SqlfluffVerif/Gen/*.lean from /repo's live objects."""


def run_all():
    pass
