"""Translator: per-dialect grammar reference graph → Lean (C29), meta sequences (C03).

Walks the live, expanded dialect objects. Nodes are library names reachable from the root segment;
edges are the names referenced (through `Ref`, keyword strings, bracket sets) anywhere inside the
definition of a name. A reference to a name missing from the library is a dangling edge.
"""
from __future__ import annotations


def load_dialects():
    from sqlfluff.core.dialects import dialect_readout
    return [d.label for d in dialect_readout()]


def walk_dialect(label):
    """Returns dict(names=[...reachable, root first], adj={name: sorted set of names}, dangling={name: [referrers]},
    lib_size=int)."""
    from sqlfluff.core.dialects import dialect_selector
    from sqlfluff.core.parser.grammar.base import BaseGrammar, Ref
    from sqlfluff.core.parser.matchable import Matchable
    from sqlfluff.core.parser.segments.base import BaseSegment

    dialect = dialect_selector(label)
    lib = dialect._library
    root = dialect.root_segment_name

    bracket_refs = set()
    for set_name in ("bracket_pairs", "angle_bracket_pairs"):
        if set_name in dialect._sets:
            for (_t, s, e, _p) in dialect.bracket_sets(set_name):
                bracket_refs.add(s); bracket_refs.add(e)

    def is_m(v):
        try:
            if isinstance(v, type):
                return issubclass(v, BaseSegment)
            return isinstance(v, Matchable)
        except TypeError:
            return False

    def refs_of(obj, seen):
        """Names referenced inside one definition (descends through anonymous grammars, not through names)."""
        out = set()
        stack = [obj]
        while stack:
            o = stack.pop()
            if id(o) in seen:
                continue
            seen.add(id(o))
            if isinstance(o, type):
                if issubclass(o, BaseSegment):
                    mg = getattr(o, "match_grammar", None)
                    if mg is not None:
                        stack.append(mg)
                continue
            if isinstance(o, Ref):
                out.add(o._ref)
                if o.exclude is not None:
                    stack.append(o.exclude)
                stack.extend(o.terminators)
                continue
            if isinstance(o, BaseGrammar):
                for k, v in vars(o).items():
                    if k.startswith("_cache") or k == "_cache_key":
                        continue
                    if is_m(v):
                        stack.append(v)
                    elif isinstance(v, (list, tuple, set, frozenset)):
                        for x in v:
                            if is_m(x):
                                stack.append(x)
                bps = getattr(o, "bracket_pairs_set", None)
                if bps is not None and bps in dialect._sets:
                    bt = getattr(o, "bracket_type", None)
                    for (t, s, e, _p) in dialect.bracket_sets(bps):
                        if bt is None or t == bt:
                            out.add(s); out.add(e)
                continue
            # parsers (StringParser, TypedParser, RegexParser, MultiStringParser) and others: leaves
        return out

    adj = {}
    order = []
    dangling = {}
    todo = [root]
    seen_names = set()
    while todo:
        name = todo.pop()
        if name in seen_names:
            continue
        seen_names.add(name)
        if name not in lib:
            continue
        order.append(name)
        refs = refs_of(lib[name], set())
        if name == root:
            refs |= bracket_refs
        adj[name] = sorted(refs)
        for r in adj[name]:
            if r not in lib:
                dangling.setdefault(r, []).append(name)
            elif r not in seen_names:
                todo.append(r)
    # deterministic order: root first, rest sorted
    rest = sorted(n for n in order if n != root)
    names = [root] + rest
    return {"names": names, "adj": adj, "dangling": {k: sorted(v) for k, v in sorted(dangling.items())}, "lib_size": len(lib)}


if __name__ == "__main__":
    import sys, json
    tot = {}
    for d in load_dialects():
        g = walk_dialect(d)
        tot[d] = g["dangling"]
        print(d, len(g["names"]), "lib", g["lib_size"], "edges", sum(len(v) for v in g["adj"].values()), "dangling", list(g["dangling"])[:12])


# ---------------------------------------------------------------------------------------------
# Lean emission

CHUNK = 100


def lean_ident(label):
    return "D_" + "".join(c if c.isalnum() else "_" for c in label)


def emit_lean(label, g, known_names):
    """Lean source of Gen/Dialect_<label>.lean. Returns (text, info)."""
    names = g["names"]
    n = len(names)
    idx = {nm: i for i, nm in enumerate(names)}
    dang = list(g["dangling"].keys())
    didx = {nm: n + i for i, nm in enumerate(dang)}
    known = sorted(didx[nm] for nm in dang if nm in known_names)
    rows = []
    for nm in names:
        rows.append([idx[r] if r in idx else didx[r] for r in g["adj"][nm]])
    chunks = [rows[i:i + CHUNK] for i in range(0, len(rows), CHUNK)]
    ns = lean_ident(label)
    out = ["import SqlfluffVerif.Proofs.RefGraph",
           "/-! GENERATED by harness/translate/dialect_graph.py from the live `%s` dialect. Do not edit. -/" % label,
           "namespace SqlfluffVerif.Gen.%s" % ns,
           "open SqlfluffVerif.RefGraph",
           "def n : Nat := %d" % n,
           "def known : List Nat := [%s]" % ", ".join(map(str, known))]
    for ci, ch in enumerate(chunks):
        body = ",\n  ".join("[%s]" % ", ".join(map(str, r)) for r in ch)
        out.append("def c%d : List (List Nat) := [\n  %s]" % (ci, body))
        out.append("theorem c%d_closed : closedRows n known c%d = true := by decide +kernel" % (ci, ci))
    out.append("def adj : List (List Nat) := %s" % (" ++ ".join("c%d" % i for i in range(len(chunks))) or "[]"))
    simp_args = ", ".join(["adj", "closedRows_append"] + ["c%d_closed" % i for i in range(len(chunks))])
    out.append("theorem closed : closedRows n known adj = true := by simp only [%s, Bool.and_self]" % simp_args)
    out.append("/-- Every grammar reference reachable from the root of `%s` resolves to a defined element\n"
               "    or is one of the dangling names listed in known_findings.json. -/" % label)
    out.append("theorem complete : ∀ k, Reach adj k → k < n ∨ k ∈ known :=\n  closed_reach adj n known (by decide) closed")
    out.append("end SqlfluffVerif.Gen.%s" % ns)
    info = {"nodes": n, "edges": sum(len(r) for r in rows), "dangling": dang, "known_idx": known, "chunks": len(chunks)}
    return "\n".join(out) + "\n", info
