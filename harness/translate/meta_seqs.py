"""Translator: the Indent/Dedent/Conditional entries of every Sequence/Bracketed element list of a dialect (C03)."""
import itertools


def walk_sequences(label):
    """Returns list of dict(owner=name, metas=[(val, rules_dict_or_None)], repr=str) for every Sequence
    (incl. Bracketed) grammar object found in the dialect library that contains at least one meta."""
    from sqlfluff.core.dialects import dialect_selector
    from sqlfluff.core.parser.grammar.base import BaseGrammar, Ref
    from sqlfluff.core.parser.grammar.sequence import Sequence
    from sqlfluff.core.parser.grammar.conditional import Conditional
    from sqlfluff.core.parser.matchable import Matchable
    from sqlfluff.core.parser.segments.base import BaseSegment
    from sqlfluff.core.parser.segments.meta import Indent

    dialect = dialect_selector(label)
    out = []
    seen = set()

    def is_m(v):
        try:
            if isinstance(v, type):
                return issubclass(v, BaseSegment)
            return isinstance(v, Matchable)
        except TypeError:
            return False

    def visit(owner, o):
        stack = [o]
        while stack:
            o = stack.pop()
            if id(o) in seen:
                continue
            seen.add(id(o))
            if isinstance(o, type):
                if issubclass(o, BaseSegment):
                    mg = getattr(o, "match_grammar", None)
                    if mg is not None:
                        stack.append(mg)
                continue
            if isinstance(o, Ref):
                if o.exclude is not None:
                    stack.append(o.exclude)
                stack.extend(o.terminators)
                continue
            if isinstance(o, BaseGrammar):
                if isinstance(o, Sequence):
                    metas = []
                    for e in o._elements:
                        if isinstance(e, Conditional):
                            metas.append((e._meta.indent_val, dict(e._config_rules)))
                        elif isinstance(e, type) and issubclass(e, Indent):
                            metas.append((e.indent_val, None))
                    if metas:
                        out.append({"owner": owner, "metas": metas, "repr": repr(o)[:120], "cls": type(o).__name__})
                for k, v in vars(o).items():
                    if is_m(v):
                        stack.append(v)
                    elif isinstance(v, (list, tuple, set, frozenset)):
                        for x in v:
                            if is_m(x):
                                stack.append(x)
    for name in sorted(dialect._library):
        visit(name, dialect._library[name])
    return out


def balanced(metas):
    """For every assignment of the condition keys: sum = 0 and every prefix >= 0. Returns list of failing assignments."""
    keys = sorted({k for (_, r) in metas if r for k in r})
    bad = []
    for vals in itertools.product([False, True], repeat=len(keys)):
        cfg = dict(zip(keys, vals))
        bal, ok = 0, True
        for (v, r) in metas:
            if r is not None and any(cfg.get(k, False) != bool(want) for k, want in r.items()):
                continue
            bal += v
            if bal < 0:
                ok = False
        if bal != 0 or not ok:
            bad.append((cfg, bal, ok))
    return bad


if __name__ == "__main__":
    import sys
    sys.path.insert(0, "/verif/harness")
    from translate.dialect_graph import load_dialects
    for d in load_dialects():
        seqs = walk_sequences(d)
        bad = [(s, balanced(s["metas"])) for s in seqs]
        bad = [(s, b) for s, b in bad if b]
        print(d, len(seqs), "unbalanced:", len(bad))
        for s, b in bad[:6]:
            print("   ", s["owner"], s["cls"], s["metas"], b[0], s["repr"][:80])
