"""C08 — jinja rendering fidelity: the linted SQL is what Jinja renders.

Theorems: Props/C08.lean (fast-path decision logic; primary rendering = render under MarkerFreeIdentity).
Tie: the fast-path predicate vs the real `re.search` / config probes (exhaustive small strings); contract
MarkerFreeIdentity and the end-to-end property are checked against an independently constructed jinja2 environment
(keep_trailing_newline, standard delimiters, the configured context): marker-free files (lone `{`, `}`, `#`, `%`,
trailing newlines, CR/CRLF), generated templates, whitespace control, undefined variables.
"""
import itertools
import json

from vlib import gen
from vlib.core import enc_str

PROP = "C08"


def plain_render(src, context):
    import jinja2
    env = jinja2.Environment(keep_trailing_newline=True)
    return env.from_string(src).render(**context)


def run(ctx, prove=True):
    import re
    from sqlfluff.core import Linter, FluffConfig
    from sqlfluff.core.templaters import JinjaTemplater
    ctx.rule = ("fast-path predicate: all strings over {'{','%','#','}','a'} up to length 5 x the three configuration probes; fidelity: marker-free texts "
                "(lone braces, '#', '%', CR/CRLF, trailing newlines) and generated templates with contexts rendered by sqlfluff (primary variant) vs a plain "
                "jinja2.Environment; non-trivial = text contains '{' ; distinct by (source, context)")
    if prove:
        ctx.prove(["SqlfluffVerif.Props.C08"], ["Props/C08.lean"])
    ctx.assumptions += ["MarkerFreeIdentity: Jinja renders marker-free text to itself (checked on every marker-free input below)",
                        "newlines are normalised by Linter.render_string before templating; the comparison renders the normalised source"]
    ctx.partial += ["Jinja2 itself is external"]
    # 1. fast-path predicate vs the real code (spy on construct_render_func to see whether the slow path ran)
    lines, meta = [], []
    alpha = ["{", "%", "#", "}", "a"]
    cfgs = [({}, (0, 0, 0)), ({"templater": {"jinja": {"macros": {"m": "{% macro m() %}1{% endmacro %}"}}}}, (0, 1, 0)),
            ({"templater": {"jinja": {"load_macros_from_path": "/nonexistent_macros"}}}, (1, 0, 0))]
    called = {"n": 0}
    orig = JinjaTemplater.construct_render_func

    def spy(self, *a, **k):
        called["n"] += 1
        return orig(self, *a, **k)
    JinjaTemplater.construct_render_func = spy
    try:
        for n in range(0, 6):
            for t in itertools.product(alpha, repeat=n):
                s = "".join(t)
                for ci, (extra, flags) in enumerate(cfgs if n <= 3 else cfgs[:1]):
                    cfg = FluffConfig(overrides={"dialect": "ansi", "templater": "jinja"}, configs=extra)
                    called["n"] = 0
                    try:
                        JinjaTemplater().process(in_str=s, fname="x", config=cfg)
                    except Exception:
                        pass
                    real_fast = called["n"] == 0
                    lines.append("jinja.fast %d %d %d %s" % (flags[0], flags[1], flags[2], enc_str(s))); meta.append((s, flags, real_fast))
                    ctx.count(("fast", s, ci), nontrivial="{" in s)
    finally:
        JinjaTemplater.construct_render_func = orig
    outs = ctx.driver.run(lines)
    for (s, flags, real_fast), out in zip(meta, outs):
        if (out == "1") != real_fast:
            ctx.corr_fail("fast-path decision", {"src": s, "config_flags": flags, "real_fast": real_fast, "model": out})
    ctx.bump("fast_path_cases", len(meta))
    # 2. fidelity
    rng = ctx.rng
    jctx = {"cols": ["a", "b"], "t": "tbl", "flag": True, "off": False, "n": 2, "name": "x"}
    cases = []
    marker_free = ["", "\n", "SELECT 1", "SELECT 1\n", "SELECT 1\n\n\n", "a { b } c", "a } { b", "-- 100% # { x\n", "{ {", "%}", "#}", "SELECT '{'\r\n", "a\rb", "x {", "{", "}}", "% { # }",
                   "select a  from t where x = '{}'\n", "{ % x % }", "{\n{"]
    for s in marker_free:
        cases.append((s, jctx, True))
    for _ in range(ctx.budget(40, 800)):
        s = "".join(rng.choice(["a", " ", "\n", "{", "}", "#", "%", "'", "--", "\t", "é", "\r\n"]) for _ in range(rng.randint(1, 20)))
        if not re.search(r"\{[{%#]", s):
            cases.append((s, jctx, True))
    for k in range(ctx.budget(80, 2500)):
        tpl, c = gen.jinja_template(rng) if k % 2 else gen.jinja_block_template(rng)
        cases.append((tpl, c, False))
    for s in ["{{ undefined_var }}x", "a{{ und }}\n", "{%- if flag -%} a {%- endif -%} b", "x\n{#- c -#}\ny", "{% set z = 3 %}{{ z }}", "{{ cols | length }}"]:
        cases.append((s, jctx, False))
    for (src, c, mf) in cases:
        cfg = FluffConfig(overrides={"dialect": "ansi", "templater": "jinja"}, configs={"templater": {"jinja": {"context": c}}})
        lnt = Linter(config=cfg)
        try:
            rendered = lnt.render_string(src, "x.sql", cfg, "utf8")
        except Exception as e:
            ctx.bump("render_raised:" + type(e).__name__); continue
        if not rendered.templated_variants:
            ctx.bump("no_variant"); continue
        got = rendered.templated_variants[0].templated_str
        norm = lnt._normalise_newlines(src)
        try:
            want = plain_render(norm, c)
        except Exception as e:
            ctx.bump("plain_jinja_raised:" + type(e).__name__); continue
        ctx.count(("fid", src, json.dumps(c, sort_keys=True)), nontrivial="{" in src, sample={"src": src, "rendered": got} if len(ctx.samples) < 5 and "{%" in src else None)
        ctx.bump("marker_free" if mf else "templated")
        if mf:
            ctx.contract("MarkerFreeIdentity", want == norm, {"src": src, "jinja": want})
        if got != want:
            ctx.violation("the linted SQL (primary rendering) differs from what Jinja renders from the same template and context",
                          {"src": src, "context": c, "sqlfluff": got, "jinja": want})


def search(ctx):
    saved = (list(ctx.proof_broken), list(ctx.corr_broken), list(ctx.contract_fail))
    run(ctx, prove=False)
    ctx.proof_broken, ctx.corr_broken, ctx.contract_fail = saved


def replay(ctx, path):
    case = json.load(open(path))["case"]
    print(json.dumps(case, indent=1)[:3000])
    return 0
