"""C29 — dialect definitions are complete.

The reference graph of every bundled dialect is regenerated from the live objects on every run
(translate/dialect_graph.py) and the closure obligations are re-checked by Lean's kernel.
Tie of the translator to the code: (a) every name the real parser asks `Dialect.ref` for while parsing
fixture files must be a node of the generated graph (the walk over-approximates runtime references);
(b) every generated node resolves with the real `dialect.ref`. Lexer part: every dialect's lexer is run
on strings covering control, whitespace, astral and unassigned characters (sampled; see C01 for the proof
of the lexer loop).
"""
import json
import os

import translate
from vlib import core, gen

PROP = "C29"


def path_to(g, target):
    """Shortest path root → … → referrer of `target` in the generated graph."""
    root = g["names"][0]
    prev = {root: None}
    queue = [root]
    while queue:
        cur = queue.pop(0)
        for r in g["adj"].get(cur, []):
            if r == target:
                out = [target, cur]
                while prev[cur] is not None:
                    cur = prev[cur]
                    out.append(cur)
                return list(reversed(out))
            if r not in prev and r in g["adj"]:
                prev[r] = cur
                queue.append(r)
    return [root, "...", target]


def run(ctx, prove=True):
    from sqlfluff.core.dialects import dialect_selector
    ctx.rule = ("every bundled dialect: translator walk of the live grammar objects -> adjacency table -> kernel-checked closure; "
                "runtime cross-check: names requested from Dialect.ref while parsing fixture files must be generated nodes; "
                "lexer: strings of control/whitespace/astral characters per dialect; non-trivial = a dialect with >100 reachable names / "
                "a fixture that requested >20 distinct references")
    infos = translate.gen_dialects()
    known = translate.known_dangling()
    digest = {}
    gen_files = []
    for label, info in sorted(infos.items()):
        if "error" in info:
            ctx.violation("dialect %s fails to load/expand" % label, {"dialect": label, "error": info["error"]}, key="load:%s" % label)
            continue
        g = info["graph"]
        digest[label] = {"nodes": info["nodes"], "edges": info["edges"], "dangling": len(info["dangling"]), "chunks": info["chunks"]}
        gen_files.append("Gen/Dialect_%s.lean" % translate.dialect_graph.lean_ident(label)[2:])
        ctx.count(("dialect", label, info["nodes"], info["edges"]), nontrivial=info["nodes"] > 100,
                  sample={"dialect": label, "nodes": info["nodes"], "edges": info["edges"], "dangling": info["dangling"][:4]} if len(ctx.samples) < 3 else None)
        dialect = dialect_selector(label)
        for name in info["dangling"]:
            key = "dangling:%s:%s" % (label, name)
            try:
                dialect.ref(name)
                err = None
            except Exception as e:
                err = "%s: %s" % (type(e).__name__, str(e).split("\n")[0])
            finally:
                import sys
                if hasattr(sys, "tracebacklimit"):
                    del sys.tracebacklimit
            if err is None:
                ctx.corr_fail("translator reports a dangling name that dialect.ref resolves", {"dialect": label, "name": name})
                continue
            ctx.violation("dialect %s: reachable grammar reference %r is not defined" % (label, name),
                          {"dialect": label, "name": name, "path_from_root": path_to(g, name), "dialect_ref_error": err}, key=key)
        # every generated node resolves
        for name in g["names"]:
            try:
                dialect.ref(name)
            except Exception as e:
                ctx.corr_fail("generated node does not resolve", {"dialect": label, "name": name, "error": str(e)[:200]})
    ctx.extra["dialects"] = digest
    if prove:
        ctx.prove(["SqlfluffVerif.Props.C29", "SqlfluffVerif.Gen.Dialects"], ["Props/C29.lean"], gen_files)
    ctx.trusted += ["harness/translate/dialect_graph.py (translator; cross-checked against runtime Dialect.ref requests)"]
    ctx.assumptions += ["grammar elements hold their children in instance attributes (Matchable / sequences of Matchable); "
                        "validated by the runtime cross-check below",
                        "lexer totality is proved on the lexer model in C01; here each dialect's real lexer is sampled"]
    runtime_crosscheck(ctx, infos)
    lexer_sample(ctx, infos)


def runtime_crosscheck(ctx, infos):
    from sqlfluff.core import Linter, FluffConfig
    from sqlfluff.core.dialects.base import Dialect
    files = gen.fixture_files()
    by_d = {}
    for d, f in files:
        by_d.setdefault(d, []).append(f)
    per = ctx.budget(5, 10 ** 6)
    requested = {}
    orig = Dialect.ref

    def spy(self, name):
        requested.setdefault(self.name, set()).add(name)
        return orig(self, name)
    Dialect.ref = spy
    try:
        for d, fs in sorted(by_d.items()):
            if d not in infos or "error" in infos[d]:
                continue
            fs = list(fs)
            ctx.rng.shuffle(fs)
            lnt = Linter(config=FluffConfig(overrides={"dialect": d}))
            for f in fs[:per]:
                before = len(requested.get(d, ()))
                try:
                    lnt.parse_string(f.read_text(encoding="utf-8"))
                except Exception:
                    ctx.bump("fixture_parse_raised")
                finally:
                    import sys
                    if hasattr(sys, "tracebacklimit"):
                        del sys.tracebacklimit
                got = len(requested.get(d, ()))
                ctx.count(("fixture", d, f.name), nontrivial=got > 20)
    finally:
        Dialect.ref = orig
    for d, names in requested.items():
        nodes = set(infos[d]["graph"]["names"]) | set(infos[d]["dangling"])
        missing = sorted(n for n in names if n not in nodes)
        ctx.contract("TranslatorCoversRuntimeRefs", not missing, {"dialect": d, "missing": missing[:10]})
        ctx.bump("runtime_refs_checked", len(names))


def lexer_sample(ctx, infos):
    from sqlfluff.core import Lexer, FluffConfig
    chars = [chr(i) for i in range(0, 128)] + ["\x85", "\xa0", " ", "　", "\U0001F600", "퟿", "﻿", "\U0010FFFF", "é", "́"]
    rng = ctx.rng
    for d in sorted(infos):
        if "error" in infos[d]:
            continue
        lexer = Lexer(config=FluffConfig(overrides={"dialect": d}))
        strs = ["".join(chars)] + ["".join(rng.choice(chars) for _ in range(rng.randint(1, 30))) for _ in range(ctx.budget(15, 200))]
        for c in [" ", "\t", "\n", "\r\n", "\r", "\x0b", "\x00"]:
            strs.append(c)
        for s in strs:
            try:
                toks, errs = lexer.lex(s)
            except Exception as e:
                ctx.violation("lexer of dialect %s raised on some characters" % d, {"dialect": d, "text": s, "error": "%s: %s" % (type(e).__name__, e)})
                continue
            ctx.count(("lex", d, s), nontrivial=len(s) > 3)
            if "".join(t.raw for t in toks) != s:
                ctx.violation("lexer of dialect %s dropped or altered characters" % d, {"dialect": d, "text": s, "lexed": "".join(t.raw for t in toks)})
            nun = sum(1 for t in toks if t.is_type("unlexable"))
            if nun != len(errs):
                ctx.violation("unlexable tokens and LXR errors differ in number", {"dialect": d, "text": s, "unlexable": nun, "errors": len(errs)})


def search(ctx):
    # the translator already enumerates every dangling reference of every dialect: nothing deeper to search
    pass


def replay(ctx, path):
    case = json.load(open(path))["case"]
    from sqlfluff.core.dialects import dialect_selector
    print(json.dumps(case, indent=1))
    if "name" in case:
        try:
            dialect_selector(case["dialect"]).ref(case["name"])
            print("resolves now")
            return 0
        except Exception as e:
            print("still fails:", str(e).split("\n")[0])
            return 1
    return 0
