"""C32 — linting is read-only and repeatable.

Theorems: Props/C32.lean over Model/Shared.lean: the mutation `allowed_rule_ref_map` performs on the shared reference map is
idempotent, so its result is the same after any number of earlier calls; block ids handed out from the class-level
BlockTracker map are equal exactly when the source slices are equal, from every reachable state of that map.

Tie: (a) both models against the real functions (random reference maps / glob patterns; real BlockTracker after earlier
"files"); (b) the statement itself on histories: generated project directories (raw + jinja files, nested configs, noqa
with disable_noqa_except, ignore files) — lint, parse and render through the CLI and the API in random order with other
files in between; every input and config file is snapshotted (bytes, mtime, inode, mode) and the directory listing compared;
the violations of each target are compared between the first lint, later lints in the same process (same and new Linter) and
a fresh process.
"""
import fnmatch
import hashlib
import json
import os
import shutil
import subprocess
import sys
import tempfile

from vlib import gen
from vlib.core import enc_nats, enc_nnl

PROP = "C32"
SPECIAL = {"PRS": 1000001, "LXR": 1000002, "TMP": 1000003}


def model_correspondence(ctx, n):
    from sqlfluff.core import Linter
    from sqlfluff.core.parser.lexer import BlockTracker
    rng = ctx.rng
    lines, meta = [], []
    names = ["LT01", "LT02", "AM06", "layout", "layout.spacing", "core", "all", "PRS", "LXR", "P1", "TMP", "aliasing"]
    for _ in range(n):
        keys = rng.sample(names, rng.randint(0, 7))
        code = {}
        def cid(s):
            if s in SPECIAL:
                return SPECIAL[s]
            return code.setdefault(s, len(code) + 1)
        for s in names:
            cid(s)
        m = {k: {rng.choice(names) for _ in range(rng.randint(0, 3))} for k in keys}
        pats = ",".join(rng.choice(["L*", "LT01", "P*", "*", "layout*", "AM06", "T?P", "PRS", "zz", "a*"]) for _ in range(rng.randint(1, 3)))
        prior = rng.randint(0, 3)
        shared = {k: set(v) for k, v in m.items()}
        for _ in range(prior):
            Linter.allowed_rule_ref_map(shared, pats)
        out = Linter.allowed_rule_ref_map(shared, pats)
        real = (";".join("%d:%s" % (cid(k), enc_nats(sorted(cid(x) for x in v))) for k, v in out.items()) or "~")
        real_state = (";".join("%d:%s" % (cid(k), enc_nats(sorted(cid(x) for x in v))) for k, v in shared.items()) or "~")
        # which keys do the patterns match, over the mutated key set
        allkeys = list(m.keys()) + [s for s in SPECIAL if s not in m]
        g = sorted({cid(k) for p in pats.split(",") for k in fnmatch.filter(allkeys, p.strip())})
        lines.append("shared.allowed %s %s %s %d" % (enc_nats(cid(k) for k in m), enc_nnl(sorted(cid(x) for x in v) for v in m.values()) if m else "~", enc_nats(g), prior))
        meta.append(("allowed", real + " " + real_state, {"map": {k: sorted(v) for k, v in m.items()}, "patterns": pats, "prior_calls": prior}))
    # BlockTracker: ids up to renaming, after earlier files' blocks left in the class-level map
    for _ in range(n // 2):
        saved = (list(BlockTracker._stack), dict(BlockTracker._map))
        try:
            BlockTracker._stack.clear(); BlockTracker._map.clear()
            pre = [(a, a + rng.randint(1, 9)) for a in [rng.randint(0, 12) for _ in range(rng.randint(0, 4))]]
            cur = [(a, a + rng.randint(1, 9)) for a in [rng.randint(0, 12) for _ in range(rng.randint(1, 6))]]
            if rng.random() < 0.5 and cur:
                cur.append(rng.choice(cur))
            bt0 = BlockTracker()
            for (a, b) in pre:
                bt0.enter(slice(a, b)); bt0.exit()
            bt = BlockTracker()
            ids = []
            for (a, b) in cur:
                bt.enter(slice(a, b)); ids.append(bt.top()); bt.exit()
            order = []
            ren = []
            for u in ids:
                if u not in order:
                    order.append(u)
                ren.append(order.index(u))
        finally:
            BlockTracker._stack[:] = saved[0]; BlockTracker._map.clear(); BlockTracker._map.update(saved[1])
        lines.append("shared.ids %s %s %s %s" % (enc_nats(a for a, _ in cur), enc_nats(b for _, b in cur), enc_nats(a for a, _ in pre), enc_nats(b for _, b in pre)))
        meta.append(("ids", enc_nats(ren), {"earlier_blocks": pre, "blocks": cur}))
    outs = ctx.driver.run(lines)
    for (kind, real, case), out in zip(meta, outs):
        ctx.count((kind, json.dumps(case, sort_keys=True, default=str)), nontrivial=True)
        ctx.bump("model_" + kind)
        if kind == "allowed":
            # value sets are unordered in Python; the driver prints list order of the model: compare as sets per key, keys in order
            def canon(s):
                res = []
                for part in s.split(" "):
                    res.append([(kv.split(":")[0], sorted(kv.split(":")[1].split(","))) for kv in part.split(";")] if part != "~" else [])
                return res
            if canon(out.strip()) != canon(real):
                ctx.corr_fail("allowed_rule_ref_map: model vs real", dict(case, model=out, real=real))
        elif out.strip() != real:
            ctx.corr_fail("BlockTracker ids (up to renaming): model vs real", dict(case, model=out, real=real))


# ---------------------------------------------------------------------------------------------

def make_project(rng, root):
    files = {}
    def w(rel, text):
        p = os.path.join(root, rel)
        os.makedirs(os.path.dirname(p), exist_ok=True)
        with open(p, "w", encoding="utf-8", newline="") as f:
            f.write(text)
        files[rel] = p
    w(".sqlfluff", "[sqlfluff]\ndialect = ansi\ntemplater = jinja\n" + rng.choice(["", "disable_noqa_except = L*,PRS\ndisable_noqa = True\n", "rules = LT01,LT02,AM06,CP01\n", "warnings = LT01\n"])
      + "\n[sqlfluff:templater:jinja:context]\ncols = a\nt = tbl\nflag = True\nn = 2\nname = x\noff = False\n")
    w("sub/.sqlfluff", "[sqlfluff]\n" + rng.choice(["max_line_length = 40\n", "exclude_rules = LT02\n", "disable_noqa_except = LT01\ndisable_noqa = True\n", "dialect = postgres\n"])
      + rng.choice(["", "\n[sqlfluff:templater:jinja:context]\nonly_in_sub = sub_tbl\n"]))
    if rng.random() < 0.5:
        w(".sqlfluffignore", "ignored/\n")
        w("ignored/x.sql", "SELECT 1  FROM t\n")
    n = rng.randint(3, 6)
    for i in range(n):
        r = rng.random()
        if r < 0.35:
            t = gen.sql_file(rng)
        elif r < 0.6:
            t, _ = gen.jinja_block_template(rng)
            t = t.replace("['x', 'y', 'z']", "['x', 'y']")
        elif r < 0.75:
            t = "SELECT a  FROM t WHERE ( -- noqa: PRS\n"
        elif r < 0.9:
            t = "SELECT a  ,b FROM t -- noqa: L*\nSELECT c  FROM t -- noqa: P*\n"
        else:
            t = gen.mutate_sql(rng, gen.sql_file(rng))
        w(("sub/" if rng.random() < 0.4 else "") + "q%d.sql" % i, t)
    # per-file templating context: a variable defined for one file (in-file directive / sub directory) and merely used by another
    w("ctx_def.sql", "-- sqlfluff:templater:jinja:context:only_here:my_table\nSELECT a FROM {{ only_here }}\n")
    w("ctx_use.sql", "SELECT a FROM {{ only_here }}\n")
    w("sub/ctx_sub.sql", "SELECT a FROM {{ only_in_sub }}\n")
    w("ctx_use_sub.sql", "SELECT a FROM {{ only_in_sub }}\n")
    return files


def snapshot(root):
    snap = {}
    for dp, dn, fn in os.walk(root):
        for f in fn:
            p = os.path.join(dp, f)
            st = os.stat(p)
            snap[os.path.relpath(p, root)] = (hashlib.sha256(open(p, "rb").read()).hexdigest(), st.st_mtime_ns, st.st_ino, st.st_mode, st.st_size)
    return snap


CHILD = r'''
import sys, json
from sqlfluff.core import Linter, FluffConfig
paths = json.load(sys.stdin)
out = {}
for p in paths:
    lnt = Linter(config=FluffConfig.from_path(p))
    res = lnt.lint_paths((p,))
    out[p] = sorted((v["code"], v["start_line_no"], v["start_line_pos"], v["description"]) for r in res.as_records() for v in r["violations"])
print(json.dumps(out))
'''


def viol_key(lnt_result):
    return sorted((v["code"], v["start_line_no"], v["start_line_pos"], v["description"]) for r in lnt_result.as_records() for v in r["violations"])


def histories(ctx, n_projects):
    from click.testing import CliRunner
    from sqlfluff.cli.commands import lint as cli_lint, parse as cli_parse, render as cli_render
    from sqlfluff.core import Linter, FluffConfig
    import sqlfluff
    rng = ctx.rng
    for _ in range(n_projects):
        root = tempfile.mkdtemp(prefix="verif_c32_")
        cwd = os.getcwd()
        try:
            files = make_project(rng, root)
            sqls = sorted(p for rel, p in files.items() if rel.endswith(".sql") and not rel.startswith("ignored"))
            snap0 = snapshot(root)
            first = {}
            for p in sqls:
                lnt = Linter(config=FluffConfig.from_path(p))
                first[p] = viol_key(lnt.lint_paths((p,)))
            shared_lnt = Linter(config=FluffConfig.from_path(root))
            ops = []
            for step in range(rng.randint(4, 9)):
                p = rng.choice(sqls)
                op = rng.choice(["api_lint_path", "api_lint_path", "cli_lint", "cli_parse", "cli_render", "api_parse", "simple_lint", "lint_dir", "shared_linter"])
                ops.append((op, os.path.relpath(p, root)))
                try:
                    if op == "api_lint_path":
                        got = viol_key(Linter(config=FluffConfig.from_path(p)).lint_paths((p,)))
                        ctx.bump("relints")
                        if got != first[p]:
                            ctx.violation("repeating a lint of the same file in the same process gave different violations",
                                          {"history": ops, "file": open(p).read()[:800], "first": first[p][:6], "now": got[:6]})
                    elif op == "shared_linter":
                        # one Linter object reused for several files: each file's result must be what it is alone
                        got = viol_key(shared_lnt.lint_paths((p,)))
                        ctx.bump("relints")
                        if got != first[p]:
                            ctx.violation("a file linted by a Linter that has processed other files before gets different violations than when linted alone",
                                          {"history": ops, "file": open(p).read()[:800], "alone": first[p][:6], "now": got[:6]})
                    elif op == "lint_dir":
                        res = Linter(config=FluffConfig.from_path(root)).lint_paths((root,))
                        per = {}
                        for r in res.as_records():
                            per[os.path.normpath(r["filepath"])] = sorted((v["code"], v["start_line_no"], v["start_line_pos"], v["description"]) for v in r["violations"])
                        for q in sqls:
                            ctx.bump("relints")
                            if os.path.normpath(q) in per and per[os.path.normpath(q)] != first[q]:
                                ctx.violation("a file linted as part of its directory gets different violations than when linted alone",
                                              {"history": ops, "file": open(q).read()[:800], "alone": first[q][:6], "in_directory": per[os.path.normpath(q)][:6]})
                    elif op == "cli_lint":
                        CliRunner().invoke(cli_lint, [p, "--disable-progress-bar", "--format", "json"])
                    elif op == "cli_parse":
                        CliRunner().invoke(cli_parse, [p])
                    elif op == "cli_render":
                        CliRunner().invoke(cli_render, [p])
                    elif op == "api_parse":
                        Linter(config=FluffConfig.from_path(p)).parse_path(p)
                    elif op == "simple_lint":
                        sqlfluff.lint(open(p).read(), dialect="ansi")
                except Exception as e:
                    ctx.bump("op_raised")
                finally:
                    if hasattr(sys, "tracebacklimit"):
                        del sys.tracebacklimit
                ctx.bump("op_" + op)
            # every target once more at the end, and in a fresh process
            for p in sqls:
                got = viol_key(Linter(config=FluffConfig.from_path(p)).lint_paths((p,)))
                ctx.count(("hist", tuple(ops), open(p).read()), nontrivial=bool(first[p]), sample={"history": ops[:5], "violations": len(first[p])} if len(ctx.samples) < 4 else None)
                if got != first[p]:
                    ctx.violation("repeating a lint after other files were processed gave different violations",
                                  {"history": ops, "file": open(p).read()[:800], "first": first[p][:6], "now": got[:6]})
            try:
                r = subprocess.run(["/venv/bin/python", "-c", CHILD], input=json.dumps(sqls), capture_output=True, text=True, timeout=600, cwd=root,
                                   env=dict(os.environ, PYTHONHASHSEED=str(rng.randint(0, 9999))))
                fresh = json.loads(r.stdout.strip().splitlines()[-1])
                ctx.bump("fresh_process_runs")
                for p in sqls:
                    if [list(x) for x in first[p]] != fresh[p]:
                        ctx.violation("a fresh process reports different violations for the same file",
                                      {"file": open(p).read()[:800], "in_process": first[p][:6], "fresh": fresh[p][:6]})
            except Exception as e:
                ctx.notes.append("fresh-process run failed: %r" % (e,))
            snap1 = snapshot(root)
            ctx.bump("projects")
            if snap1 != snap0:
                changed = sorted(k for k in set(snap0) | set(snap1) if snap0.get(k) != snap1.get(k))
                ctx.violation("lint/parse/render modified, created or touched a file", {"history": ops, "changed": changed[:10]})
        finally:
            os.chdir(cwd)
            shutil.rmtree(root, ignore_errors=True)


def run(ctx, prove=True):
    ctx.rule = ("random reference maps x glob patterns x earlier calls and BlockTracker sequences after earlier files (model vs real) + generated project directories with "
                "random histories of lint/parse/render through CLI and API; targets re-linted in-process (same/new Linter) and in a fresh process; all files snapshotted; "
                "non-trivial = target has violations; distinct by (history, file text)")
    if prove:
        ctx.prove(["SqlfluffVerif.Props.C32"], ["Props/C32.lean"])
    ctx.partial += ["the config-file cache and every other module-level cache are covered by the history runs only", "file-system effects are observed, not modelled"]
    model_correspondence(ctx, ctx.budget(300, 6000))
    histories(ctx, ctx.budget(6, 150))


def search(ctx):
    saved = (list(ctx.proof_broken), list(ctx.corr_broken), list(ctx.contract_fail))
    run(ctx, prove=False)
    ctx.proof_broken, ctx.corr_broken, ctx.contract_fail = saved


def replay(ctx, path):
    case = json.load(open(path))["case"]
    print(json.dumps(case, indent=1)[:3000])
    return 0
