"""C04 — parse, lint and fix never crash.

Theorems: Props/C04.lean over Model/Funnel.lean: the funnel returns a result for every environment in which each engine
raises only its own error class; node/depth limits give PRS results for every size; an `other` exception escapes (witness).

Tie: (a) the funnel model is run against the real Linter with each engine replaced by a stub that returns or raises each
class (templater, lexer, parser, rules; node limit on/off) — same result/raise and same codes; (b) contract
StagesRaiseOwnErrors + the end-to-end statement by stress: deep nesting, unbalanced brackets, huge token counts, control
and astral characters, mutated fixtures x all dialects x templaters x rule selections in lint, fix and parse mode through
Linter, the simple API and the CLI; (c) the fixed universe of vlib/corpus.py (every fixture, mutant, generated file).
"""
import itertools
import json
import sys

from vlib import fixchecks, gen

PROP = "C04"
WHAT = "parse/lint/fix raised an exception instead of returning a result"


def funnel_correspondence(ctx):
    import sqlfluff.core.linter.linter as lm
    from sqlfluff.core import Linter, FluffConfig
    from sqlfluff.core.errors import SQLTemplaterError, SQLLexError, SQLParseError, SQLFluffSkipFile
    from sqlfluff.core.rules.base import BaseRule

    class Other(Exception):
        pass

    EXC = {1: lambda: SQLTemplaterError("stub"), 2: lambda: SQLFluffSkipFile("stub"), 3: lambda: SQLLexError("stub", pos=None),
           4: lambda: SQLParseError("stub"), 5: lambda: Other("stub")}
    sql = "SELECT a FROM t\n"
    lines, meta = [], []
    o_lex, o_parse = lm.Lexer.lex, lm.Parser.parse
    combos = list(itertools.product([0, 1, 2, 5], [0, 3, 5], [0, 4, 5], [0, 3], [(0, 0), (5, 0), (0, 5), (5, 5)]))
    if ctx.quick():
        ctx.rng.shuffle(combos); combos = combos[:90]
    for (r, l, p, maxn, rules) in combos:
        cfg = FluffConfig(overrides={"dialect": "ansi", "rules": "LT01,LT02", "max_parse_nodes": maxn})
        lnt = Linter(config=cfg)
        rp = lnt.get_rulepack()
        patched = []
        try:
            if r:
                def pv(*a, _r=r, **k):
                    raise EXC[_r]()
                    yield  # pragma: no cover
                lnt.templater.process_with_variants = pv
            if l:
                lm.Lexer.lex = lambda self, raw, _l=l: (_ for _ in ()).throw(EXC[_l]())
            if p:
                lm.Parser.parse = lambda self, *a, _p=p, **k: (_ for _ in ()).throw(EXC[_p]())
            for i, rule in enumerate(rp.rules):
                if rules[i]:
                    cls = type(rule)
                    patched.append((cls, cls._eval))
                    cls._eval = lambda self, context: (_ for _ in ()).throw(Other("stub"))
            try:
                lf = lnt.lint_string(sql)
                codes = []
                for v in lf.violations:
                    c = v.rule_code()
                    if v.desc().startswith("Unexpected exception"):
                        c = "I%d" % [x.code for x in rp.rules].index(c)
                    codes.append(c)
                real = "ok " + (",".join(codes) or "-")
            except SQLTemplaterError:
                real = "raise 1"
            except SQLFluffSkipFile:
                real = "raise 2"
            except SQLLexError:
                real = "raise 3"
            except SQLParseError:
                real = "raise 4"
            except Other:
                real = "raise 5"
        finally:
            lm.Lexer.lex, lm.Parser.parse = o_lex, o_parse
            for cls, f in patched:
                cls._eval = f
            if hasattr(sys, "tracebacklimit"):
                del sys.tracebacklimit
        ntok = 9
        lines.append("funnel.lint %d %d %d %d %d %s" % (maxn, r, l, ntok, p, ",".join(str(x) for x in rules)))
        meta.append((real, {"render": r, "lex": l, "parse": p, "max_parse_nodes": maxn, "rules": rules}))
    outs = ctx.driver.run(lines)
    for (real, case), out in zip(meta, outs):
        ctx.count(("funnel", json.dumps(case)), nontrivial=any(case[k] for k in ("render", "lex", "parse")) or any(case["rules"]))
        ctx.bump("funnel_cases")
        # an internal error is reported once per crawl position; compare as sets, keep order of first occurrence
        def canon(s):
            if not s.startswith("ok "):
                return s
            seen = []
            for c in s[3:].split(","):
                if c not in seen:
                    seen.append(c)
            return "ok " + ",".join(seen)
        if canon(out.strip()) != canon(real):
            ctx.corr_fail("exception funnel: model vs Linter with stubbed engines", dict(case, model=out, real=real))


def stress_inputs(rng, n):
    base = ["SELECT a FROM t", "SELECT a, b FROM t WHERE x IN (1, 2)", "INSERT INTO t VALUES (1)", "WITH c AS (SELECT 1) SELECT * FROM c"]
    out = []
    for _ in range(n):
        r = rng.random()
        if r < 0.12:
            d = rng.choice([5, 20, 60, 300, 3000])
            out.append("SELECT " + "(" * d + "1" + ")" * rng.choice([d, d - 1, 0]) + " FROM t\n")
        elif r < 0.2:
            d = rng.choice([10, 100, 2000])
            out.append("SELECT " + "CASE WHEN a THEN " * d + "1" + " END" * d + "\n")
        elif r < 0.28:
            out.append("SELECT " + ", ".join("c%d" % i for i in range(rng.choice([100, 400, 1500]))) + " FROM t\n")
        elif r < 0.36:
            out.append(rng.choice(base) + rng.choice([")", "(((", "'", "\"", "/*", "*/", "$$", "]]", "{{", "{%", "%}", "}}", "{#", "\x00", "﻿", " ", "\U0001F600" * 3]))
        elif r < 0.44:
            out.append("".join(chr(rng.choice([rng.randrange(32, 127), rng.randrange(0, 32), rng.randrange(128, 0x3000), rng.randrange(0x10000, 0x10200)])) for _ in range(rng.randint(1, 200))))
        elif r < 0.52:
            out.append(rng.choice(["", " ", "\n", ";", ";;;", "--", "/**/", "\r\n\r\n", "\t"]))
        elif r < 0.6:
            out.append("SELECT " + "a + " * rng.choice([20, 60, 150]) + "a FROM t\n")
        elif r < 0.7:
            out.append(" UNION ALL ".join(["SELECT 1"] * rng.choice([20, 100])) + "\n")
        else:
            out.append(gen.mutate_sql(rng, gen.mutate_sql(rng, gen.sql_file(rng))))
    return out


def _stress(job):
    import logging
    logging.disable(logging.CRITICAL)
    import sqlfluff
    from sqlfluff.core import Linter, FluffConfig
    d, templ, rules, sql, extra = job
    out = {"raised": None, "codes": []}
    try:
        over = {"dialect": d, "templater": templ}
        if rules:
            over["rules"] = rules
        over.update(extra)
        tcfg = {"placeholder": {"param_style": "colon"}, "python": {"context": {"a": "x", "t": "tbl"}}}
        lnt = Linter(config=FluffConfig(configs={"templater": tcfg}, overrides=over))
        lf = lnt.lint_string(sql, fix=True)
        out["codes"] = sorted({v.rule_code() for v in lf.violations})
        if lf.tree is not None:
            lf.fix_string()
        lnt.parse_string(sql)
        lnt.render_string(sql, fname="<s>", config=lnt.config, encoding="utf-8")
        kw = {"dialect": d}
        if rules:
            kw["rules"] = rules.split(",")
        sqlfluff.fix(sql, **kw)
    except BaseException as e:  # noqa
        import traceback
        out["raised"] = "%s: %s" % (type(e).__name__, str(e)[:200])
        out["where"] = traceback.format_exc()[-700:]
    finally:
        if hasattr(sys, "tracebacklimit"):
            del sys.tracebacklimit
    return out


def stress(ctx):
    import multiprocessing
    rng = ctx.rng
    dialects = sorted({d for d, _ in gen.fixture_files()})
    jobs = []
    for sql in stress_inputs(rng, ctx.budget(120, 4000)):
        extra = rng.choice([{}, {}, {"max_parse_nodes": 50}, {"max_parse_depth": 20}, {"max_parse_depth": 0}, {"runaway_limit": 2}, {"large_file_skip_char_limit": 10}])
        jobs.append((rng.choice(dialects), rng.choice(["raw", "jinja", "jinja", "python", "placeholder"]),
                     rng.choice([None, None, "core", "LT01,LT02", "layout", "AM04,AL05,CV05,ST05,RF01"]), sql, extra))
    files = gen.fixture_files(); rng.shuffle(files)
    for d, f in files[: ctx.budget(25, 1500)]:
        try:
            t = f.read_text(encoding="utf-8")
        except Exception:
            continue
        jobs.append((rng.choice([d, d, rng.choice(dialects)]), rng.choice(["raw", "jinja"]), rng.choice([None, "core"]), gen.mutate_sql(rng, t)[:6000], {}))
    from vlib.par import robust_map
    res = robust_map(_stress, jobs, 14, ctx.budget(60, 150))
    for job, r in zip(jobs, res):
        d, templ, rules, sql, extra = job
        r.setdefault("codes", []); r.setdefault("raised", None)
        case = {"dialect": d, "templater": templ, "rules": rules, "config": extra, "sql": sql[:800], "sql_len": len(sql)}
        ctx.count((d, templ, rules, sql, json.dumps(extra)), nontrivial=bool(set(r["codes"]) & {"PRS", "LXR", "TMP"}),
                  sample={k: case[k] for k in ("dialect", "templater", "rules", "sql_len")} if len(ctx.samples) < 4 else None)
        ctx.bump("stress_" + templ)
        if r.get("timeout"):
            ctx.bump("stress_timeout"); continue
        if r.get("worker_died"):
            ctx.violation("the interpreter died (no exception, no result) while linting", case); continue
        for c in ("PRS", "LXR", "TMP"):
            if c in r["codes"]:
                ctx.bump("stress_reported_" + c)
        new = False
        if r["raised"]:
            key = None
            if r["raised"].startswith("RecursionError") and extra.get("max_parse_depth") == 0:
                key = "callsite:max_parse_depth=0:RecursionError"
            new = ctx.violation(WHAT, dict(case, raised=r["raised"], where=r.get("where")), key=key)
        ctx.contract("StagesRaiseOwnErrors", not new, dict(case, raised=r["raised"]))


def cli_runs(ctx):
    """The CLI must exit with a code, never a traceback."""
    import os, shutil, tempfile
    from click.testing import CliRunner
    from sqlfluff.cli.commands import lint, fix, parse, render
    rng = ctx.rng
    d0 = tempfile.mkdtemp(prefix="verif_c04_")
    try:
        for i, sql in enumerate(stress_inputs(rng, ctx.budget(12, 300))):
            sql = sql[:6000]
            p = os.path.join(d0, "q%d.sql" % i)
            open(p, "w", encoding="utf-8", newline="").write(sql.encode("utf-8", "replace").decode("utf-8"))
            for cmd, args in ((lint, []), (fix, []), (parse, []), (render, [])):
                r = CliRunner().invoke(cmd, [p, "--dialect", "ansi", "--ignore-local-config"] + (["--disable-progress-bar"] if cmd in (lint, fix) else []) + args)
                ctx.count(("cli", cmd.name, sql), nontrivial=True)
                ctx.bump("cli_" + cmd.name)
                if r.exception is not None and not isinstance(r.exception, SystemExit):
                    ctx.violation("the CLI ended with a traceback instead of an exit code",
                                  {"command": cmd.name, "sql": sql[:800], "exception": "%s: %s" % (type(r.exception).__name__, str(r.exception)[:200])})
    finally:
        shutil.rmtree(d0, ignore_errors=True)


def run(ctx, prove=True):
    ctx.rule = ("exception funnel with stubbed engines (model vs Linter) + stress inputs (deep nesting, unbalanced brackets, 1500-column selects, control/astral characters, "
                "double mutants, mutated fixtures) x dialects x templaters x rule selections x limit configs through Linter (lint+fix, parse, render), the simple API and the CLI "
                "+ the fixed universe; non-trivial = the input produced a PRS/LXR/TMP report; distinct by (dialect, templater, rules, config, text)")
    if prove:
        ctx.prove(["SqlfluffVerif.Props.C04"], ["Props/C04.lean"])
    ctx.assumptions += ["StagesRaiseOwnErrors: templater, lexer and parser raise only their own error classes (sampled by the stress runs; the theorem's hypothesis)"]
    ctx.partial += ["what the engines raise on an input is not modelled; only the funnel around them is"]
    import time
    t = time.time(); funnel_correspondence(ctx); ctx.extra["t_funnel"] = round(time.time() - t, 1)
    t = time.time(); stress(ctx); ctx.extra["t_stress"] = round(time.time() - t, 1)
    t = time.time(); cli_runs(ctx); ctx.extra["t_cli"] = round(time.time() - t, 1)
    t = time.time()
    fixchecks.run_universe(ctx, PROP, ["all", "layout", "capitalisation", "layout_alt", "cap_snake"], ctx.budget(80, 10 ** 9), WHAT)
    ctx.extra["t_universe"] = round(time.time() - t, 1)


def search(ctx):
    saved = (list(ctx.proof_broken), list(ctx.corr_broken), list(ctx.contract_fail))
    run(ctx, prove=False)
    ctx.proof_broken, ctx.corr_broken, ctx.contract_fail = saved


def replay(ctx, path):
    case = json.load(open(path))["case"]
    print(json.dumps(case, indent=1)[:3000])
    if "sql" in case and "dialect" in case and case.get("sql_len", 0) <= 800:
        r = _stress((case["dialect"], case.get("templater", "raw"), case.get("rules"), case["sql"], case.get("config") or {}))
        print(r)
        return 1 if r["raised"] else 0
    return 0
