"""C23 — reported violation positions are accurate.

Theorems: Props/C23.lean (+ C31). Spec on real violations: line/column lie in the source file; for violations whose
anchor is literal source code the position is the anchor's first character in the pre-templating file; the
machine-readable offsets agree with the reported line/column (checked through the Lean reference walk); the same for
the CLI outputs (json, yaml, github-annotation-native, sarif) parsed back.
"""
import json
import os
import shutil
import tempfile

from vlib import gen
from vlib.core import enc_str

PROP = "C23"


def run(ctx, prove=True):
    from sqlfluff.core import Linter, FluffConfig
    ctx.rule = ("violations of all rules on shuffled dialect fixtures, mutants, generated SQL and generated jinja templates; every violation's position and "
                "offsets checked; CLI machine-readable formats on a subset; non-trivial = violation not on line 1; distinct by (file, violation)")
    if prove:
        ctx.prove(["SqlfluffVerif.Props.C23"], ["Props/C23.lean"])
    ctx.assumptions += ["rules anchor violations on segments present in the source (sampled: source text at the reported position starts with the anchor's text for literal anchors)"]
    ctx.partial += ["which segment a rule chooses as anchor is not modelled"]
    rng = ctx.rng
    files = gen.fixture_files(); rng.shuffle(files)
    cases = [(d, f.name, f.read_text(encoding="utf-8"), None) for d, f in files[: ctx.budget(25, 2000)]]
    cases += [("ansi", "gen", gen.sql_file(rng), None) for _ in range(ctx.budget(20, 400))]
    cases += [(d, n + "#mut", gen.mutate_sql(rng, t), None) for (d, n, t, _) in cases[:10]]
    for k in range(ctx.budget(20, 400)):
        tpl, jctx = gen.jinja_block_template(rng) if k % 2 else gen.jinja_template(rng)
        cases.append(("ansi", "jinja", tpl, jctx))
    lines, meta = [], []
    linters = {}
    for (d, name, txt, jctx) in cases:
        key = (d, jctx is not None)
        if key not in linters:
            over = {"dialect": d}
            if jctx is not None:
                over["templater"] = "jinja"
            linters[key] = Linter(config=FluffConfig(overrides=over, configs={"templater": {"jinja": {"context": jctx or {}}}}))
        try:
            lf = linters[key].lint_string(txt)
        except Exception:
            ctx.bump("lint_raised"); continue
        finally:
            import sys
            if hasattr(sys, "tracebacklimit"):
                del sys.tracebacklimit
        src = lf.templated_file.source_str if lf.templated_file else txt.replace("\r\n", "\n")
        src_lines = src.split("\n")
        es = enc_str(src)
        for v in lf.get_violations(filter_warning=False):
            case = {"dialect": d, "file": name, "text": txt[:500], "context": jctx, "violation": [v.rule_code(), v.line_no, v.line_pos, v.desc()[:80]]}
            ctx.count((d, txt, v.rule_code(), v.line_no, v.line_pos, v.desc()), nontrivial=v.line_no > 1,
                      sample=case["violation"] if len(ctx.samples) < 5 and v.line_no > 1 else None)
            ctx.bump("violations")
            ln, lp = v.line_no, v.line_pos
            if not (1 <= ln <= len(src_lines)) or not (1 <= lp <= len(src_lines[ln - 1]) + 1 if 1 <= ln <= len(src_lines) else False):
                ctx.violation("a violation's line/column lies outside the source file", case)
                continue
            seg = getattr(v, "segment", None)
            if seg is not None and seg.pos_marker is not None and seg.pos_marker.is_literal() and seg.raw:
                off = sum(len(l) + 1 for l in src_lines[: ln - 1]) + lp - 1
                first = seg.raw_segments[0].raw if seg.raw_segments else seg.raw
                ctx.contract("AnchorInSource", src[off: off + len(first)] == first or not first.strip(), case)
                if src[off: off + len(first)] != first and first.strip():
                    ctx.violation("the reported line/column does not identify the first character of the violating code in the source", dict(case, anchor=first[:40], at_position=src[off: off + 20]))
            dct = v.to_dict()
            if "start_file_pos" in dct:
                for (pk, lk, ck) in (("start_file_pos", "start_line_no", "start_line_pos"), ("end_file_pos", "end_line_no", "end_line_pos")):
                    lines.append("pos.walk %s %d" % (es, dct[pk])); meta.append((case, pk, (dct[lk], dct[ck]), dct[pk], len(src)))
            for fx in dct.get("fixes", []) or []:
                if "start_file_pos" in fx:
                    for (pk, lk, ck) in (("start_file_pos", "start_line_no", "start_line_pos"), ("end_file_pos", "end_line_no", "end_line_pos")):
                        lines.append("pos.walk %s %d" % (es, fx[pk])); meta.append((case, "fix." + pk, (fx[lk], fx[ck]), fx[pk], len(src)))
    outs = ctx.driver.run(lines)
    for (case, pk, lc, off, n), out in zip(meta, outs):
        if off > n:
            ctx.violation("a machine-readable offset lies outside the source file", dict(case, key=pk, offset=off)); continue
        exp = tuple(int(x) for x in out.split())
        ctx.bump("offset_pairs")
        if tuple(lc) != exp:
            ctx.violation("a machine-readable offset disagrees with the reported line/column", dict(case, key=pk, offset=off, reported=list(lc), expected=list(exp)))
    cli_formats(ctx, [c for c in cases if c[3] is None][: ctx.budget(5, 60)])


def cli_formats(ctx, cases):
    from click.testing import CliRunner
    from sqlfluff.cli.commands import lint
    import yaml
    d0 = tempfile.mkdtemp(prefix="verif_c23_")
    try:
        for i, (d, name, txt, _) in enumerate(cases):
            p = os.path.join(d0, "q%d.sql" % i); open(p, "w", encoding="utf-8", newline="").write(txt)
            src = txt.replace("\r\n", "\n").replace("\r", "\n")
            src_lines = src.split("\n")
            def inside(ln, lp):
                return 1 <= ln <= len(src_lines) and 1 <= lp <= len(src_lines[ln - 1]) + 1
            for fmt in ("json", "yaml", "github-annotation-native", "sarif"):
                r = CliRunner().invoke(lint, [p, "--dialect", d, "--format", fmt, "--ignore-local-config", "--disable-progress-bar"])
                case = {"dialect": d, "file": name, "text": txt[:400], "format": fmt}
                pts = []
                try:
                    if fmt == "json":
                        for rec in json.loads(r.output):
                            for v in rec["violations"]:
                                pts.append((v["start_line_no"], v["start_line_pos"]))
                                if "end_line_no" in v:
                                    pts.append((v["end_line_no"], v["end_line_pos"]))
                    elif fmt == "yaml":
                        for rec in yaml.safe_load(r.output):
                            for v in rec["violations"]:
                                pts.append((v["start_line_no"], v["start_line_pos"]))
                    elif fmt == "sarif":
                        js = json.loads(r.output)
                        for res in js["runs"][0]["results"]:
                            reg = res["locations"][0]["physicalLocation"]["region"]
                            pts.append((reg["startLine"], reg["startColumn"]))
                    else:
                        import re
                        for line in r.output.splitlines():
                            m = re.search(r"line=(\d+),col=(\d+)", line)
                            if m:
                                pts.append((int(m.group(1)), int(m.group(2))))
                except Exception:
                    ctx.bump("cli_unparsed_" + fmt); continue
                ctx.count(("cli", d, txt, fmt), nontrivial=bool(pts))
                ctx.bump("cli_" + fmt)
                bad = [pt for pt in pts if not inside(*pt)]
                if bad:
                    ctx.violation("a position in `lint --format %s` output lies outside the file" % fmt, dict(case, positions=bad[:3]))
    finally:
        shutil.rmtree(d0, ignore_errors=True)


def search(ctx):
    saved = (list(ctx.proof_broken), list(ctx.corr_broken), list(ctx.contract_fail))
    run(ctx, prove=False)
    ctx.proof_broken, ctx.corr_broken, ctx.contract_fail = saved


def replay(ctx, path):
    case = json.load(open(path))["case"]
    print(json.dumps(case, indent=1)[:3000])
    return 0
