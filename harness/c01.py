"""C01 — lexing is lossless, ordered and total.

Theorems: Props/C01.lean (lexer loop: lossless for every matcher family, total when whitespace is covered).
Tie: Model/Lexer.lean vs PyLexer.lex / lex_match / StringLexer._subdivide / _trim_match on a family of real
StringLexer / RegexLexer matchers (literals and character-class runs, with subdividers and trimmers);
Spec.C01 (LexSpec.specC01, evaluated in Lean) on the real lexer's output for real dialects x
{raw, jinja, python, placeholder} templaters; contracts SubdivideLossless / MatcherOK on every real match.
"""
import json

from vlib import gen
from vlib.core import enc_str, enc_nats, enc_nnl, dec_nats

PROP = "C01"
ALPHA = "ab -\n\tx'\r\x0b"


def rx_class(chars, neg):
    import regex
    return "[%s%s]+" % ("^" if neg else "", "".join(regex.escape(c) for c in chars))


def rand_pat(rng):
    if rng.random() < 0.45:
        return ("lit", rng.choice(["a", "ab", "--", "'", " ", "b", "x", "\n", "a b"]))
    k = rng.randint(1, 4)
    return ("cls", "".join(rng.sample(ALPHA, k)), rng.random() < 0.3)


def enc_pat(p):
    if p[0] == "lit":
        return [0, len(p[1])] + [ord(c) for c in p[1]]
    return [2 if p[2] else 1, len(p[1])] + [ord(c) for c in p[1]]


def mk_real(name, p, sub=None, trim=None):
    from sqlfluff.core.parser.lexer import StringLexer, RegexLexer
    from sqlfluff.core.parser.segments import CodeSegment
    kw = {}
    if sub:
        kw["subdivider"] = mk_real(sub[0], sub[1])
    if trim:
        kw["trim_post_subdivide"] = mk_real(trim[0], trim[1])
    if p[0] == "lit":
        return StringLexer(name, p[1], CodeSegment, **kw)
    return RegexLexer(name, rx_class(p[1], p[2]), CodeSegment, **kw)


def enc_matcher(idx, p, sub, trim):
    out = [idx] + enc_pat(p)
    for x in (sub, trim):
        out += [0] if x is None else [1, x[0]] + enc_pat(x[1])
    return out


def maximal_ok(p):
    """trim searchers satisfy NoStartAfterMid only if they are maximal runs (class patterns) or literals that cannot
    be adjacent to themselves; the theorem's hypothesis - unrestricted searchers are corresponded but not held to the spec."""
    return p[0] == "cls"


def loop_corr(ctx):
    from sqlfluff.core import FluffConfig
    from sqlfluff.core.parser.lexer import PyLexer
    from sqlfluff.core.errors import SQLLexError
    rng = ctx.rng
    cfg = FluffConfig(overrides={"dialect": "ansi"})
    lines, meta = [], []
    for _ in range(ctx.budget(1500, 40000)):
        nm = rng.randint(1, 4)
        specs = []
        for i in range(nm):
            p = rand_pat(rng)
            sub = (10 + i, rand_pat(rng)) if rng.random() < 0.3 else None
            trim = (20 + i, rand_pat(rng)) if sub and rng.random() < 0.6 else None
            specs.append((i + 1, p, sub, trim))
        use_default_lr = rng.random() < 0.7
        lr = None if use_default_lr else (0, rand_pat(rng), None, None)
        s = "".join(rng.choice(ALPHA) for _ in range(rng.randint(0, 14)))
        lexer = PyLexer(config=cfg, last_resort_lexer=None if lr is None else mk_real("m0", lr[1]))
        names = {}
        real_ms = []
        for (i, p, sub, trim) in specs:
            real_ms.append(mk_real("m%d" % i, p, ("m%d" % sub[0], sub[1]) if sub else None, ("m%d" % trim[0], trim[1]) if trim else None))
        lexer.lexer_matchers = real_ms
        try:
            segs, errs = lexer.lex(s)
            def nm(t):
                ty = t.get_type()
                return int(ty[1:]) if ty.startswith("m") and ty[1:].isdigit() else 0
            real = ("ok", [(t.raw, nm(t)) for t in segs if not t.is_meta])
        except SQLLexError:
            real = ("err:fatal", None)
        except ValueError:
            real = ("err:value", None)
        lr_enc = [0, 2, 3, 9, 10, 32, 0, 0] if lr is None else enc_matcher(0, lr[1], None, None)
        lines.append("lex.run %s %s %s" % (enc_nnl(enc_matcher(*sp) for sp in specs), enc_nats(lr_enc), enc_str(s)))
        trims_ok = all(t is None or maximal_ok(t[1]) for (_, _, _, t) in specs)
        meta.append(("loop", (specs, lr, s), real, trims_ok))
        ctx.count(("loop", json.dumps(specs), s), nontrivial=len(s) > 2 and any(sp[2] for sp in specs),
                  sample={"matchers": specs, "text": s, "elements": real[1][:6] if real[1] else real[0]} if len(ctx.samples) < 2 and len(s) > 5 else None)
        ctx.bump("loop_" + real[0])
        if real[0] == "ok" and trims_ok and "".join(r for r, _ in real[1]) != s:
            ctx.violation("lexer output does not concatenate to the input (custom matcher family)", {"matchers": specs, "last_resort": lr, "text": s, "tokens": real[1]})
    return lines, meta


def tok_flat(segs):
    flat = []
    for t in segs:
        pm = t.pos_marker
        if t.is_type("unlexable"):
            cls = 3
        elif t.is_type("template_loop"):
            cls = 2
        elif t.is_meta:
            cls = 4 if pm.source_slice.stop > pm.source_slice.start else 1
        else:
            cls = 0
        flat += [cls, len(t.raw), pm.templated_slice.start, pm.templated_slice.stop, pm.source_slice.start, pm.source_slice.stop]
    return flat


def real_cases(ctx):
    rng = ctx.rng
    files = gen.fixture_files()
    rng.shuffle(files)
    weird = ["\x00", "\x0b", "\x0c", "\x85", "\U0001F600", "'", '"', "/*", "--", "`", "$$", "\\", "\r", "\r\n", "é", "​", "[", "{{", "}"]
    for d, f in files[: ctx.budget(40, 10 ** 6)]:
        txt = f.read_text(encoding="utf-8")
        yield d, "raw", f.name, txt, None
        if rng.random() < 0.6:
            chars = list(txt)
            for _ in range(rng.randint(1, 4)):
                chars.insert(rng.randrange(len(chars) + 1), rng.choice(weird))
            yield d, "raw", f.name + "#inj", "".join(chars).replace("\r\n", "\n").replace("\r", "\n") if rng.random() < 0.5 else "".join(chars), None
    for _ in range(ctx.budget(40, 600)):
        d = rng.choice(["ansi", "postgres", "tsql", "sqlite", "bigquery", "snowflake", "mysql"])
        yield d, "direct", "direct", "".join(rng.choice(weird + ["\r", "\r", " ", "\n"] + list("select a from t 1")) for _ in range(rng.randint(1, 25))), None
    for _ in range(ctx.budget(30, 600)):
        yield "ansi", "raw", "rand", "".join(rng.choice(weird + list("select a,b from t where x=1 \n\t()")) for _ in range(rng.randint(0, 40))), None
    for k in range(ctx.budget(60, 1500)):
        tpl, jctx = gen.jinja_template(rng) if k % 2 else gen.jinja_block_template(rng)
        yield "ansi", "jinja", "jinja", tpl, jctx
        if k % 3 == 0:
            # one token assembled from several tags and literals, also as the very first thing in the file (source offset 0)
            glue = rng.choice(["{{ name }}_{{ t }}", "{{ t }}{{ name }}c", "'{{ name }}'", "{{ t }}_{{ name }}_{{ n }}", "a{{ name }}b{{ t }}", "{{ name }}{{ t }}{{ n }}x",
                                "ab{# c #}cd", "a{# c #}b{# d #}c", "col{% if flag %}_x{% endif %}y", "x{# c #}1{# d #}2 ", "sel{# c #}ect"])
            lead = rng.choice(["", "", " ", "SELECT "])
            yield "ansi", "jinja", "jinja-glued", lead + glue + rng.choice([" x", " AS x\n", "\n", " FROM {{ t }}_{{ name }}\n"]), jctx
    for _ in range(ctx.budget(15, 300)):
        yield "ansi", "python", "py", rng.choice(["SELECT {a}  FROM {t}", "select {a},{b} from {t} where x = {n}", "{a}{b}", "SELECT '{{x}}' , {a}"]), {"a": "col", "b": "c2", "t": "tbl", "n": 3}
    for _ in range(ctx.budget(15, 300)):
        yield "ansi", "placeholder", "ph", rng.choice(["SELECT :a  FROM t WHERE b = :b", "select :a,:b from t", ":a:b", "SELECT ':a' , :x"]), {"a": "col", "b": "'v'"}


def iterseg_lines(ctx, tf, toks, lines, meta, case):
    """Model/IterSeg.lean vs `_iter_segments`: every whitespace run of the rendered text that spans more than one literal
    slice (and only literal slices) is split by the model and compared with the real whitespace tokens at those positions."""
    import re as _re
    nz = [s_ for s_ in tf.sliced_file if s_.templated_slice.stop > s_.templated_slice.start]
    for m in _re.finditer(r"[^\S\r\n]+", tf.templated_str):
        e0, e1 = m.start(), m.end()
        over = [s_ for s_ in nz if s_.templated_slice.start < e1 and s_.templated_slice.stop > e0]
        if len(over) < 2 or any(s_.slice_type != "literal" for s_ in over):
            continue
        # the loop walks on from the slice containing e0
        flat = [x for s_ in over for x in (s_.templated_slice.start, s_.templated_slice.stop, s_.source_slice.start)]
        real = [(t.pos_marker.templated_slice.start, t.pos_marker.templated_slice.stop, t.pos_marker.source_slice.start, t.pos_marker.source_slice.stop, len(t.raw))
                for t in toks if not t.is_meta and t.is_type("whitespace") and e0 <= t.pos_marker.templated_slice.start and t.pos_marker.templated_slice.stop <= e1
                and not (t.pos_marker.templated_slice.start == t.pos_marker.templated_slice.stop == e1 and not t.raw and False)]
        lines.append("iterseg.split %d %d %s" % (e0, e1, enc_nats(flat)))
        meta.append(("iterseg", dict(case, element=[e0, e1], slices=[(s_.templated_slice.start, s_.templated_slice.stop, s_.source_slice.start) for s_ in over]), real, None))
        ctx.bump("split_whitespace_elements")
    # tokens that may not be split and span several literal slices (a word around a template comment, a name glued from literals)
    for t in toks:
        if t.is_meta or t.is_type("whitespace") or not t.raw:
            continue
        e0, e1 = t.pos_marker.templated_slice.start, t.pos_marker.templated_slice.stop
        over = [s_ for s_ in nz if s_.templated_slice.start < e1 and s_.templated_slice.stop > e0]
        if len(over) < 2 or any(s_.slice_type != "literal" for s_ in over):
            continue
        flat = [x for s_ in over for x in (s_.templated_slice.start, s_.templated_slice.stop, s_.source_slice.start)]
        lines.append("iterseg.span %d %d %s" % (e0, e1, enc_nats(flat)))
        meta.append(("iterspan", dict(case, token=t.raw, element=[e0, e1], slices=[(s_.templated_slice.start, s_.templated_slice.stop, s_.source_slice.start) for s_ in over]),
                     "%d,%d" % (t.pos_marker.source_slice.start, t.pos_marker.source_slice.stop), None))
        ctx.bump("spanning_tokens")


def real_lex(ctx):
    from sqlfluff.core import Linter, FluffConfig
    from sqlfluff.core.parser.lexer import StringLexer
    sub_bad = []
    orig_sub = StringLexer._subdivide

    def spy(self, matched):
        out = orig_sub(self, matched)
        if "".join(e.raw for e in out) != matched.raw or any(not e.raw for e in out):
            sub_bad.append((self.name, matched.raw, [e.raw for e in out]))
        return out
    StringLexer._subdivide = spy
    lines, meta = [], []
    linters = {}
    try:
        for (d, templ, name, txt, tctx) in real_cases(ctx):
            key = (d, templ)
            if key not in linters:
                over = {"dialect": d, "templater": "raw" if templ == "direct" else templ}
                configs = {"templater": {"jinja": {"context": tctx or {}}, "python": {"context": tctx or {}},
                                         "placeholder": dict(tctx or {}, param_style="colon")}}
                linters[key] = Linter(config=FluffConfig(overrides=over, configs=configs))
            lnt = linters[key]
            sub_bad.clear()
            if templ == "direct":
                # straight into the lexer (render_string would normalise lone carriage returns away)
                from sqlfluff.core.templaters.base import TemplatedFile
                variants = [TemplatedFile.from_string(txt)]
            else:
                try:
                    variants = lnt.render_string(txt, "<c01>", lnt.config, "utf8").templated_variants
                except Exception as e:
                    ctx.bump("render_raised"); continue
            for vi, tf in enumerate(variants):
                try:
                    toks, errs = lnt._lex_templated_file(tf, lnt.config)
                except Exception as e:
                    ctx.violation("the lexer raised", {"dialect": d, "templater": templ, "file": name, "text": txt[:800], "variant": vi,
                                                       "error": "%s: %s" % (type(e).__name__, str(e)[:200])})
                    continue
                if toks is None:
                    ctx.bump("lex_returned_none"); continue
                # _lex_templated_file filters indents when template_blocks_indent is off; LXR errors are in errs
                real_toks = [t for t in toks]
                concat_ok = "".join(t.raw for t in real_toks if not t.is_meta) == tf.templated_str
                nlxr = sum(1 for e in errs if e.rule_code() == "LXR")
                flat = tok_flat(real_toks)
                templated = not (len(tf.sliced_file) == 1 and tf.sliced_file[0].slice_type == "literal" and tf.source_str == tf.templated_str)
                lines.append("lexspec %d %d %d %d %s" % (len(tf.source_str), len(tf.templated_str), 1 if templated else 0, nlxr, enc_nats(flat)))
                meta.append(("spec", {"dialect": d, "templater": templ, "file": name, "text": txt if len(txt) < 800 else txt[:800] + "...", "context": tctx, "variant": vi},
                             concat_ok, [t for t in real_toks]))
                ctx.count((d, templ, txt, vi), nontrivial=len(real_toks) > 5,
                          sample={"dialect": d, "templater": templ, "file": name, "tokens": len(real_toks)} if len(ctx.samples) < 6 else None)
                ctx.bump("lexed_" + templ)
                if templ == "jinja" and vi == 0:
                    iterseg_lines(ctx, tf, real_toks, lines, meta, {"dialect": d, "file": name, "text": txt[:800], "context": tctx})
            ctx.contract("SubdivideLossless", not sub_bad, {"dialect": d, "file": name, "bad": sub_bad[:2]})
    finally:
        StringLexer._subdivide = orig_sub
    return lines, meta


KEY_RECTIFY = "callsite:JinjaTemplater._rectify_templated_slices:alternate-variant-source-slices"
KEY_SPLIT_WS = "callsite:_iter_segments:split-whitespace-shares-templated-slice"


def run(ctx, prove=True):
    ctx.rule = ("loop: random families of 1-4 real StringLexer/RegexLexer matchers (literals, class runs, subdividers, trimmers) x strings over "
                "a 8-char alphabet; real: shuffled dialect fixtures, character-injected mutants, random junk, generated jinja templates, python and "
                "placeholder sources, every variant; non-trivial = >5 tokens / subdividing matcher; distinct by (config, text)")
    if prove:
        ctx.prove(["SqlfluffVerif.Props.C01", "SqlfluffVerif.Props.C01b"], ["Props/C01.lean", "Props/C01b.lean"])
    ctx.assumptions += ["regex engines are parameters (MatcherOK: a match is a non-empty prefix; spans are in range) - sampled on every real match",
                        "NoStartAfterMid for trim searchers (true of maximal-run patterns) - sampled via SubdivideLossless"]
    ctx.partial += ["source-position clauses (in-bounds, monotone, coverage) are evaluated by Lean on real output; _iter_segments is not yet proved"]
    lines, meta = loop_corr(ctx)
    l2, m2 = real_lex(ctx)
    outs = ctx.driver.run(lines + l2)
    for m, out in zip(meta + m2, outs):
        if m[0] == "loop":
            _, (specs, lr, s), real, trims_ok = m
            if out.startswith("ok"):
                t = out.split(" ")
                names = dec_nats(t[1]); raws = [] if t[2] == "~" else ["".join(chr(x) for x in dec_nats(r)) for r in t[2].split(";")]
                model = ("ok", list(zip(raws, names)))
            else:
                model = (out, None)
            if model != (real[0], real[1]):
                ctx.corr_fail("PyLexer.lex loop", {"matchers": specs, "last_resort": lr, "text": s, "real": real, "model": model})
        elif m[0] == "iterspan":
            _, case, real, _x = m
            ctx.count(("iterspan", json.dumps(case, sort_keys=True, default=str)), nontrivial=True)
            if out.strip() != real:
                ctx.corr_fail("_iter_segments spanning token source slice: model vs real", dict(case, model=out, real=real))
        elif m[0] == "iterseg":
            _, case, real, _x = m
            model = [] if out.strip() == "~" else [tuple(int(x) for x in p.split(",")) for p in out.strip().split(";")]
            ctx.count(("iterseg", json.dumps(case, sort_keys=True, default=str)), nontrivial=len(model) > 2)
            if model != real:
                ctx.corr_fail("_iter_segments split whitespace: model vs real", dict(case, model=model, real=real))
        else:
            _, case, concat_ok, toks = m
            v = out.split(" ")
            names = ["tiles", "inBounds", "monotone", "rawIdentity", "covered", "errs"]
            bad = [n for n, x in zip(names, v) if x != "1"]
            if not concat_ok:
                ctx.violation("tokens do not concatenate to the rendered SQL", case)
            for b in bad:
                what = {"tiles": "token positions in the rendered SQL are not contiguous and increasing",
                        "inBounds": "a token's source position lies outside the source file",
                        "monotone": "token source positions decrease (outside a template loop)",
                        "rawIdentity": "untemplated file: a token's source position differs from its rendered position",
                        "covered": "a source character is covered by no token or placeholder",
                        "errs": "unlexable tokens and LXR errors do not correspond"}[b]
                key = None
                if case["templater"] == "jinja" and case["variant"] > 0 and b in ("inBounds", "monotone", "covered"):
                    # alternate variants carry source slices rewritten by _rectify_templated_slices (C07 known finding)
                    key = KEY_RECTIFY
                if b == "tiles":
                    # attribute to the known call site: whitespace pieces of one lexed element sharing one templated slice
                    real = [t for t in toks if not t.is_meta]
                    pos, ok_otherwise = 0, True
                    i = 0
                    while i < len(real):
                        t = real[i]
                        ts, te = t.pos_marker.templated_slice.start, t.pos_marker.templated_slice.stop
                        if ts == pos and te == pos + len(t.raw):
                            pos = te; i += 1; continue
                        # a run of whitespace pieces all carrying the slice [pos, pos+total)
                        j, tot = i, 0
                        while j < len(real) and real[j].is_type("whitespace") and real[j].pos_marker.templated_slice.start == ts and real[j].pos_marker.templated_slice.stop == te:
                            tot += len(real[j].raw); j += 1
                        if j > i + 1 and ts == pos and te == pos + tot:
                            pos = te; i = j; continue
                        ok_otherwise = False
                        break
                    if ok_otherwise:
                        key = KEY_SPLIT_WS
                ctx.violation(what, case, key=key)


def search(ctx):
    saved = (list(ctx.proof_broken), list(ctx.corr_broken), list(ctx.contract_fail))
    run(ctx, prove=False)
    ctx.proof_broken, ctx.corr_broken, ctx.contract_fail = saved


def replay(ctx, path):
    case = json.load(open(path))["case"]
    print(json.dumps(case, indent=1)[:2000])
    return 0
