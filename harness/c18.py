"""C18 — files with template or parse errors are never modified by fix.

Theorems: Props/C18.lean (gates of the CLI path, CLI stdin and Python API over violation attribute vectors).
Tie: Model/Exit.lean is evaluated on the attribute vectors of the real violations of generated files and compared
with what the real entry points did (file rewritten? stdout changed? API output changed / raised?); the property
statement is checked directly on the real behaviour.
"""
import json

from vlib import cli_e2e
from vlib.core import enc_nats, enc_nnl, dec_nats

PROP = "C18"
KEY_API = "callsite:api.simple.fix:gates-on-filtered-tmp-prs-count"


def enc_case(case, obs):
    flat = [1 if obs["changed"] else 0, 1 if obs["has_tree"] else 0]
    for v in obs["vectors"]:
        flat += v
    return "exit.eval %d 0 0 0 %s" % (1 if case["fix_even"] else 0, enc_nnl([flat]))


def run(ctx, prove=True):
    ctx.rule = ("generated files mixing clean, fixable, unfixable statements, parse errors and jinja templating errors with noqa comments x "
                "warnings/ignore/fix_even_unparsable configs, through CLI path fix, CLI stdin fix and sqlfluff.fix; non-trivial = file has a TMP/PRS "
                "violation and a fixable lint violation; distinct by (sql, config)")
    if prove:
        ctx.prove(["SqlfluffVerif.Props.C18"], ["Props/C18.lean"])
    ctx.assumptions += ["'changed' (does fix_string alter the text) and the per-violation attributes are taken from the real linter"]
    lines, meta = [], []
    for case in cli_e2e.gen_cases(ctx, ctx.budget(40, 600)):
        try:
            obs = cli_e2e.run_entry_points(case, want=("fix_path", "fix_stdin", "api"))
        except Exception as e:
            ctx.bump("harness_case_failed:" + type(e).__name__)
            continue
        lines.append(enc_case(case, obs)); meta.append((case, obs))
        has_tp = any(v[0] in (0, 1) for v in obs["vectors"])
        has_fix = any(v[0] == 3 and v[4] for v in obs["vectors"])
        ctx.count(json.dumps(case, sort_keys=True), nontrivial=has_tp,
                  sample={"case": case, "vectors": obs["vectors"], "path_rewritten": obs["fix_path_text"] != case["sql"]} if has_tp and len(ctx.samples) < 5 else None)
        ctx.bump("with_tmp_prs" if has_tp else "no_tmp_prs")
        # the property, directly on the real behaviour
        if has_tp and not case["fix_even"]:
            if obs["fix_path_text"] != case["sql"]:
                ctx.violation("`fix` rewrote a file that has a templating/parsing error", {"case": case, "after": obs["fix_path_text"]})
            if obs["fix_stdin_text"] is not None and obs["fix_stdin_text"] != case["sql"]:
                ctx.violation("`fix -` changed stdin output although the input has a templating/parsing error", {"case": case, "after": obs["fix_stdin_text"]})
            if obs["api_fix_exc"] or obs["api_fix_text"] != case["sql"]:
                suppressed_all = all(v[1] or v[2] or v[3] for v in obs["vectors"] if v[0] in (0, 1))
                ctx.violation("sqlfluff.fix changed (or crashed on) SQL that has a templating/parsing error",
                              {"case": case, "after": obs["api_fix_text"], "exception": obs["api_fix_exc"]},
                              key=KEY_API if suppressed_all else None)
        for k in ("fix_path_exc", "fix_stdin_exc"):
            if obs.get(k):
                ctx.violation("CLI fix raised", {"case": case, "exception": obs[k]})
    outs = ctx.driver.run(lines)
    for (case, obs), out in zip(meta, outs):
        t = out.split(" ")
        per = dec_nats(t[2].split(";")[0])
        m_path, m_stdin, m_api = per[5], per[6], per[8]
        r_path = 1 if obs["fix_path_text"] != case["sql"] else 0
        r_stdin = 1 if obs["fix_stdin_text"] != case["sql"] else 0
        r_api = 2 if obs["api_fix_exc"] else (1 if obs["api_fix_text"] != case["sql"] else 0)
        if (m_path, m_stdin, m_api) != (r_path, r_stdin, r_api):
            ctx.corr_fail("fix gates (path, stdin, api)", {"case": case, "vectors": obs["vectors"], "changed": obs["changed"], "has_tree": obs["has_tree"],
                                                             "real": [r_path, r_stdin, r_api], "model": [m_path, m_stdin, m_api]})


def search(ctx):
    saved = (list(ctx.proof_broken), list(ctx.corr_broken), list(ctx.contract_fail))
    run(ctx, prove=False)
    ctx.proof_broken, ctx.corr_broken, ctx.contract_fail = saved


def replay(ctx, path):
    case = json.load(open(path))["case"]["case"]
    obs = cli_e2e.run_entry_points(case, want=("fix_path", "fix_stdin", "api"))
    print(json.dumps({k: v for k, v in obs.items() if k != "api_lint"}, indent=1, default=str))
    return 0
