"""C19 — all entry points agree.

Theorems: Props/C19.lean (the three fix gates and the exit computations coincide over the attribute vector, for
files without warning-level fixable violations; witness where they differ). Tie/spec: the same SQL and one explicit
config through CLI path, CLI stdin (--stdin-filename) and the Python API: violations, fixed text, exit status compared.
"""
import json

from vlib import cli_e2e
from vlib.core import enc_nnl, dec_nats

PROP = "C19"
KEY_WARN_STDIN = "callsite:commands._stdin_fix:filters-warning-level-fixable-violations"
KEY_STDIN_TMP = "callsite:commands._stdin_fix:templater-error-exits-1-with-fix-even-unparsable"
KEY_STDIN_BLOCKED = "callsite:commands._stdin_fix:unfixable-counted-before-fixes-are-discarded"
KEY_API_IGNORED = "callsite:api.simple.fix:returns-fixes-of-ignored-lint-violations"


def viol_keys_json(out):
    try:
        js = json.loads(out[out.index("["):])
    except Exception:
        return None
    keys = []
    for rec in js:
        for v in rec["violations"]:
            keys.append((v["code"], v["start_line_no"], v["start_line_pos"], v["description"], bool(v.get("warning"))))
    return sorted(keys)


def run(ctx, prove=True):
    ctx.rule = ("generated SQL (clean, fixable, unfixable, templated, unparsable, noqa'd) x config files (warnings/ignore/fix_even) through CLI path, "
                "CLI stdin with --stdin-filename, and sqlfluff.lint/fix; non-trivial = at least one violation; distinct by (sql, config)")
    if prove:
        ctx.prove(["SqlfluffVerif.Props.C19"], ["Props/C19.lean"])
    ctx.assumptions += ["same effective configuration: one explicit config file, local config discovery disabled (the API never performs it)"]
    lines, meta = [], []
    for case in cli_e2e.gen_cases(ctx, ctx.budget(40, 600)):
        try:
            obs = cli_e2e.run_entry_points(case)
        except Exception as e:
            ctx.bump("harness_case_failed:" + type(e).__name__); continue
        vs = obs["vectors"]
        ctx.count(json.dumps(case, sort_keys=True), nontrivial=bool(vs),
                  sample={"case": case, "fix_path": obs["fix_path_text"], "fix_stdin": obs["fix_stdin_text"], "fix_api": obs["api_fix_text"]} if vs and len(ctx.samples) < 4 else None)
        # violations
        kp, ks = viol_keys_json(obs["lint_path_out"]), viol_keys_json(obs["lint_stdin_out"])
        ka = None if obs.get("api_lint") is None else sorted((v["code"], v["start_line_no"], v["start_line_pos"], v["description"], bool(v.get("warning"))) for v in obs["api_lint"])
        if kp is None or ks is None or ka is None:
            ctx.bump("unparsed_output")
        else:
            if kp != ks:
                ctx.violation("lint by path and by stdin report different violations", {"case": case, "path_only": [k for k in kp if k not in ks][:3], "stdin_only": [k for k in ks if k not in kp][:3]})
            if kp != ka:
                ctx.violation("lint by path and sqlfluff.lint report different violations", {"case": case, "path_only": [k for k in kp if k not in ka][:3], "api_only": [k for k in ka if k not in kp][:3]})
        if obs["lint_path_exit"] != obs["lint_stdin_exit"]:
            ctx.violation("lint exit status differs between path and stdin", {"case": case, "path": obs["lint_path_exit"], "stdin": obs["lint_stdin_exit"]})
        # fixed text
        warn_fixable = any(v[0] == 3 and v[2] and v[4] and not (v[1] or v[3]) for v in vs)
        key = KEY_WARN_STDIN if warn_fixable else None
        if obs["fix_path_text"] != obs["fix_stdin_text"]:
            ctx.violation("fix by path and by stdin produce different text", {"case": case, "path": obs["fix_path_text"], "stdin": obs["fix_stdin_text"]}, key=key)
        if obs["api_fix_exc"] or obs["fix_path_text"] != obs["api_fix_text"]:
            # known: with `ignore = linting` every lint violation is ignored, the CLI skips the file, the API returns the fixed text
            only_ignored = (not obs["api_fix_exc"]) and obs["fix_path_text"] == case["sql"] and "linting" in (case.get("ignore") or "")
            ctx.violation("fix by path and sqlfluff.fix produce different text", {"case": case, "path": obs["fix_path_text"], "api": obs["api_fix_text"], "exception": obs["api_fix_exc"]},
                          key=KEY_API_IGNORED if only_ignored else None)
        if obs["fix_path_exit"] != obs["fix_stdin_exit"]:
            un = lambda v: not (v[1] or v[2] or v[3])
            k2 = None
            if obs["fix_path_exit"] == 0 and obs["fix_stdin_exit"] == 1 and case["fix_even"] and any(v[0] == 0 and un(v) for v in vs):
                k2 = KEY_STDIN_TMP
            if (obs["fix_path_exit"] == 1 and obs["fix_stdin_exit"] == 0 and not case["fix_even"] and any(v[0] in (0, 1) for v in vs)
                    and any(v[0] == 3 and v[4] and un(v) for v in vs)):
                k2 = KEY_STDIN_BLOCKED
            ctx.violation("fix exit status differs between path and stdin", {"case": case, "path": obs["fix_path_exit"], "stdin": obs["fix_stdin_exit"], "vectors": vs}, key=k2)
        flat = [1 if obs["changed"] else 0, 1 if obs["has_tree"] else 0] + [x for v in vs for x in v]
        lines.append("exit.eval %d 0 0 0 %s" % (1 if case["fix_even"] else 0, enc_nnl([flat]))); meta.append((case, obs))
    outs = ctx.driver.run(lines)
    for (case, obs), out in zip(meta, outs):
        t = out.split(" ")
        per = dec_nats(t[2].split(";")[0])
        real = (1 if obs["fix_path_text"] != case["sql"] else 0, 1 if obs["fix_stdin_text"] != case["sql"] else 0,
                2 if obs["api_fix_exc"] else (1 if obs["api_fix_text"] != case["sql"] else 0), obs["fix_path_exit"], obs["fix_stdin_exit"])
        model = (per[5], per[6], per[8], int(t[1]), per[7])
        if real != model:
            ctx.corr_fail("entry-point glue (path writes, stdin output, api output, fix exits)", {"case": case, "vectors": obs["vectors"], "real": real, "model": model})


def search(ctx):
    saved = (list(ctx.proof_broken), list(ctx.corr_broken), list(ctx.contract_fail))
    run(ctx, prove=False)
    ctx.proof_broken, ctx.corr_broken, ctx.contract_fail = saved


def replay(ctx, path):
    case = json.load(open(path))["case"]["case"]
    obs = cli_e2e.run_entry_points(case)
    print(json.dumps({k: v for k, v in obs.items() if not k.endswith("_out") and k != "api_lint"}, indent=1, default=str))
    return 0
