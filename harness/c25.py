"""C25 — file discovery honours ignore files regardless of path spelling.

Theorem: Props/C25.lean (walk = declarative selection, for every tree / ignore files / pathspec behaviour).
Tie: real `paths_from_path` on enumerated small directory trees x ignore files at every level (and in the parent:
outer) x gitignore-style patterns x ignore-file kinds x path spellings (relative, ./relative, absolute, '.', trailing
slash) x working directories, against the Lean walk fed with match tables computed by the real pathspec.
One genuine defect repaired (relative spelling dropped inner ignore files two levels down).
"""
import itertools
import json
import os
import shutil
import tempfile

from vlib.core import enc_nats, enc_nnl

PROP = "C25"
NAMES = {"a.sql": 1, "n.txt": 2, "s": 3, "b.sql": 4, "d": 5, "c.sql": 6, "e.SQL": 7, "t": 8, "f.sql": 9, "g": 10, "h.sql": 11}
INV = {v: k for k, v in NAMES.items()}
# tree under root: (dir path relative to root) -> entries
TREE = {"": ["a.sql", "n.txt", "s", "t"], "s": ["b.sql", "d"], "s/d": ["c.sql", "e.SQL"], "t": ["f.sql", "g"], "t/g": ["h.sql"]}
PATTERNS = ["*.sql", "c.sql", "d/", "d/c.sql", "s/d/c.sql", "/a.sql", "**/c.sql", "s/", "!c.sql", "*.SQL", "t/*", "d", "nothing_matches", "*"]
LEVELS = ["<outer>", "", "s", "s/d", "t", "t/g"]


def build(base, placement):
    """placement: {level: (kind, [patterns])}; returns root path"""
    root = os.path.join(base, "proj")
    for d, entries in TREE.items():
        os.makedirs(os.path.join(root, d), exist_ok=True)
        for e in entries:
            if "." in e:
                open(os.path.join(root, d, e), "w").write("select 1\n")
    for level, entries in placement.items():
        d = base if level == "<outer>" else os.path.join(root, level)
        for (kind, pats) in entries:
            if kind == "ignorefile":
                open(os.path.join(d, ".sqlfluffignore"), "w").write("\n".join(pats) + "\n")
            else:
                open(os.path.join(d, ".sqlfluff"), "w").write("[sqlfluff]\nignore_paths = %s\n" % ",".join(pats))
    return root


def model_input(placement):
    import pathspec
    specs = {}   # level -> list of (id, spec)
    i = 0
    for level, entries in sorted(placement.items()):
        for (kind, pats) in entries:
            specs.setdefault(level, []).append((i, pathspec.PathSpec.from_lines("gitignore", pats)))
            i += 1
    # candidate entries: every file and every dir probe, relative to each spec directory that is an ancestor-or-self
    table = []
    def rel_to(level, path_parts):
        # level "<outer>": spec dir is parent of proj, so rel = proj/<path>
        return (["proj"] if level == "<outer>" else []) + path_parts
    all_entries = []
    for d, entries in TREE.items():
        for e in entries:
            parts = ([x for x in d.split("/") if x]) + [e]
            all_entries.append((parts, "." not in e))
    for level, sid, spec in [(lv, a, b) for lv, lst in specs.items() for (a, b) in lst]:
        lvl_parts = [] if level in ("<outer>", "") else level.split("/")
        for parts, is_dir in all_entries:
            if parts[:len(lvl_parts)] != lvl_parts or len(parts) <= len(lvl_parts):
                continue
            relparts = parts[len(lvl_parts):]
            rel = "/".join(rel_to(level, relparts) + (["*"] if is_dir else []))
            if spec.match_file(rel):
                # path as the model sees it: names from the spec's dir (outer: from root, prefixed by nothing since rel starts at root)
                table.append([sid, 1 if is_dir else 0] + [NAMES[x] for x in relparts])
    def node(d, e):
        parts = ([x for x in d.split("/") if x]) + [e]
        if "." in e:
            return [0, NAMES[e], 1 if e.lower().endswith(".sql") else 0]
        sub = "/".join(parts)
        sp = [x[0] for x in specs.get(sub, [])]
        kids = [node(sub, x) for x in TREE[sub]]
        return [1, NAMES[e], len(sp)] + sp + [len(kids)] + [y for k in kids for y in k]
    nodes = [y for e in TREE[""] for y in node("", e)]
    root_specs = [x[0] for x in specs.get("", [])]
    outer = [[x[0]] for x in specs.get("<outer>", [])]
    return "disc.walk %s %s %s %s" % (enc_nats(nodes), enc_nats(root_specs), enc_nnl(outer), enc_nnl(table))


def placements(ctx):
    rng = ctx.rng
    kinds = ["ignorefile", "config"]
    # every single level with every pattern
    for level in LEVELS:
        for p in PATTERNS:
            yield {level: [(kinds[(len(p) + len(level)) % 2], [p])]}
    # two ignore sources in one directory, and nested ignore files, with patterns that could hit a sibling directory
    reach = ["*.sql", "f.sql", "b.sql", "c.sql", "h.sql", "nothing_matches"]
    for level in LEVELS:
        for p1, p2 in itertools.product(reach, repeat=2):
            yield {level: [("ignorefile", [p1]), ("config", [p2])]}
    for (l1, l2) in [("s", "s/d"), ("t", "t/g"), ("", "s"), ("<outer>", "s/d"), ("", "t/g")]:
        for p1, p2 in itertools.product(reach, repeat=2):
            yield {l1: [("ignorefile", [p1])], l2: [(kinds[len(p2) % 2], [p2])]}
    for l1, l2 in itertools.combinations(LEVELS, 2):
        for _ in range(ctx.budget(4, 40)):
            yield {l1: [(rng.choice(kinds), rng.sample(PATTERNS, rng.randint(1, 2)))], l2: [(rng.choice(kinds), rng.sample(PATTERNS, rng.randint(1, 2)))]}
    for _ in range(ctx.budget(10, 150)):
        ls = rng.sample(LEVELS, 3)
        out = {}
        for l in ls:
            k = rng.choice(kinds)
            out[l] = [(k, rng.sample(PATTERNS, rng.randint(1, 2)))]
            if rng.random() < 0.3:
                out[l].append(("config" if k == "ignorefile" else "ignorefile", [rng.choice(reach)]))
        yield out
    yield {}


def run(ctx, prove=True):
    from sqlfluff.core.linter.discovery import paths_from_path
    ctx.rule = ("fixed 4-directory tree; ignore files (.sqlfluffignore / .sqlfluff ignore_paths) at every single level x 14 gitignore patterns, "
                "sampled pairs/triples of levels; each x spellings {proj, ./proj, abs, proj/, '.' from inside} ; non-trivial = some file is ignored; "
                "distinct by (placement, spelling)")
    if prove:
        ctx.prove(["SqlfluffVerif.Props.C25"], ["Props/C25.lean"])
    ctx.assumptions += ["pathspec is a parameter: its answers for every (spec, relative path) are computed by the real library and shipped to Lean as a table"]
    lines, meta = [], []
    cwd0 = os.getcwd()
    for placement in placements(ctx):
        base = tempfile.mkdtemp(prefix="verif_c25_")
        try:
            root = build(base, placement)
            results = {}
            for spelling, cwd, arg in [("relative", base, "proj"), ("dot-relative", base, "./proj"), ("absolute", base, root),
                                       ("trailing-slash", base, "proj/"), ("dot", root, ".")]:
                os.chdir(cwd)
                try:
                    got = paths_from_path(arg, working_path=os.getcwd(), target_file_exts=(".sql",))
                    results[spelling] = sorted(os.path.relpath(os.path.abspath(os.path.join(cwd, g)), root) for g in got)
                except Exception as e:
                    results[spelling] = "raised %s: %s" % (type(e).__name__, str(e)[:100])
                finally:
                    os.chdir(cwd0)
            case = {"placement": {k: [list(x) for x in v] for k, v in placement.items()}, "results": results}
            ref = results["absolute"]
            for sp, r in results.items():
                # '.' from inside the project: an outer ignore file in the parent is outside the working directory → not applicable
                if sp == "dot" and "<outer>" in placement:
                    continue
                if r != ref:
                    ctx.violation("the selected files depend on how the path is spelled", {"placement": case["placement"], "spelling": sp, "got": r, "absolute": ref})
            lines.append(model_input(placement)); meta.append((case, ref))
            allf = sorted(os.path.join(d, e) if d else e for d, es in TREE.items() for e in es if e.lower().endswith(".sql"))
            ctx.count(json.dumps(case["placement"], sort_keys=True), nontrivial=isinstance(ref, list) and len(ref) < len(allf),
                      sample={"placement": case["placement"], "selected": ref} if isinstance(ref, list) and 0 < len(ref) < len(allf) and len(ctx.samples) < 4 else None)
        finally:
            os.chdir(cwd0)
            shutil.rmtree(base, ignore_errors=True)
    outs = ctx.driver.run(lines)
    for (case, ref), out in zip(meta, outs):
        model = sorted("/".join(INV[x] for x in p) for p in ([] if out == "~" else [[int(y) for y in q.split(",")] for q in out.split(";")]))
        if model != ref:
            # the Lean walk is proved equal to the property's statement, so a difference is a failing input
            ctx.violation("files selected differ from: has a listed extension and not matched (directly or via a pruned directory) by an applicable ignore file",
                          {"placement": case["placement"], "real": ref, "expected": model})
            ctx.corr_fail("paths_from_path vs walk", {"placement": case["placement"], "real": ref, "model": model})


def search(ctx):
    saved = (list(ctx.proof_broken), list(ctx.corr_broken), list(ctx.contract_fail))
    run(ctx, prove=False)
    ctx.proof_broken, ctx.corr_broken, ctx.contract_fail = saved


def replay(ctx, path):
    case = json.load(open(path))["case"]
    print(json.dumps(case, indent=1))
    return 0
