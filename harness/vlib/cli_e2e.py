"""End-to-end cases through the three entry points (CLI path, CLI stdin, Python API) for C18/C19/C22/C34."""
from __future__ import annotations

import os
import shutil
import tempfile
import itertools

KIND = {"TMP": 0, "PRS": 1, "LXR": 2}


def gen_cases(ctx, n):
    rng = ctx.rng
    stmts_ok = ["SELECT a FROM t\n", "SELECT a  FROM t\n", "SELECT a, b FROM t GROUP BY a, 2\n", "SELECT a  ,b FROM t\n"]
    prs = ["SELECT a  FROM t WHERE (\n", "SELECT a  FROM t WHERE ( -- noqa: PRS\n", "SELECT a  FROM t WHERE ( -- noqa\n",
           "SELECT a  FROM t WHERE ( -- noqa: LT01\n", "SELECT 1 +\n"]
    tmp = ["SELECT {{ undefined_x }}  FROM t\n", "SELECT {{ undefined_x }}  FROM t -- noqa: TMP\n", "SELECT {{ 1 }}  FROM t\n"]
    noqa_sfx = ["", "", "", " -- noqa", " -- noqa: LT01", " -- noqa: AM06"]
    fixed = [
        dict(sql="SELECT a  FROM tbl WHERE (  -- noqa: PRS\n", warnings=None, ignore=None, fix_even=False, templater="raw"),
        dict(sql="select a  from b where  -- noqa: PRS\n", warnings="LT01", ignore=None, fix_even=False, templater="raw"),
        dict(sql="SELECT a  FROM t WHERE (\n", warnings=None, ignore="parsing", fix_even=False, templater="raw"),
        dict(sql="SELECT a  FROM t WHERE (\n", warnings="PRS", ignore=None, fix_even=False, templater="raw"),
        dict(sql="SELECT a  FROM t WHERE (\n", warnings=None, ignore=None, fix_even=True, templater="raw"),
        dict(sql="SELECT a  FROM t\n", warnings="LT01", ignore=None, fix_even=False, templater="raw"),
        dict(sql="SELECT {{ undefined_x }}  FROM t\n", warnings=None, ignore="templating", fix_even=False, templater="jinja"),
    ]
    for c in fixed:
        yield c
    # inline `-- sqlfluff:` directives must be honoured the same way by every entry point
    for sql in ["-- sqlfluff:rules:AM06\nSELECT a  FROM t\n", "-- sqlfluff:exclude_rules:LT01\nSELECT a  FROM t\n",
                "-- sqlfluff:rules:LT01\nSELECT a, b FROM t GROUP BY a, 2\n", "-- sqlfluff:max_line_length:10\nSELECT a FROM t\n"]:
        yield dict(sql=sql, warnings=None, ignore=None, fix_even=False, templater="raw")
    # files in which every violation is suppressed by construction (each line names all codes that can fire on it)
    sup_lines = ["SELECT a  FROM t WHERE ( -- noqa: LT01,PRS\n", "SELECT a  FROM t WHERE ( -- noqa: PRS,LT01\n", "SELECT a  ,b FROM t -- noqa: LT01,AM06,PRS\n",
                 "SELECT a  FROM t WHERE ( -- noqa: layout.spacing,PRS\n", "SELECT a  FROM t WHERE ( -- noqa: L*,PRS\n", "SELECT a  FROM t WHERE ( -- noqa\n",
                 "SELECT a, b FROM t GROUP BY a, 2 -- noqa: AM06, LT01\n"]
    for l in sup_lines:
        yield dict(sql=l, warnings=None, ignore=None, fix_even=False, templater="raw", all_suppressed=True)
    yield dict(sql="-- noqa: disable=LT01,PRS\nSELECT a  FROM t WHERE (\n", warnings=None, ignore=None, fix_even=False, templater="raw", all_suppressed=True)
    yield dict(sql="SELECT {{ undefined_x }}  FROM t -- noqa: LT01,TMP,PRS\n", warnings=None, ignore=None, fix_even=False, templater="jinja", all_suppressed=True)
    for _ in range(n):
        templ = "jinja" if rng.random() < 0.35 else "raw"
        lines = []
        for _ in range(rng.randint(1, 3)):
            r = rng.random()
            if r < 0.55:
                s = rng.choice(stmts_ok)
                s = s[:-1] + rng.choice(noqa_sfx) + "\n"
            elif r < 0.8 or templ == "raw":
                s = rng.choice(prs)
            else:
                s = rng.choice(tmp)
            lines.append(s)
        # statements need terminators to coexist in one file
        sql = "".join(l[:-1].replace(" -- ", "; -- ", 1) + "\n" if " -- " in l else l[:-1] + ";\n" for l in lines)
        yield dict(sql=sql, warnings=rng.choice([None, None, "LT01", "PRS", "AM06", "LT01,PRS"]),
                   ignore=rng.choice([None, None, None, "parsing", "templating", "linting"]),
                   fix_even=rng.random() < 0.12, templater=templ)


def write_cfg(d, case, extra=None):
    cfg = os.path.join(d, "cfg.ini")
    lines = ["[sqlfluff]", "dialect = ansi", "rules = LT01,AM06", "templater = %s" % case["templater"]]
    if case.get("warnings"):
        lines.append("warnings = %s" % case["warnings"])
    if case.get("ignore"):
        lines.append("ignore = %s" % case["ignore"])
    if case.get("fix_even"):
        lines.append("fix_even_unparsable = True")
    for k, v in (extra or {}).items():
        lines.append("%s = %s" % (k, v))
    open(cfg, "w").write("\n".join(lines) + "\n")
    return cfg


def vectors(case, cfg_path):
    """Attribute vectors of the real violations of the file (what the model consumes)."""
    from sqlfluff.core import FluffConfig, Linter
    cfg = FluffConfig.from_root(extra_config_path=cfg_path, ignore_local_config=True)
    lf = Linter(config=cfg).lint_string(case["sql"], fname="x.sql", fix=True)
    vs = []
    for v in lf.violations:
        code = v.rule_code()
        kind = KIND.get(code, 3 if hasattr(v, "fixes") else 4)
        masked = False
        if lf.ignore_mask is not None and not v.ignore:
            masked = not lf.ignore_mask.ignore_masked_violations([v])
        vs.append([kind, int(bool(v.ignore)), int(bool(v.warning)), int(masked), int(bool(getattr(v, "fixes", None))), int(bool(v.fatal))])
    has_tree = lf.tree is not None
    changed = False
    if has_tree and lf.templated_file is not None:
        try:
            changed = bool(lf.fix_string()[1])
        except Exception:
            changed = False
    return vs, changed, has_tree, lf


def run_entry_points(case, want=("lint_path", "fix_path", "fix_stdin", "lint_stdin", "api")):
    """Returns dict of observations from the real entry points for one case."""
    from click.testing import CliRunner
    from sqlfluff.cli.commands import lint, fix
    import sqlfluff
    d = tempfile.mkdtemp(prefix="verif_e2e_")
    obs = {}
    try:
        cfg = write_cfg(d, case)
        common = ["--config", cfg, "--ignore-local-config", "--disable-progress-bar"]
        if "vectors" in want or True:
            vs, changed, has_tree, lf = vectors(case, cfg)
            obs["vectors"] = vs; obs["changed"] = changed; obs["has_tree"] = has_tree
        runner = CliRunner()
        if "lint_path" in want:
            p = os.path.join(d, "a_lint.sql"); open(p, "w", newline="").write(case["sql"])
            r = runner.invoke(lint, [p] + common + ["--format", "json"])
            obs["lint_path_exit"] = r.exit_code
            obs["lint_path_out"] = r.output
            obs["lint_path_intact"] = open(p, newline="").read() == case["sql"]
        if "lint_stdin" in want:
            r = runner.invoke(lint, ["-"] + common + ["--format", "json", "--stdin-filename", os.path.join(d, "a_lint.sql")], input=case["sql"])
            obs["lint_stdin_exit"] = r.exit_code
            obs["lint_stdin_out"] = r.output
        if "fix_path" in want:
            p = os.path.join(d, "b_fix.sql"); open(p, "w", newline="").write(case["sql"])
            r = runner.invoke(fix, [p] + common)
            obs["fix_path_exit"] = r.exit_code
            obs["fix_path_text"] = open(p, newline="").read()
            obs["fix_path_exc"] = repr(r.exception) if r.exception and not isinstance(r.exception, SystemExit) else None
        if "fix_stdin" in want:
            r = runner.invoke(fix, ["-"] + common + ["--stdin-filename", os.path.join(d, "b_fix.sql")], input=case["sql"])
            obs["fix_stdin_exit"] = r.exit_code
            # stderr is mixed into output by default in this click version? keep stdout only when available
            try:
                obs["fix_stdin_text"] = r.stdout
            except Exception:
                obs["fix_stdin_text"] = r.output
            obs["fix_stdin_exc"] = repr(r.exception) if r.exception and not isinstance(r.exception, SystemExit) else None
        if "api" in want:
            try:
                obs["api_fix_text"] = sqlfluff.fix(case["sql"], config_path=cfg)
                obs["api_fix_exc"] = None
            except Exception as e:
                obs["api_fix_text"] = None
                obs["api_fix_exc"] = "%s: %s" % (type(e).__name__, str(e)[:120])
            try:
                obs["api_lint"] = sqlfluff.lint(case["sql"], config_path=cfg)
            except Exception as e:
                obs["api_lint"] = None
                obs["api_lint_exc"] = "%s: %s" % (type(e).__name__, str(e)[:120])
    finally:
        shutil.rmtree(d, ignore_errors=True)
    return obs
