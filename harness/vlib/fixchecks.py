"""Shared driver for the fix-related end-to-end checks (C04 C05 C10 C12 C13 C14 C15 C17):
fixed input universe (vlib/corpus.py) x rule sets; a quick run visits a seed-chosen slice, a thorough run all of it."""
from __future__ import annotations

import multiprocessing
import os

from vlib import corpus, fixrun
from vlib.core import enc_nats, enc_nnl

CLS = {"w": 0, "n": 1, "c": 2, "o": 3}


def slice_of(ctx, items, per_quick):
    n = len(items)
    if ctx.quick():
        step = max(1, n // per_quick)
    elif ctx.tier == "quick":          # escalated search inside a quick run
        step = max(1, n // (per_quick * 4))
    else:
        step = 1
    off = ctx.seed % step
    return [it for k, it in enumerate(items) if k % step == off]


def enc_toks(toks):
    return enc_nats(CLS[c] for (_r, c, _t) in toks), enc_nnl([ord(ch) for ch in r] for (r, _c, _t) in toks)


def key_for(name, ruleset, prop):
    return "input:%s:%s:%s" % (name, ruleset, prop)


def _rec(item):
    import logging
    logging.disable(logging.CRITICAL)
    try:
        name, sql, jctx = corpus.load(item)
    except Exception as e:
        return item, None, None, {"read_error": str(e)}
    return item, name, sql, fixrun.fix_record(item[1], sql, item[3], jctx)


def records(ctx, rulesets, per_quick, kinds=None, procs=14, focus=()):
    items = corpus.full_universe(rulesets)
    if kinds:
        items = [i for i in items if i[0] in kinds]
    if focus and (ctx.quick() or ctx.tier == "quick"):
        # half of a quick run's budget goes to the kinds built for this property's hazard (comments, quoted names, near-limit lines)
        a = [i for i in items if i[0] in focus]
        b = [i for i in items if i[0] not in focus]
        items = slice_of(ctx, a, per_quick // 2) + slice_of(ctx, b, per_quick - per_quick // 2)
    else:
        items = slice_of(ctx, items, per_quick)
    ctx.extra["universe_slice"] = len(items)
    from vlib.par import robust_map
    quick = ctx.tier == "quick"
    ctx.rng.shuffle(items)               # so that a deadline cuts a random part of the slice, not always its tail
    res = robust_map(_rec, items, procs, 150 if quick else 300, deadline=(360 if ctx.quick() else 900) if quick else None)
    for it, r in zip(items, res):
        if isinstance(r, dict):          # worker died, timed out or the run's time budget was used up before this item started
            ctx.bump("universe_" + ("timeout" if r.get("timeout") else ("not_started_time_budget" if r.get("skipped") else "worker_died")))
            if r.get("worker_died"):
                yield it, corpus.name_of(it), "", {"raised": "the interpreter died while fixing this input"}
            continue
        yield r


def run_universe(ctx, prop, rulesets, per_quick, what, kinds=None, focus=()):
    """Runs fix on the slice; evaluates the Lean spec for `prop`; reports violations keyed by input."""
    lines, meta = [], []
    for (item, name, sql, rec) in sorted(records(ctx, rulesets, per_quick, kinds, focus=focus), key=lambda r: (str(r[0]))):
        if name is None:
            continue
        rs = item[3]
        v = fixrun.verdicts(rec)
        interesting = bool(rec.get("changed"))
        ctx.count((name, rs), nontrivial=interesting,
                  sample={"input": name, "ruleset": rs, "changed": rec.get("changed")} if len(ctx.samples) < 4 and interesting else None)
        ctx.bump("kind_" + item[0]); ctx.bump("ruleset_" + rs)
        ctx.bump("fixed_files" if rec.get("changed") else "unchanged_files")
        if rec.get("clean_input"):
            ctx.bump("clean_inputs")
        case = {"input": name, "dialect": item[1], "ruleset": rs, "sql": sql[:1500]}
        if "raised" in rec:
            ctx.bump("raised")
            if prop == "C04":
                ctx.violation(what, dict(case, raised=rec["raised"]), key=key_for(name, rs, prop))
            continue
        if prop == "C05" and rec.get("internal_errors"):
            ctx.violation(what, dict(case, internal=rec["internal_errors"][:3]), key=key_for(name, rs, prop))
        if "fixed" not in rec or prop in ("C04", "C05"):
            continue
        if prop in ("C12", "C14", "C15"):
            if rec.get("templated"):
                continue
            a = rec["tree_toks"] if prop == "C12" else rec["orig_toks"]
            b = rec["relex_toks"]
            ca, ra = enc_toks(a); cb, rb = enc_toks(b)
            if prop == "C15":
                # Unicode case mapping is supplied (Python's str.lower()); the relation itself is evaluated by Lean
                fa = enc_nnl([ord(ch) for ch in r.lower()] for (r, _c, _t) in a); fb = enc_nnl([ord(ch) for ch in r.lower()] for (r, _c, _t) in b)
                lines.append("edit.spec15 %s %s %s %s %s %s" % (ca, ra, fa, cb, rb, fb))
            else:
                lines.append("edit.spec %s %s %s %s" % (ca, ra, cb, rb))
            meta.append((case, name, rs, rec, v))
        elif prop in v and v[prop] is False:
            detail = {"C13": {"reparse_errors": rec.get("reparse_errs"), "relex_errors": rec.get("relex_errs"), "fixed": rec["fixed"][:600]},
                      "C10": {"source_tags": rec.get("src_tags"), "fixed_tags": rec.get("fixed_tags")},
                      "C17": {"first": rec["fixed"][:600], "second": rec["second"][:600]}}.get(prop, {})
            ctx.violation(what, dict(case, **detail), key=key_for(name, rs, prop))
    outs = ctx.driver.run(lines) if lines else []
    idx = {"C12": 0, "C14": 1, "C15": 2}
    for (case, name, rs, rec, v), out in zip(meta, outs):
        ok = (out.strip() == "1") if prop == "C15" else (out.split(" ")[idx[prop]] == "1")
        if prop == "C12":
            ok = ok and "".join(r for r, _, _ in rec["tree_toks"]) == rec["fixed"]
        if ok != bool(v.get(prop)):
            ctx.corr_fail("spec evaluation (Lean vs harness) for " + prop, dict(case))
        if not ok:
            a = rec["tree_toks"] if prop == "C12" else rec["orig_toks"]
            b = rec["relex_toks"]
            if prop == "C14":
                a = [t for t in a if t[1] == "o"]; b = [t for t in b if t[1] == "o"]
            i = next((k for k, (x, y) in enumerate(zip(a, b)) if x[:2] != y[:2]), min(len(a), len(b)))
            key = key_for(name, rs, prop)
            if prop == "C15" and rs == "cap_snake" and len(a) == len(b):
                und = lambda t: t.lower().replace("_", "")
                if all(x[1] == y[1] and (x[0] == y[0] or (x[1] == "o" and x[0][:1] not in "'\"`[" and und(x[0]) == und(y[0]))) for x, y in zip(a, b)):
                    key = "callsite:CP-rules:snake-policy-inserts-underscores"
            ctx.violation(what, dict(case, first_difference=[a[max(0, i - 1): i + 3], b[max(0, i - 1): i + 3]]), key=key)


def loop_correspondence(ctx, n_quick, n_thorough):
    """Ties Model/FixLoop.lean to Linter.lint_fix_parsed: record the real loop as tables (which rule proposes which fix set on
    which tree; what apply_fixes returns), replay the tables through the Lean loop and compare the final tree and the
    roll-back flag with the real run."""
    from sqlfluff.core import Linter
    from vlib import looptrace
    items = [i for i in corpus.full_universe(("all", "layout")) if i[0] not in ("jinja", "jpad")]
    ctx.rng.shuffle(items)
    lines, meta = [], []
    for item in items[: ctx.budget(n_quick, n_thorough)]:
        try:
            name, sql, _ = corpus.load(item)
        except Exception:
            continue
        if len(sql) > 4000:
            continue
        try:
            lnt = Linter(config=fixrun.make_config(item[1], item[3]))
            tree, tr, m = looptrace.traced_fix(lnt, sql)
        except Exception as e:
            ctx.bump("trace_raised"); continue
        finally:
            import sys
            if hasattr(sys, "tracebacklimit"):
                del sys.tracebacklimit
        if m is None:
            continue
        ctx.contract("RulesAreFunctions", not tr.nonfunctional, {"input": name, "ruleset": item[3], "nonfunctional": tr.nonfunctional[:3]})
        ctx.bump("loop_traces"); ctx.bump("loop_trees", len(tr.trees))
        lines.append(looptrace.model_line(tr, m)); meta.append((name, item[3], m, tr))
    outs = ctx.driver.run(lines) if lines else []
    for (name, rs, m, tr), out in zip(meta, outs):
        got = out.split()
        ctx.count(("loop", name, rs), nontrivial=len(tr.trees) > 1)
        if not got or got[0] != str(m["final"]):
            if not tr.nonfunctional:
                ctx.corr_fail("FixLoop model vs lint_fix_parsed (final tree)", {"input": name, "ruleset": rs, "model": out, "real_final": m["final"], "trees": len(tr.trees)})
