"""Process-parallel map that survives a worker dying (segfault, os._exit) or hanging: returns, per job, the function's
result or {"worker_died": True} / {"timeout": True}. One job per worker at a time; a worker that exceeds the timeout or
dies is killed and replaced, only its current job is affected."""
from __future__ import annotations

import multiprocessing
import time
from multiprocessing.connection import wait


def _worker(fn, conn):
    while True:
        try:
            msg = conn.recv()
        except EOFError:
            return
        if msg is None:
            return
        i, job = msg
        try:
            res = fn(job)
        except BaseException as e:  # noqa
            res = {"raised_in_worker": repr(e)[:300]}
        try:
            conn.send((i, res))
        except Exception as e:  # unpicklable result
            conn.send((i, {"raised_in_worker": "unpicklable result: %r" % (e,)}))


class _Slot:
    def __init__(self, mp, fn):
        self.parent, child = mp.Pipe()
        self.proc = mp.Process(target=_worker, args=(fn, child), daemon=True)
        self.proc.start()
        child.close()
        self.job = None
        self.t0 = 0.0

    def kill(self):
        try:
            self.proc.kill()
            self.proc.join(2)
        except Exception:
            pass
        try:
            self.parent.close()
        except Exception:
            pass


def robust_map(fn, jobs, procs=14, timeout=240, deadline=None):
    """deadline (seconds from now): jobs not started by then are returned as {"skipped": True}."""
    mp = multiprocessing.get_context("fork")
    jobs = list(jobs)
    out = [None] * len(jobs)
    nxt = 0
    done = 0
    t_start = time.time()
    slots = [_Slot(mp, fn) for _ in range(min(procs, max(1, len(jobs))))]
    try:
        while done < len(jobs):
            if deadline is not None and time.time() - t_start > deadline and nxt < len(jobs):
                for i in range(nxt, len(jobs)):
                    out[i] = {"skipped": True}
                    done += 1
                nxt = len(jobs)
            for k, s in enumerate(slots):
                if s.job is None and nxt < len(jobs):
                    s.job, s.t0 = nxt, time.time()
                    s.parent.send((nxt, jobs[nxt]))
                    nxt += 1
            busy = [s for s in slots if s.job is not None]
            ready = wait([s.parent for s in busy], timeout=1.0)
            now = time.time()
            for k, s in enumerate(slots):
                if s.job is None:
                    continue
                if s.parent in ready:
                    try:
                        i, res = s.parent.recv()
                        out[i] = res
                        s.job = None
                        done += 1
                        continue
                    except (EOFError, OSError):
                        out[s.job] = {"worker_died": True}
                        done += 1
                        s.kill(); slots[k] = _Slot(mp, fn)
                        continue
                if not s.proc.is_alive():
                    out[s.job] = {"worker_died": True}
                    done += 1
                    s.kill(); slots[k] = _Slot(mp, fn)
                elif now - s.t0 > timeout:
                    out[s.job] = {"timeout": True}
                    done += 1
                    s.kill(); slots[k] = _Slot(mp, fn)
    finally:
        for s in slots:
            try:
                if s.job is None:
                    s.parent.send(None)
            except Exception:
                pass
            s.kill()
    return out
