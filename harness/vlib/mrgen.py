"""Random MatchResult trees (as nested tuples) for C02/C03 correspondence.

A node is (start, stop, cls_or_None, inserts[(idx, kind)], children[...])."""


def gen_mr(rng, start, stop, depth=0, wf=True):
    """Mostly well-formed match tree over tokens [start, stop)."""
    cls = rng.choice([None, 0, 1, 2]) if stop > start else None
    inserts, children = [], []
    if stop > start and depth < 3:
        pos = start
        while pos < stop and rng.random() < 0.6:
            a = rng.randint(pos, stop)
            b = rng.randint(a, stop)
            if a == b and rng.random() < 0.7:
                # zero-length child with an insert only
                children.append((a, a, None, [(a, rng.choice([0, 1]))], []))
            elif a < b:
                children.append(gen_mr(rng, a, b, depth + 1, wf))
            pos = b
    if stop >= start:
        k = rng.choice([0, 0, 1, 2])
        for _ in range(k):
            idx = rng.randint(start, stop)
            if wf and any(c[0] < idx < c[1] for c in children):
                continue
            inserts.append((idx, rng.choice([0, 1])))
        if stop == start:
            inserts = [(start, kd) for (_, kd) in inserts]
    if not wf:
        r = rng.random()
        if r < 0.3 and children:
            c = rng.choice(children)
            children.append((c[0], c[1], c[2], list(c[3]), list(c[4])))  # duplicate child → overlap
        elif r < 0.5 and stop > start:
            inserts.append((rng.randint(0, stop + 2), 0))
        elif r < 0.7:
            rng.shuffle(children)
        elif r < 0.85 and stop > start + 1:
            a = rng.randint(start, stop - 1)
            children.append((a, min(stop + 1, a + 2), 0, [], []))
    elif rng.random() < 0.3:
        rng.shuffle(children)  # order of disjoint children must not matter
    return (start, stop, cls, inserts, children)


def flat(mr):
    s, e, cls, ins, ch = mr
    out = [s, e, 0 if cls is None else cls + 1, len(ins), len(ch)]
    for (i, k) in ins:
        out += [i, k]
    for c in ch:
        out += flat(c)
    return out


def unflat(l, pos=0):
    s, e, c, ni, nc = l[pos:pos + 5]
    pos += 5
    ins = [(l[pos + 2 * k], l[pos + 2 * k + 1]) for k in range(ni)]
    pos += 2 * ni
    ch = []
    for _ in range(nc):
        m, pos = unflat(l, pos)
        ch.append(m)
    return (s, e, None if c == 0 else c - 1, ins, ch), pos
