"""Record the real fix loop (`Linter.lint_fix_parsed`) as tables for the Lean model `FixLoop`."""
from __future__ import annotations


class Trace:
    def __init__(self):
        self.trees = []      # canonical tree keys, index = id
        self.fixes = []      # list of fix lists (python objects), index = id (compared with ==)
        self.propose = {}    # (rule idx, tree id) -> fix id
        self.apply = {}      # (tree id, fix id) -> (tree id, valid)
        self.conflicting = set()
        self.nonfunctional = []   # contract RulesAreFunctions failures
        self.rules = []

    def tree_id(self, tree):
        key = (tree.raw, tuple(tree.source_fixes))
        for i, k in enumerate(self.trees):
            if k == key:
                return i
        self.trees.append(key)
        return len(self.trees) - 1

    def fix_id(self, fixes):
        for i, f in enumerate(self.fixes):
            if f == fixes:
                return i
        self.fixes.append(fixes)
        return len(self.fixes) - 1


def traced_fix(linter, sql, fname="<trace>"):
    """Run lint_string(fix=True) recording the loop. Returns (linted_file, Trace, meta)."""
    import sqlfluff.core.linter.linter as lm
    from sqlfluff.core.rules.base import BaseRule
    from sqlfluff.core.linter.fix import compute_anchor_edit_info
    tr = Trace()
    orig_crawl = BaseRule.crawl
    orig_apply = lm.apply_fixes
    rule_index = {}

    def crawl(self, tree, *a, **k):
        res = orig_crawl(self, tree, *a, **k)
        if k.get("fix"):
            ridx = rule_index.get(self.code)
            if ridx is not None:
                tid = tr.tree_id(tree)
                fixes = res[2]
                if fixes:
                    fid = tr.fix_id(fixes)
                    info = compute_anchor_edit_info(fixes)
                    if any(not i.is_valid for i in info.values()):
                        tr.conflicting.add(fid)
                    old = tr.propose.get((ridx, tid))
                    if old is not None and old != fid:
                        tr.nonfunctional.append(("propose", self.code))
                    tr.propose[(ridx, tid)] = fid
                else:
                    if (ridx, tid) in tr.propose:
                        tr.nonfunctional.append(("propose-none", self.code))
        return res

    def apply(tree, dialect, rule_code, anchor_info, **k):
        out = orig_apply(tree, dialect, rule_code, anchor_info, **k)
        tid = tr.tree_id(tree)
        fixes = [f for info in anchor_info.values() for f in info.fixes]
        # identify the fix set by the last proposal of this rule on this tree
        ridx = rule_index.get(rule_code)
        fid = tr.propose.get((ridx, tid))
        if fid is not None:
            nt = tr.tree_id(out[0])
            val = (nt, bool(out[3]))
            old = tr.apply.get((tid, fid))
            if old is not None and old != val:
                tr.nonfunctional.append(("apply", rule_code))
            tr.apply[(tid, fid)] = val
        return out

    rp = linter.get_rulepack(config=linter.config)
    for i, r in enumerate(rp.rules):
        rule_index[r.code] = i + 1
        tr.rules.append((i + 1, 1 if r.lint_phase == "post" else 0, 1 if r.is_fix_compatible else 0))
    BaseRule.crawl = crawl
    lm.apply_fixes = apply
    try:
        parsed = linter.parse_string(sql, fname=fname)
        root = parsed.root_variant()
        if root is None or root.tree is None:
            return None, tr, None
        t0 = tr.tree_id(root.tree)
        fixed_tree, _, _, _ = linter.lint_fix_parsed(root.tree, config=parsed.config, rule_pack=linter.get_rulepack(config=parsed.config),
                                                     fix=True, fname=fname, templated_file=root.templated_file)
        final = tr.tree_id(fixed_tree)
        limit = parsed.config.get("runaway_limit")
        return fixed_tree, tr, {"t0": t0, "final": final, "limit": limit}
    finally:
        BaseRule.crawl = orig_crawl
        lm.apply_fixes = orig_apply


def model_line(tr, meta):
    from vlib.core import enc_nats
    rules = [x for r in tr.rules for x in r]
    prop = [x for (r, t), f in sorted(tr.propose.items()) for x in (r, t, f)]
    app = [x for (t, f), (nt, v) in sorted(tr.apply.items()) for x in (t, f, nt, 1 if v else 0)]
    return "fixloop.run %d %d %s %s %s %s" % (meta["limit"], meta["t0"], enc_nats(rules), enc_nats(prop), enc_nats(app), enc_nats(sorted(tr.conflicting)))
