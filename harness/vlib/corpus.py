"""The fixed input universe of the fix-related checks (C04 C05 C10 C12 C13 C14 C15 C17).

Items are (kind, dialect, ident, ruleset):
  fixture  — a dialect fixture file                     ident = path relative to the repo
  mutant   — one seeded mutation of that fixture file   ident = path relative to the repo
  gen      — generated ansi SQL                          ident = generator seed
  jinja    — generated jinja template + context         ident = generator seed (even: inline, odd: block style)
The universe is a pure function of the repo's fixture directory and of `corpus_gen.py` (frozen), so a known finding can
be keyed by the item's name; VERIF_SEED only chooses which slice a quick run visits.
"""
from __future__ import annotations

import os
import random
import zlib

from vlib import corpus_gen as G

MAIN = ("all", "layout", "capitalisation")
VARIANTS = ("cap_upper", "cap_lower", "cap_pascal", "cap_snake", "cap_camel", "layout_alt")
N_GEN = 400
N_JINJA = 300
REPO = str(G.REPO)


def name_of(item):
    kind, d, ident, rs = item
    return {"fixture": "%s", "mutant": "%s#mut", "gen": "gen#%s", "jinja": "jinja#%s"}[kind] % (ident,)


def load(item):
    """-> (name, sql, jinja context or None)"""
    kind, d, ident, rs = item
    if kind in ("fixture", "mutant"):
        sql = open(os.path.join(REPO, ident), encoding="utf-8").read()
        if kind == "mutant":
            sql = G.mutate_sql(random.Random(zlib.crc32(ident.encode())), sql)
        return name_of(item), sql, None
    if kind == "gen":
        return name_of(item), G.sql_file(random.Random(int(ident))), None
    tpl, ctx = (G.jinja_block_template if int(ident) % 2 else G.jinja_template)(random.Random(int(ident)))
    return name_of(item), tpl, ctx


def base_items():
    out = []
    for d, f in G.fixture_files():
        rel = os.path.relpath(str(f), REPO)
        out.append(("fixture", d, rel))
        out.append(("mutant", d, rel))
    out += [("gen", "ansi", i) for i in range(N_GEN)]
    return out


def full_universe(rulesets=None):
    items = []
    for (k, d, i) in base_items():
        c = zlib.crc32(("%s:%s" % (k, i)).encode())
        for rs in MAIN:
            items.append((k, d, i, rs))
        items.append((k, d, i, VARIANTS[(c // 3) % len(VARIANTS)]) if c % 3 == 0 else None)
    items = [x for x in items if x is not None]
    for i in range(N_JINJA):
        for rs in ("all", "layout"):
            items.append(("jinja", "ansi", i, rs))
    if rulesets is not None:
        items = [x for x in items if x[3] in rulesets]
    return items
