"""The fixed input universe of the fix-related checks (C04 C05 C10 C12 C13 C14 C15 C17).

Items are (kind, dialect, ident, ruleset):
  fixture  — a dialect fixture file                     ident = path relative to the repo
  mutant   — one seeded mutation of that fixture file   ident = path relative to the repo
  gen      — generated ansi SQL                          ident = generator seed
  jinja    — generated jinja template + context         ident = generator seed (even: inline, odd: block style)
  cmt      — the fixture with 1-3 inline comments (`-- c<k>` + newline) put in place of whitespace tokens (every 2nd fixture)
  quo      — the fixture with 1-3 unquoted identifiers replaced by a mixed-case quoted identifier (every 2nd fixture)
  jpad     — the jinja templates again with the padding inside some tags removed and a table name glued from three tags
  edge     — generated statements whose lines are padded to within 3 characters of max_line_length (near-limit lines)
The universe is a pure function of the repo's fixture directory and of `corpus_gen.py` (frozen), so a known finding can
be keyed by the item's name; VERIF_SEED only chooses which slice a quick run visits.
"""
from __future__ import annotations

import os
import random
import zlib

from vlib import corpus_gen as G

MAIN = ("all", "layout", "capitalisation")
VARIANTS = ("cap_upper", "cap_lower", "cap_pascal", "cap_snake", "cap_camel", "layout_alt")
N_GEN = 400
N_JINJA = 300
N_EDGE = 300
QUOTE = {"mysql": "`%s`", "bigquery": "`%s`", "hive": "`%s`", "sparksql": "`%s`", "databricks": "`%s`", "mariadb": "`%s`", "starrocks": "`%s`", "doris": "`%s`",
         "clickhouse": "`%s`", "tsql": "[%s]", "impala": "`%s`", "soql": None}
REPO = str(G.REPO)


def name_of(item):
    kind, d, ident, rs = item
    return {"fixture": "%s", "mutant": "%s#mut", "gen": "gen#%s", "jinja": "jinja#%s", "cmt": "%s#cmt", "quo": "%s#quo", "edge": "edge#%s", "jpad": "jpad#%s"}[kind] % (ident,)


def _tokens(d, sql):
    from sqlfluff.core import FluffConfig, Lexer
    toks, _ = Lexer(config=FluffConfig(overrides={"dialect": d})).lex(sql)
    return [t for t in toks if not t.is_meta]


_FORMS = {}


def line_comment_forms(d):
    """The line-comment syntaxes the dialect's own lexer accepts (a comment token that ends at the line break)."""
    if d not in _FORMS:
        from sqlfluff.core import FluffConfig, Lexer
        lx = Lexer(config=FluffConfig(overrides={"dialect": d}))
        ok = []
        for cand in ("-- c%d", "# c%d", "REM c%d", "PROMPT c%d", "\\echo c%d", "// c%d"):
            try:
                toks, errs = lx.lex((cand % 7) + "\nSELECT 1\n")
                toks = [t for t in toks if not t.is_meta]
                if not errs and toks and toks[0].is_type("comment") and toks[0].raw == cand % 7 and toks[1].is_type("newline"):
                    ok.append(cand)
            except Exception:
                pass
        _FORMS[d] = ok or ["-- c%d"]
    return _FORMS[d]


def inject_comments(rng, d, sql):
    """Inline comments are legal between any two tokens: put 1-3 of them either in place of a whitespace token or directly
    at a token boundary (e.g. between a function name and its bracket)."""
    toks = _tokens(d, sql)
    ws = [i for i, t in enumerate(toks) if t.is_type("whitespace") and i + 1 < len(toks) and not toks[i + 1].is_type("newline", "comment")
          and (i == 0 or not toks[i - 1].is_type("comment"))]
    bd = [i for i, t in enumerate(toks) if i > 0 and not t.is_type("whitespace", "newline", "comment", "end_of_file")
          and not toks[i - 1].is_type("whitespace", "newline", "comment") and toks[i - 1].raw.strip()]
    rng.shuffle(ws); rng.shuffle(bd)
    k = rng.randint(1, 3)
    pick_ws = set(ws[: max(0, k - 1)])
    pick_bd = set(bd[:1]) if bd else set()
    if not pick_bd:
        pick_ws = set(ws[:k])
    out = []
    for i, t in enumerate(toks):
        forms = line_comment_forms(d)
        if i in pick_bd:
            out.append(" " + rng.choice(forms) % (i % 7) + "\n")
        out.append((" " + rng.choice(forms) % (i % 7) + "\n") if i in pick_ws else t.raw)
    return "".join(out)


def inject_quotes(rng, d, sql):
    q = QUOTE.get(d, '"%s"')
    if q is None:
        return sql
    toks = _tokens(d, sql)
    ids = [i for i, t in enumerate(toks) if t.is_type("word") and t.raw.isidentifier() and t.raw.lower() not in KEYWORDISH and len(t.raw) > 1]
    rng.shuffle(ids)
    pick = set(ids[: rng.randint(1, 3)])
    out = []
    for i, t in enumerate(toks):
        if i in pick:
            r = t.raw
            out.append(q % (r[0].upper() + r[1:].lower() + rng.choice(["", " x", "Y"])))
        else:
            out.append(t.raw)
    return "".join(out)


KEYWORDISH = set("""select from where and or not null as on join left right inner outer full cross group by order having limit union all distinct case when then
else end insert into values update set delete create table view index drop alter add column primary key foreign references default with recursive is in between like exists
true false asc desc using over partition rows range unbounded preceding following current row interval cast if begin declare return returns function procedure""".split())


def edge_sql(rng, limit=80):
    """Statements whose select targets / conditions sit on lines of length limit-3 .. limit+2."""
    lines = [rng.choice(["SELECT", "select"])]
    n = rng.randint(2, 4)
    for i in range(n):
        body = rng.choice(["col_%d %s", "tbl.col_%d %s", "coalesce(col_%d, 0) %s", "col_%d + 1 %s", "sum(col_%d) %s", "col_%d*2 %s", "a.col_%d  %s"])
        alias = rng.choice(["total_%d" % i, "AS total_%d" % i, "as Total_%d" % i])
        text = "    " + body % (i, alias) + ("," if i < n - 1 else "")
        target = limit + rng.choice([-3, -2, -1, 0, 1, 2])
        pad = target - len(text)
        if pad > 0:
            # lengthen the identifier, keeping it one token
            text = text.replace("col_%d" % i, "col_%d%s" % (i, "x" * pad), 1)
        lines.append(text)
    lines.append(rng.choice(["FROM tbl", "from tbl a", "FROM tbl AS a"]))
    if rng.random() < 0.5:
        cond = "WHERE col_0 = 1 AND col_1 IN (1, 2, 3)"
        target = limit + rng.choice([-2, -1, 0, 1])
        cond = cond + " AND " + "y" * max(1, target - len(cond) - 9) + " = 2"
        lines.append(cond)
    return "\n".join(lines) + "\n"


def load(item):
    """-> (name, sql, jinja context or None)"""
    kind, d, ident, rs = item
    if kind in ("fixture", "mutant"):
        sql = open(os.path.join(REPO, ident), encoding="utf-8").read()
        if kind == "mutant":
            sql = G.mutate_sql(random.Random(zlib.crc32(ident.encode())), sql)
        return name_of(item), sql, None
    if kind in ("cmt", "quo"):
        sql = open(os.path.join(REPO, ident), encoding="utf-8").read()
        rng = random.Random(zlib.crc32((kind + ident).encode()))
        return name_of(item), (inject_comments if kind == "cmt" else inject_quotes)(rng, d, sql), None
    if kind == "edge":
        return name_of(item), edge_sql(random.Random(int(ident))), None
    if kind == "gen":
        return name_of(item), G.sql_file(random.Random(int(ident))), None
    tpl, ctx = (G.jinja_block_template if int(ident) % 2 else G.jinja_template)(random.Random(int(ident)))
    if kind == "jpad":
        import re
        r = random.Random(int(ident) + 7919)
        def unpad(m):
            k = r.random()
            inner = m.group(2)
            if k < 0.35:
                return m.group(1) + inner.strip() + m.group(3)
            if k < 0.5:
                return m.group(1) + inner.lstrip() + m.group(3)
            if k < 0.6:
                return m.group(1) + "  " + inner.strip() + " " + m.group(3)
            return m.group(0)
        tpl = re.sub(r"(\{\{|\{%-?)(.*?)(-?%\}|\}\})", unpad, tpl)
        glued = r.choice(["{{t}}_{{name}}_{{n}}", "{{ t }}_{{name}}_{{n}}", "{{t}}_{{ name }}", "{{t}}{{name}}{{n}}"])
        tpl = re.sub(r"(?i)(from\s+)(\{\{ ?t ?\}\}(_x)?|tbl)", lambda m: m.group(1) + glued, tpl, count=1)
    return name_of(item), tpl, ctx


def base_items():
    out = []
    for d, f in G.fixture_files():
        rel = os.path.relpath(str(f), REPO)
        out.append(("fixture", d, rel))
        out.append(("mutant", d, rel))
    out += [("gen", "ansi", i) for i in range(N_GEN)]
    return out


def full_universe(rulesets=None):
    items = []
    for (k, d, i) in base_items():
        c = zlib.crc32(("%s:%s" % (k, i)).encode())
        for rs in MAIN:
            items.append((k, d, i, rs))
        items.append((k, d, i, VARIANTS[(c // 3) % len(VARIANTS)]) if c % 3 == 0 else None)
    items = [x for x in items if x is not None]
    for i in range(N_JINJA):
        for rs in ("all", "layout"):
            items.append(("jinja", "ansi", i, rs))
    for i in range(N_JINJA):
        for rs in ("all", "layout"):
            items.append(("jpad", "ansi", i, rs))
    for k, (d, f) in enumerate(G.fixture_files()):
        if k % 2:
            continue
        rel = os.path.relpath(str(f), REPO)
        for rs in ("all", "layout"):
            items.append(("cmt", d, rel, rs))
        for rs in ("capitalisation", "cap_upper", "cap_lower"):
            items.append(("quo", d, rel, rs))
    for i in range(N_EDGE):
        for rs in ("all", "layout"):
            items.append(("edge", "ansi", i, rs))
    if rulesets is not None:
        items = [x for x in items if x[3] in rulesets]
    return items
