"""Shared machinery: Lean build / audit / driver, verdict logic, evidence, known findings."""
from __future__ import annotations

import fcntl
import hashlib
import json
import os
import random
import re
import subprocess
import sys
import time
from pathlib import Path

VERIF = Path(__file__).resolve().parents[2]
LEAN = VERIF / "lean"
LIB = LEAN / "SqlfluffVerif"
GEN = LIB / "Gen"
REPO = Path(os.environ.get("VERIF_REPO", "/repo"))
EVIDENCE = VERIF / "evidence"
REPLAYS = VERIF / "replays"
ALLOWED_AXIOMS = {"propext", "Classical.choice", "Quot.sound"}
FORBIDDEN = re.compile(
    r"\bsorry\b|\badmit\b|^\s*axiom\s|native_decide|bv_decide|implemented_by|\bunsafe\s|maxHeartbeats\s+0\b",
    re.M,
)


class InfraError(Exception):
    """The machinery itself failed (exit 2, never a violation)."""


def _strip_lean_comments(src: str) -> str:
    # nested block comments
    out = []
    i = 0
    depth = 0
    n = len(src)
    while i < n:
        if src.startswith("/-", i):
            depth += 1
            i += 2
        elif depth and src.startswith("-/", i):
            depth -= 1
            i += 2
        elif depth:
            i += 1
        elif src.startswith("--", i):
            j = src.find("\n", i)
            i = n if j < 0 else j
        else:
            out.append(src[i])
            i += 1
    return "".join(out)


class Lock:
    def __init__(self, path):
        self.path = path

    def __enter__(self):
        self.f = open(self.path, "w")
        fcntl.flock(self.f, fcntl.LOCK_EX)

    def __exit__(self, *a):
        fcntl.flock(self.f, fcntl.LOCK_UN)
        self.f.close()


def write_if_changed(path: Path, text: str) -> bool:
    path.parent.mkdir(parents=True, exist_ok=True)
    if path.exists() and path.read_text() == text:
        return False
    tmp = path.with_suffix(path.suffix + ".tmp%d" % os.getpid())
    tmp.write_text(text)
    os.replace(tmp, path)
    return True


def lake_build(targets, timeout=3000):
    """Run `lake build` for the targets. Returns (ok, output)."""
    with Lock(str(LEAN / ".build.lock")):
        p = subprocess.run(
            ["lake", "build", *targets], cwd=LEAN, capture_output=True, text=True, timeout=timeout
        )
    return p.returncode == 0, p.stdout + p.stderr


def parse_build_errors(out: str):
    """Extract (file, line, message) from lake output."""
    errs = []
    for m in re.finditer(r"^error: (\S+?\.lean):(\d+):(\d+): (.*)$", out, re.M):
        errs.append((m.group(1), int(m.group(2)), m.group(4)))
    return errs


def theorems_in(lean_file: Path):
    """Fully qualified names of the theorems declared in a Lean file (single-namespace files)."""
    src = _strip_lean_comments(lean_file.read_text())
    ns = []
    names = []
    for line in src.splitlines():
        m = re.match(r"\s*namespace\s+(\S+)", line)
        if m:
            ns.append(m.group(1))
            continue
        m = re.match(r"\s*end\s+(\S+)", line)
        if m and ns and ns[-1] == m.group(1):
            ns.pop()
            continue
        m = re.match(r"\s*(?:private\s+|protected\s+)?theorem\s+(\S+)", line)
        if m:
            names.append(".".join(ns + [m.group(1)]))
    return names


def theorem_at(lean_file: Path, line_no: int):
    """Name of the theorem enclosing a line (for reporting a broken proof)."""
    lines = lean_file.read_text().splitlines()
    for i in range(min(line_no, len(lines)) - 1, -1, -1):
        m = re.match(r"\s*(?:private\s+|protected\s+)?(?:theorem|def|example|instance)\s*(\S*)", lines[i])
        if m:
            return m.group(1) or "example@%d" % (i + 1)
    return "?"


def audit(modules, theorems):
    """#print axioms for each theorem. Returns {thm: set(axioms)}; raises InfraError on bad axiom."""
    tmp = LEAN / "build_tmp"
    tmp.mkdir(exist_ok=True)
    f = tmp / ("Audit_%d.lean" % os.getpid())
    body = "".join("import %s\n" % m for m in modules)
    body += "".join("#print axioms %s\n" % t for t in theorems)
    f.write_text(body)
    try:
        p = subprocess.run(["lake", "env", "lean", str(f)], cwd=LEAN, capture_output=True, text=True, timeout=1800)
    finally:
        f.unlink(missing_ok=True)
    out = p.stdout + p.stderr
    res = {}
    for m in re.finditer(r"'([^']+)' depends on axioms: \[([^\]]*)\]", out, re.S):
        res[m.group(1)] = {a.strip() for a in m.group(2).replace("\n", " ").split(",") if a.strip()}
    for m in re.finditer(r"'([^']+)' does not depend on any axioms", out):
        res[m.group(1)] = set()
    missing = [t for t in theorems if t not in res]
    if missing:
        raise InfraError("audit could not find theorems %s\n%s" % (missing[:5], out[-2000:]))
    bad = {t: a - ALLOWED_AXIOMS for t, a in res.items() if a - ALLOWED_AXIOMS}
    if bad:
        raise InfraError("theorems depend on non-standard axioms: %s" % bad)
    return res


def grep_forbidden():
    hits = []
    files = list(LIB.rglob("*.lean")) + [LEAN / "Driver.lean"]
    for f in files:
        src = _strip_lean_comments(f.read_text())
        for m in FORBIDDEN.finditer(src):
            hits.append("%s: %s" % (f.relative_to(LEAN), m.group(0).strip()))
    return hits


class Driver:
    """Batch interface to the compiled Lean model driver."""

    def __init__(self):
        self.exe = LEAN / ".lake" / "build" / "bin" / "driver"

    def run(self, lines, timeout=3000):
        if not lines:
            return []
        data = "\n".join(lines) + "\n"
        p = subprocess.run([str(self.exe)], input=data, capture_output=True, text=True, timeout=timeout)
        if p.returncode != 0:
            raise InfraError("driver failed: rc=%s %s" % (p.returncode, p.stderr[-2000:]))
        out = p.stdout.split("\n")
        if out and out[-1] == "":
            out.pop()
        if len(out) != len(lines):
            raise InfraError("driver returned %d lines for %d inputs; stderr=%s" % (len(out), len(lines), p.stderr[-500:]))
        return out


# ---------- protocol encoding helpers -------------------------------------------------

def enc_str(s: str) -> str:
    return ",".join(str(ord(c)) for c in s) if s else "-"


def enc_nats(l) -> str:
    l = list(l)
    return ",".join(str(int(x)) for x in l) if l else "-"


def enc_nnl(ll) -> str:
    ll = list(ll)
    return ";".join(enc_nats(l) for l in ll) if ll else "~"


def dec_nats(s: str):
    return [] if s == "-" else [int(x) for x in s.split(",")]


def dec_str(s: str) -> str:
    return "".join(chr(x) for x in dec_nats(s))


def dec_nnl(s: str):
    return [] if s == "~" else [dec_nats(x) for x in s.split(";")]


def h(obj) -> str:
    return hashlib.sha256(json.dumps(obj, sort_keys=True, default=str).encode()).hexdigest()[:16]


# ---------- known findings ------------------------------------------------------------

def load_findings():
    p = VERIF / "known_findings.json"
    if not p.exists():
        return []
    return json.loads(p.read_text())["findings"]


# ---------- per-run context ------------------------------------------------------------

class Ctx:
    def __init__(self, prop: str, tier: str, seed: int):
        self.prop = prop
        self.tier = tier
        self.seed = seed
        self.rng = random.Random("%s-%d" % (prop, seed))
        self.t0 = time.time()
        self.proof_broken = []   # [{theorem, file, message}]
        self.corr_broken = []    # [{what, case}]
        self.spec_fail = []      # [{what, case, key}]
        self.contract_fail = []  # [{what, case}]
        self.notes = []
        self.theorems = []
        self.axioms = {}
        self.obligations = 0
        self.discharged = 0
        self.evals = 0
        self.distinct = set()
        self.samples = []
        self.dist = {}
        self.extra = {}
        self.assumptions = []
        self.partial = []
        self.contracts = {}
        self.rule = ""
        self.trusted = []
        self.driver = Driver()
        self.findings = [f for f in load_findings() if f["property"] == prop]
        self.known_hit = []
        self.escalated = False

    # -- bookkeeping ---------------------------------------------------------
    def quick(self):
        return self.tier == "quick" and not self.escalated

    def budget(self, quick, thorough):
        return quick if self.quick() else thorough

    def count(self, case_key, nontrivial=True, sample=None):
        self.evals += 1
        if nontrivial:
            self.distinct.add(case_key if isinstance(case_key, str) else h(case_key))
        if sample is not None and len(self.samples) < 6:
            self.samples.append(sample)

    def bump(self, key, n=1):
        self.dist[key] = self.dist.get(key, 0) + n

    def contract(self, name, ok, case=None):
        c = self.contracts.setdefault(name, {"checked": 0, "failed": 0})
        c["checked"] += 1
        if not ok:
            c["failed"] += 1
            if len(self.contract_fail) < 50:
                self.contract_fail.append({"what": name, "case": case})

    def corr_fail(self, what, case):
        if len(self.corr_broken) < 50:
            self.corr_broken.append({"what": what, "case": case})
        self.bump("corr_fail")

    def violation(self, what, case, key=None):
        """A concrete input on which the property's spec is false of the REAL code."""
        key = key or h(case)
        for f in self.findings:
            if f.get("kind") == "known" and f.get("key") == key:
                if key not in [k for k, _ in self.known_hit]:
                    self.known_hit.append((key, f.get("what", what)))
                return False
        if len(self.spec_fail) < 50:
            self.spec_fail.append({"what": what, "case": case, "key": key})
        return True

    # -- Lean side -------------------------------------------------------------
    def prove(self, targets, prop_files, extra_theorem_files=()):
        """Build the Lean targets and audit the property theorems."""
        hits = grep_forbidden()
        if hits:
            raise InfraError("forbidden tokens in Lean sources: %s" % hits[:10])
        ok, out = lake_build(list(targets) + ["driver"])
        thms = []
        for f in list(prop_files) + list(extra_theorem_files):
            thms += theorems_in(LIB / f)
        self.theorems = thms
        self.obligations = len(thms)
        if not ok:
            errs = parse_build_errors(out)
            if not errs:
                raise InfraError("lake build failed without a located error:\n" + out[-3000:])
            broken_files = set()
            for (file, line, msg) in errs:
                fp = LEAN / file
                name = theorem_at(fp, line) if fp.exists() else "?"
                self.proof_broken.append({"theorem": name, "file": file, "line": line, "message": msg[:400]})
                broken_files.add(file)
            # theorems in files that failed to build are not discharged
            bad = set()
            for f in list(prop_files) + list(extra_theorem_files):
                rel = "SqlfluffVerif/" + f
                if rel in broken_files:
                    bad.update(theorems_in(LIB / f))
            # a Props file importing a broken Gen file is not built either
            if any(file.startswith("SqlfluffVerif/Gen/") or file.startswith("SqlfluffVerif/Proofs/") or file.startswith("SqlfluffVerif/Model/") for file in broken_files):
                bad.update(thms)
            self.discharged = len(thms) - len(bad)
            # the driver may be stale/missing; make sure it exists
            if not self.driver.exe.exists():
                raise InfraError("driver not built:\n" + out[-3000:])
            return False
        mods = ["SqlfluffVerif." + f[:-5].replace("/", ".") for f in list(prop_files) + list(extra_theorem_files)]
        self.axioms = audit(mods, thms)
        self.discharged = len(thms)
        if self.tier == "thorough" and not self.escalated:
            # independent re-check of the compiled property modules (and everything they import) by leanchecker
            try:
                r = subprocess.run(["lake", "env", "leanchecker"] + mods, cwd=str(LEAN), capture_output=True, text=True, timeout=1800)
                self.extra["leanchecker"] = {"modules": mods, "exit": r.returncode}
                if r.returncode != 0:
                    self.proof_broken.append({"theorem": "(leanchecker)", "file": ",".join(mods), "line": 0, "message": (r.stdout + r.stderr)[-400:]})
                    return False
            except Exception as e:
                self.notes.append("leanchecker could not be run: %r" % (e,))
        return True

    # -- verdict -------------------------------------------------------------
    def broken(self):
        return bool(self.proof_broken or self.corr_broken or self.contract_fail)

    def finish(self, level="proof"):
        wall = time.time() - self.t0
        lines = []
        rc = 0
        for key, what in self.known_hit:
            lines.append("KNOWN-FINDING: property=%s %s" % (self.prop, what))
        REPLAYS.mkdir(exist_ok=True)
        nviol = 0
        if self.spec_fail:
            seen = set()
            for sf in self.spec_fail:
                if sf["key"] in seen:
                    continue
                seen.add(sf["key"])
                if len(seen) > 5:
                    break
                path = REPLAYS / ("%s-%s.json" % (self.prop, re.sub(r"[^A-Za-z0-9_.#-]+", "_", sf["key"])[-120:]))
                path.write_text(json.dumps({
                    "property": self.prop, "seed": self.seed, "tier": self.tier,
                    "what": sf["what"], "case": sf["case"], "key": sf["key"],
                    "replay_cmd": "./check %s --replay %s" % (self.prop, path),
                    "proof_broken": self.proof_broken[:5], "corr_broken": self.corr_broken[:5],
                }, indent=1, default=str))
                lines.append("VIOLATION property=%s replay=%s" % (self.prop, path))
                nviol += 1
            rc = 1
        elif self.broken():
            path = REPLAYS / ("%s-unproved-%s.json" % (self.prop, h([self.proof_broken, self.corr_broken, self.contract_fail])))
            path.write_text(json.dumps({
                "property": self.prop, "seed": self.seed, "tier": self.tier,
                "what": "a proof obligation, correspondence or contract no longer checks; no failing input was found on the real code",
                "proof_broken": self.proof_broken[:10], "corr_broken": self.corr_broken[:10],
                "contract_fail": self.contract_fail[:10],
            }, indent=1, default=str))
            lines.append("VIOLATION property=%s replay=%s no-failing-input-found" % (self.prop, path))
            nviol = 1
            rc = 1
        cov = {
            "obligations": max(self.obligations, 1),
            "discharged": self.discharged,
            "checker_cmd": "cd lean && lake build && lake env lean <audit: #print axioms for every theorem>",
            "trusted_base": sorted({a for s in self.axioms.values() for a in s}) + [
                "Lean 4.33.0 kernel", "harness/vlib/core.py (correspondence + audit driver)"] + self.trusted,
            "theorems": self.theorems,
            "evaluations": self.evals,
            "distinct_nontrivial": len(self.distinct),
            "rule": self.rule,
            "samples": self.samples or ["(no correspondence cases in this run)"],
            "distribution": self.dist,
            "contracts": self.contracts,
            "partial": self.partial,
            "proof_broken": self.proof_broken[:10],
            "corr_broken": len(self.corr_broken),
            "known_findings_hit": [w for _, w in self.known_hit],
            "escalated_search": self.escalated,
            "notes": self.notes,
        }
        cov.update(self.extra)
        ev = {
            "property_id": self.prop, "tier": self.tier, "seed": self.seed, "level": level,
            "coverage": cov, "assumptions": self.assumptions, "wall_s": round(wall, 2),
            "violations": nviol,
        }
        EVIDENCE.mkdir(exist_ok=True)
        (EVIDENCE / ("%s.json" % self.prop)).write_text(json.dumps(ev, indent=1, default=str))
        for l in lines:
            print(l)
        print("%s tier=%s seed=%d obligations=%d discharged=%d evaluations=%d distinct=%d corr_broken=%d contract_fail=%d spec_fail=%d wall=%.1fs -> exit %d" % (
            self.prop, self.tier, self.seed, self.obligations, self.discharged, self.evals, len(self.distinct),
            len(self.corr_broken), len(self.contract_fail), len(self.spec_fail), wall, rc))
        return rc
