"""One `fix` run with everything the fix-related properties (C04 C05 C12 C13 C14 C15 C17) need to observe."""
from __future__ import annotations

import hashlib
import json
import os

def _cap(policy):
    ext = {"extended_capitalisation_policy": policy}
    basic = {"capitalisation_policy": policy if policy in ("upper", "lower", "capitalise") else "consistent"}
    return {"rules": {"capitalisation.keywords": basic, "capitalisation.literals": basic, "capitalisation.identifiers": ext,
                      "capitalisation.functions": ext, "capitalisation.types": ext}}


# name -> (overrides, nested configs)
RULESETS = {
    "all": ({}, {}),
    "layout": ({"rules": "layout"}, {}),
    "capitalisation": ({"rules": "capitalisation"}, {}),
    "cap_upper": ({"rules": "capitalisation"}, _cap("upper")),
    "cap_lower": ({"rules": "capitalisation"}, _cap("lower")),
    "cap_pascal": ({"rules": "capitalisation"}, _cap("pascal")),
    "cap_snake": ({"rules": "capitalisation"}, _cap("snake")),
    "cap_camel": ({"rules": "capitalisation"}, _cap("camel")),
    "layout_alt": ({"rules": "layout", "max_line_length": 40},
                   {"indentation": {"indent_unit": "tab", "indented_joins": True},
                    "layout": {"type": {"comma": {"line_position": "leading"}, "binary_operator": {"line_position": "trailing"}}}}),
}


def lexclass(seg):
    if seg.is_type("whitespace"):
        return "w"
    if seg.is_type("newline"):
        return "n"
    if seg.is_type("comment"):
        return "c"
    return "o"


def toks_of(segs):
    return [(s.raw, lexclass(s), s.get_type()) for s in segs if not s.is_meta]


def make_config(dialect, ruleset, jctx=None, extra_cfg=None):
    from sqlfluff.core import FluffConfig
    over = {"dialect": dialect}
    o, c = RULESETS[ruleset]
    over.update(o)
    over.update(extra_cfg or {})
    configs = json.loads(json.dumps(c))
    if isinstance(jctx, (tuple, list)):       # (templater name, its config section)
        over["templater"] = jctx[0]
        configs.setdefault("templater", {})[jctx[0]] = dict(jctx[1])
    elif jctx is not None:
        over["templater"] = "jinja"
        configs.setdefault("templater", {})["jinja"] = {"context": jctx}
    return FluffConfig(configs=configs, overrides=over)


def fix_record(dialect, sql, ruleset, jctx=None, extra_cfg=None):
    """Returns a JSON-serialisable dict. Never raises: exceptions are recorded under 'raised'."""
    from sqlfluff.core import Linter, FluffConfig, Lexer
    rec = {"dialect": dialect, "ruleset": ruleset, "sql_sha": hashlib.sha256(sql.encode("utf-8", "replace")).hexdigest()[:16]}
    try:
        cfg = make_config(dialect, ruleset, jctx, extra_cfg)
        lnt = Linter(config=cfg)
        lexer = Lexer(config=cfg)
        lf = lnt.lint_string(sql, fix=True)
        rec["codes"] = sorted({v.rule_code() for v in lf.violations})
        rec["clean_input"] = not any(c in ("PRS", "LXR", "TMP") for c in rec["codes"])
        rec["internal_errors"] = [v.desc()[:160] for v in lf.violations if v.desc().startswith("Unexpected exception")]
        if lf.tree is None:
            rec["no_tree"] = True
            return rec
        fixed, changed = lf.fix_string()
        rec["changed"] = bool(changed)
        rec["fixed"] = fixed
        if jctx is None:
            orig_toks, _ = lexer.lex(lnt._normalise_newlines(sql))
            rec["orig_toks"] = toks_of(orig_toks)
            rec["tree_toks"] = toks_of(lf.tree.raw_segments)
            relex, lxerrs = lexer.lex(fixed)
            rec["relex_toks"] = toks_of(relex)
            rec["relex_errs"] = len(lxerrs)
        else:
            rec["templated"] = True
            rec["relex_errs"] = 0
            rec["src_tags"] = [rs.raw for rs in lf.templated_file.raw_sliced if rs.slice_type != "literal"]
        if changed:
            p2 = lnt.parse_string(fixed)
            rec["reparse_errs"] = sorted({v.rule_code() for v in p2.violations if v.rule_code() in ("PRS", "LXR", "TMP")})
            if jctx is not None:
                tf2 = p2.root_variant().templated_file if p2.root_variant() else None
                rec["fixed_tags"] = [rs.raw for rs in tf2.raw_sliced if rs.slice_type != "literal"] if tf2 else None
            lf2 = lnt.lint_string(fixed, fix=True)
            rec["second"] = lf2.fix_string()[0] if lf2.tree is not None else fixed
        else:
            rec["reparse_errs"] = []
            rec["second"] = fixed
            if jctx is not None:
                rec["fixed_tags"] = rec["src_tags"]
    except Exception as e:
        rec["raised"] = "%s: %s" % (type(e).__name__, str(e)[:200])
    finally:
        import sys
        if hasattr(sys, "tracebacklimit"):
            del sys.tracebacklimit
    return rec


def verdicts(rec):
    """Property verdicts computed in Python (used for the universe sweep and as the violation trigger;
    the Lean specs are evaluated on the same records by the checks)."""
    out = {}
    out["C04"] = "raised" not in rec
    out["C05"] = not rec.get("internal_errors")
    if "fixed" not in rec:
        return out
    if rec.get("templated"):
        import re
        norm = (lambda t: re.sub(r"\s+", "", t)) if rec["ruleset"] == "all" else (lambda t: t)
        out["C10"] = rec["fixed_tags"] is not None and [norm(t) for t in rec["src_tags"]] == [norm(t) for t in rec["fixed_tags"]]
        out["C13"] = (not rec["clean_input"]) or not rec["reparse_errs"]
    else:
        strip = lambda ts: [(r, c) for (r, c, _t) in ts]
        out["C12"] = strip(rec["tree_toks"]) == strip(rec["relex_toks"]) and "".join(r for r, _, _ in rec["tree_toks"]) == rec["fixed"]
        out["C13"] = (not rec["clean_input"]) or (not rec["reparse_errs"] and rec["relex_errs"] == 0)
        code = lambda ts: [r for (r, c, _t) in ts if c == "o"]
        comments = lambda ts: sorted(r for (r, c, _t) in ts if c == "c")
        out["C14"] = code(rec["orig_toks"]) == code(rec["relex_toks"]) and comments(rec["orig_toks"]) == comments(rec["relex_toks"])
        a, b = rec["orig_toks"], rec["relex_toks"]
        out["C15"] = len(a) == len(b) and all(x[1] == y[1] and (x[0] == y[0] or (x[1] == "o" and x[0].lower() == y[0].lower() and not x[0][:1] in "'\"`[")) for x, y in zip(a, b))
    out["C17"] = rec["second"] == rec["fixed"]
    return out


def _work(item):
    from vlib import corpus
    import logging
    logging.disable(logging.CRITICAL)
    kind, d, ident, ruleset = item
    try:
        name, sql, jctx = corpus.load(item)
    except Exception as e:
        return {"name": corpus.name_of(item), "ruleset": ruleset, "read_error": str(e)}
    rec = fix_record(d, sql, ruleset, jctx)
    v = verdicts(rec)
    return {"name": name, "dialect": d, "ruleset": ruleset, "sha": rec["sql_sha"], "verdicts": v,
            "raised": rec.get("raised"), "internal": rec.get("internal_errors"), "clean_input": rec.get("clean_input"), "changed": rec.get("changed")}


def sweep(out_path, procs=14, kinds=None):
    """Developer tool: the whole universe (or some kinds of it) on the current tree."""
    import multiprocessing
    from vlib import corpus
    jobs = [j for j in corpus.full_universe() if kinds is None or j[0] in kinds]
    with multiprocessing.get_context("fork").Pool(procs) as pool:
        res = list(pool.imap_unordered(_work, jobs, chunksize=8))
    res.sort(key=lambda r: (r["name"], r["ruleset"]))
    json.dump(res, open(out_path, "w"), indent=0)
    return res


if __name__ == "__main__":
    import sys
    sys.path.insert(0, os.path.dirname(os.path.dirname(os.path.abspath(__file__))))
    r = sweep(sys.argv[1], int(sys.argv[2]) if len(sys.argv) > 2 else 14, sys.argv[3].split(",") if len(sys.argv) > 3 else None)
    from collections import Counter
    c = Counter()
    for x in r:
        for k, ok in (x.get("verdicts") or {}).items():
            if not ok:
                c[(k, x["ruleset"])] += 1
    print(len(r), sorted(c.items()))
