"""FROZEN copy of the generators (as of the universe sweep). Known findings are keyed on the inputs these functions
produce for fixed seeds, so this file must not be edited; new generators go to gen.py."""
from __future__ import annotations

import os
from pathlib import Path

REPO = Path(os.environ.get("VERIF_REPO", "/repo"))
FIXTURES = REPO / "test" / "fixtures" / "dialects"

COLS = ["a", "b", "col_1", "Foo", "x"]
TABLES = ["t", "tbl", "my_table", "s.t2"]


def sql_expr(rng, depth=0):
    r = rng.random()
    if depth > 2 or r < 0.35:
        return rng.choice(COLS + ["1", "'s'", "NULL", "t.a"] + (["*"] if depth == 0 else []))
    if r < 0.55:
        op = rng.choice(["+", "-", "=", "<>", "!=", "||", " and ", " OR ", " AND "])
        if op.strip().isalpha():
            return "%s%s%s" % (sql_expr(rng, depth + 1), op, sql_expr(rng, depth + 1))
        return "%s%s%s%s%s" % (sql_expr(rng, depth + 1), rng.choice(["", " ", "  "]), op, rng.choice(["", " ", "  "]), sql_expr(rng, depth + 1))
    if r < 0.7:
        return "%s(%s%s)" % (rng.choice(["count", "SUM", "coalesce", "Max"]), rng.choice(["", " "]), sql_expr(rng, depth + 1))
    if r < 0.8:
        return "(%s)" % sql_expr(rng, depth + 1)
    if r < 0.86:
        return "CASE WHEN %s THEN %s ELSE %s END" % (sql_expr(rng, depth + 1), sql_expr(rng, depth + 1), sql_expr(rng, depth + 1))
    if r < 0.9:
        return rng.choice(["row_number() over (partition by a order by b)", "cast(a as int)", "a in (1, 2,3)", "a between 1 and 2",
                           "exists (select 1 from t)", "a is not null", "not a", "-a", "a::int", "(select max(b) from t)"])
    if depth == 0:
        return "%s %s %s" % (sql_expr(rng, depth + 1), rng.choice(["as", "AS", ""]), rng.choice(["c1", "alias_x"]))
    return rng.choice(COLS)


def ws(rng):
    return rng.choice([" ", " ", " ", "  ", "\n", "\n    ", "\t", " \n"])


def from_expr(rng, kw, depth=0):
    """A from-expression: tables, aliases, joins, bracketed join groups, sub-selects."""
    def table():
        r = rng.random()
        if r < 0.6 or depth > 1:
            return rng.choice(TABLES) + rng.choice(["", "", " t1", " AS t2"])
        if r < 0.8:
            return "(" + sql_select(rng, depth + 2) + ")" + rng.choice([" AS sq", " sq"])
        return "(" + from_expr(rng, kw, depth + 1) + ")"
    out = table()
    while rng.random() < 0.35:
        jt = rng.choice(["join", "inner join", "left join", "LEFT OUTER JOIN", "cross join", "full join"])
        out += ws(rng) + kw(jt) + " " + table()
        if "cross" not in jt.lower():
            out += " " + rng.choice([kw("on") + " a.x = b.x", kw("on") + " t1.a=t2.a and t1.b = 1", kw("using") + " (a)", kw("on") + " (a.x = b.x)"])
    if rng.random() < 0.1:
        out += ", " + table()
    return out


def sql_select(rng, depth=0):
    """A (mostly valid) SELECT statement with layout/capitalisation/aliasing violations."""
    kw = rng.choice([str.upper, str.lower, str.capitalize, str.upper])
    items = [sql_expr(rng) for _ in range(rng.randint(1, 4))]
    sep = rng.choice([",", ", ", " ,", ",\n    ", "\n    , "])
    out = kw("select") + rng.choice(["", "", " distinct", " ALL"]) + ws(rng) + sep.join(items)
    out += ws(rng) + kw("from") + ws(rng) + from_expr(rng, kw, depth)
    if rng.random() < 0.3 and depth < 1:
        out += ws(rng) + kw("join") + " (" + sql_select(rng, depth + 1) + ") " + rng.choice(["AS j", "j"]) + " " + kw("on") + " " + sql_expr(rng)
    if rng.random() < 0.5:
        out += ws(rng) + kw("where") + ws(rng) + sql_expr(rng)
    if rng.random() < 0.25:
        out += ws(rng) + kw("group by") + " " + rng.choice(COLS) + rng.choice(["", ", 2"])
    if rng.random() < 0.15:
        out += ws(rng) + kw("having") + " " + rng.choice(["count(*) > 1", "sum(a)>0"])
    if rng.random() < 0.25:
        out += ws(rng) + kw("order by") + " " + rng.choice(COLS) + rng.choice(["", " desc", " ASC"])
    if rng.random() < 0.15:
        out += ws(rng) + kw("limit") + " " + rng.choice(["1", "10 offset 5"])
    if rng.random() < 0.15 and depth < 1:
        out += ws(rng) + kw("union") + rng.choice(["", " all", " DISTINCT"]) + ws(rng) + sql_select(rng, depth + 1)
    return out


def sql_file(rng):
    r = rng.random()
    if r < 0.1:
        body = "WITH cte AS (%s)%s%s" % (sql_select(rng, 1), ws(rng), sql_select(rng))
    else:
        body = sql_select(rng)
    stmts = [body]
    while rng.random() < 0.25:
        stmts.append(sql_select(rng))
    txt = (";" + ws(rng)).join(stmts)
    if rng.random() < 0.3:
        txt += ";"
    if rng.random() < 0.3:
        txt = rng.choice(["-- leading comment\n", "/* block */ ", "\n\n"]) + txt
    if rng.random() < 0.2:
        txt += rng.choice(["  -- trailing", " /* c */"])
    txt += rng.choice(["\n", "\n", "", "\n\n\n", "  \n"])
    return txt


# ------------------------------------------------------------------------------------------
# Jinja templates

def jinja_template(rng, depth=0):
    """Returns (template_source, context). Grammar-directed; always renders (no undefined names
    unless `undefined_ok`)."""
    ctx = {"cols": ["a", "b"], "t": "tbl", "flag": True, "off": False, "n": 2, "name": "x"}
    parts = []

    def frag():
        return rng.choice([
            "a", "b  ", " ,c", "1+1", " x=1", "foo (1)", "\n", "  ", "a,b", "{{ name }}", "{{ t }}", "{{ n }}",
            "{{ cols | join(', ') }}", "{# comment #}", "'{{ name }}'", "{{ name }}_sfx",
        ])

    def block(d):
        r = rng.random()
        lt = rng.choice(["{%", "{%", "{%-"])
        rt = rng.choice(["%}", "%}", "-%}"])
        if d > 2 or r < 0.3:
            return "".join(frag() for _ in range(rng.randint(1, 3)))
        if r < 0.55:
            cond = rng.choice(["flag", "off", "n > 1", "not flag", "name == 'x'"])
            s = "%s if %s %s%s" % (lt, cond, rt, block(d + 1))
            if rng.random() < 0.3:
                s += "%s elif %s %s%s" % (lt, rng.choice(["off", "flag"]), rt, block(d + 1))
            if rng.random() < 0.6:
                s += "%s else %s%s" % (lt, rt, block(d + 1))
            return s + "%s endif %s" % (lt, rt)
        if r < 0.8:
            it = rng.choice(["cols", "[1, 2]", "[]", "range(n)", "['p', 'q', 'r']"])
            inner = rng.choice(["{{ c }}", "{{ c }}  ,", " {{ c }} ,\n", "x{{ loop.index }} ,"]) + (block(d + 1) if rng.random() < 0.3 else "")
            return "%s for c in %s %s%s%s endfor %s" % (lt, it, rt, inner, lt, rt)
        if r < 0.9:
            return "{%% set v%d = %s %%}" % (d, rng.choice(["1", "'s'", "cols[0]"])) + "{{ v%d }}" % d
        return "{% raw %}{{ not_a_tag }}{% endraw %}"

    kw = rng.choice([str.upper, str.lower])
    head = kw("select") + rng.choice([" ", "  ", "\n    "])
    body = "".join(block(depth) + rng.choice(["", " ", ", ", "\n"]) for _ in range(rng.randint(1, 3)))
    tail = rng.choice([" ", "\n"]) + kw("from") + rng.choice([" ", "  "]) + rng.choice(["{{ t }}", "tbl", "{{ t }}_x"])
    if rng.random() < 0.4:
        tail += rng.choice([" ", "\n"]) + kw("where") + " " + rng.choice(["{% if flag %}a=1{% else %}b = 2{% endif %}", "a  = 1", "{{ name }}>1"])
    return head + body + tail + rng.choice(["\n", "", "\n\n"]), ctx


def fixture_files(dialects=None):
    out = []
    for d in sorted(os.listdir(FIXTURES)):
        if dialects and d not in dialects:
            continue
        dd = FIXTURES / d
        if dd.is_dir():
            for f in sorted(dd.glob("*.sql")):
                out.append((d, f))
    return out


def mutate_sql(rng, sql):
    """Token-level mutation (whitespace-delimited approximation; exact token mutation lives in the checks)."""
    toks = sql.split(" ")
    if len(toks) < 2:
        return sql + rng.choice(["(", ")", "'", ";;", "\x00"])
    r = rng.random()
    i = rng.randrange(len(toks))
    if r < 0.2:
        del toks[i]
    elif r < 0.4:
        toks.insert(i, toks[i])
    elif r < 0.55:
        j = rng.randrange(len(toks)); toks[i], toks[j] = toks[j], toks[i]
    elif r < 0.7:
        toks.insert(i, rng.choice(["(", ")", "'", "\"", "/*", "--", ";", "\U0001F600", "\x0b", "[", "}}", "$$"]))
    elif r < 0.85:
        toks = toks[:i]
    else:
        toks[i] = toks[i][: max(0, len(toks[i]) // 2)]
    return " ".join(toks)


def jinja_block_template(rng):
    """Multi-line templates whose tags sit on their own lines with varied indentation (loops with
    several iterations, loop.last commas, if/else branches mid-expression)."""
    ctx = {"cols": ["x", "y", "z"], "t": "tbl", "flag": True, "off": False, "n": 2, "name": "x"}
    ind = lambda: rng.choice(["", "", "    ", "  ", "        "])
    lines = [rng.choice(["SELECT", "select"])]
    if rng.random() < 0.6:
        lines.append(ind() + "a" + rng.choice(["", ","]))
    it = rng.choice(["['x', 'y', 'z']", "cols", "['p', 'q']", "range(n)", "['only']"])
    style = rng.random()
    if style < 0.4:
        lines.append(ind() + "{%% for c in %s %%}" % it)
        lines.append(ind() + rng.choice([", {{ c }}", "{{ c }},", ",{{ c }}  AS c_{{ loop.index }}"]))
        lines.append(ind() + "{% endfor %}")
    elif style < 0.7:
        lines.append(ind() + "{%% for c in %s %%}" % it)
        lines.append(ind() + "{{ c }}{% if not loop.last %},{% endif %}")
        lines.append(ind() + "{% endfor %}")
    else:
        lines.append(ind() + rng.choice(["x + ", "b, ", ""]) + "{% if flag %}1{% else %}222{% endif %}" + rng.choice(["", " AS v", "  as v"]))
        if rng.random() < 0.5:
            lines.append(ind() + "{% if off %}")
            lines.append(ind() + ", extra_col")
            lines.append(ind() + "{% endif %}")
    lines.append(rng.choice(["FROM", "from"]) + rng.choice([" ", "  "]) + rng.choice(["tbl", "{{ t }}"]))
    if rng.random() < 0.4:
        lines.append(ind() + "{% if flag %}")
        lines.append(ind() + rng.choice(["WHERE a = 1", "where a=1", "WHERE  x > 2"]))
        lines.append(ind() + "{% endif %}")
    return "\n".join(lines) + rng.choice(["\n", "", "\n\n"]), ctx
