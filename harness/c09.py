"""C09 — python-format and placeholder templaters render faithfully.

Theorems: Props/C09.lean (placeholder rendering = substitution, for every source / context / match list; witness of
the dot-rewrite defect). Tie: the dot-notation rewrite model vs re.sub on strings over `{ } . : ! a 0 space`
(exhaustive small scope + random); placeholder correspondence is run by C07. End-to-end: the python templater's
output vs an independent evaluation with string.Formatter (dotted names looked up in the `sqlfluff` mapping).
Known finding: escaped braces before a dotted field are swallowed by the rewrite.
"""
import itertools
import json
import re
import string

from vlib.core import enc_str, dec_nats

PROP = "C09"
KEY_ESC = "callsite:PythonTemplater.render_func:dot-notation-regex-ignores-escaped-braces"
KEY_SPEC = "callsite:PythonTemplater.render_func:dot-notation-regex-spec-group-is-greedy"
RX = re.compile(r"{([^:}]*\.[^:}]*)(:\S*)?}")


def expected_format(src, ctx):
    """str.format semantics with dotted names looked up in ctx['sqlfluff'] (independent of the rewrite)."""
    out = []
    for lit, field, spec, conv in string.Formatter().parse(src):
        out.append(lit)
        if field is None:
            continue
        if field == "" or field.isdigit():
            raise IndexError("positional field")
        base = re.split(r"[\[]", field, 1)[0]
        if "." in base:
            val = ctx["sqlfluff"][field]
        else:
            val, _ = string.Formatter().get_field(field, (), ctx)
        if conv == "r":
            val = repr(val)
        elif conv == "s":
            val = str(val)
        elif conv == "a":
            val = ascii(val)
        out.append(format(val, spec or ""))
    return "".join(out)


def run(ctx, prove=True):
    from sqlfluff.core import FluffConfig
    from sqlfluff.core.templaters import PythonTemplater
    from sqlfluff.core.errors import SQLTemplaterError, SQLFluffSkipFile
    ctx.rule = ("dot rewrite: all strings over {'{','}','.',':','a',' '} up to a length bound + random longer over 8 symbols vs re.sub; python "
                "templater: generated format strings (plain fields, dotted names, specs, conversions, escaped braces) vs string.Formatter evaluation; "
                "non-trivial = contains a brace; distinct by source string")
    if prove:
        ctx.prove(["SqlfluffVerif.Props.C09"], ["Props/C09.lean"])
    ctx.partial += ["str.format itself is external; only the rewrite in front of it is modelled"]
    lines, meta = [], []
    alpha = ["{", "}", ".", ":", "a", " "]
    for n in range(0, ctx.budget(6, 8)):
        for t in itertools.product(alpha, repeat=n):
            s = "".join(t)
            lines.append("py.dotrewrite " + enc_str(s)); meta.append((s, RX.sub(r"{sqlfluff[\1]\2}", s)))
    rng = ctx.rng
    for _ in range(ctx.budget(1500, 40000)):
        s = "".join(rng.choice(["{", "}", ".", ":", "a", "0", " ", "!", "{a.b}", "{x}", "{{", "}}", ":>4", "\n"]) for _ in range(rng.randint(0, 12)))
        lines.append("py.dotrewrite " + enc_str(s)); meta.append((s, RX.sub(r"{sqlfluff[\1]\2}", s)))
    outs = ctx.driver.run(lines)
    for (s, real), out in zip(meta, outs):
        ctx.count(("rw", s), nontrivial="{" in s)
        if "".join(chr(x) for x in dec_nats(out)) != real:
            ctx.corr_fail("dot-notation re.sub", {"src": s, "real": real, "model": "".join(chr(x) for x in dec_nats(out))})
    ctx.bump("rewrite_cases", len(meta))
    # end to end
    # values chosen so that substituted text can repeat, overlap or extend the literals around it
    pctx = {"a": "col", "b": "c2", "t": "tbl", "n": 3, "f": 2.5, "p": "f(b)", "q": "a", "nl": "x\n", "aa": "aa", "e": "",
            "sqlfluff": {"s.b": "dotted", "x.y.z": "deep", "a.b": 7}}
    atoms = ["SELECT ", "{a}", "{b}", " FROM {t}", "{n:03d}", "{f:.1f}", "{a!r}", "{a:>8}", "{s.b}", "{x.y.z}", "{a.b:03d}", "{{", "}}", "{{x}}", " , ", "\n",
             "{{ {a} }}", "'{{}}'", "{t}_sfx", "{a!s:^7}", "(({p}))", "({p})", "{q}aa", "a{q}", "aa", "{aa}a", "{nl}\n", "\n\n", "))", "((", "{e}", "{e}{q}", "{p})", "a"]
    fixed = ["{{ x {s.b}", "{{{s.b}}}", "{{s.b}}", "{{ a.b }}", "x {s.b} {{ y }}", "{{}} {s.b}", "SELECT ((a + {p}))", "{q}aa", "SELECT * FROM {t}{nl}\n", "{aa}aa", "a{q}a"]
    # fixed corpus (a pure function of the index), so that clean-tree failures can be listed by input; a run visits a seed-chosen slice
    import random as _random
    N = 6000
    step = 1 if not ctx.quick() and ctx.tier != "quick" else max(1, N // ctx.budget(400, 1600))
    idxs = [i for i in range(N) if i % step == ctx.seed % step]
    def corpus_case(i):
        r = _random.Random("C09-py-%d" % i)
        return "".join(r.choice(atoms) for _ in range(r.randint(1, 6)))
    cases = fixed + [corpus_case(i) for i in idxs]
    for src in cases:
        try:
            want = expected_format(src, pctx)
            want_err = None
        except Exception as e:
            want, want_err = None, type(e).__name__
        cfg = FluffConfig(overrides={"dialect": "ansi", "templater": "python"}, configs={"templater": {"python": {"context": pctx}}})
        try:
            tf, _ = PythonTemplater().process(in_str=src, fname="x", config=cfg)
            got, got_err = tf.templated_str, None
        except SQLTemplaterError as e:
            got, got_err = None, "SQLTemplaterError"
        except SQLFluffSkipFile:
            # the templater declines to slice the file and it is skipped with a warning: nothing is rendered unfaithfully
            ctx.bump("python_skipfile"); continue
        except Exception as e:
            got, got_err = None, type(e).__name__
        ctx.count(("py", src), nontrivial="{" in src, sample={"src": src, "rendered": got} if len(ctx.samples) < 5 and "." in src else None)
        ctx.bump("python_e2e")
        case = {"src": src, "context": {k: str(v) for k, v in pctx.items()}, "rendered": got, "error": got_err, "expected": want, "expected_error": want_err}
        if want is not None and got != want:
            # escaped braces in front of a dotted field: the known defect of the rewrite
            esc = bool(re.search(r"(\{\{|\}\})", src)) and "." in src
            # a dotted field with a format spec directly followed by more non-blank text containing `}`: `(:\S*)?` swallows it
            greedy = bool(re.search(r"\{[^:}{]*\.[^:}{]*:[^}\s]*\}\S*\}", src))
            ctx.violation("python templater output differs from str.format with dotted names looked up in `sqlfluff` (or a valid format string does not render)",
                          case, key=KEY_ESC if esc else (KEY_SPEC if greedy else "input:py:" + src))


def search(ctx):
    saved = (list(ctx.proof_broken), list(ctx.corr_broken), list(ctx.contract_fail))
    run(ctx, prove=False)
    ctx.proof_broken, ctx.corr_broken, ctx.contract_fail = saved


def replay(ctx, path):
    case = json.load(open(path))["case"]
    print(json.dumps(case, indent=1)[:3000])
    return 0
