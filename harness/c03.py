"""C03 — parse trees are well-formed and indentation markers balance.

Theorems: Props/C03.lean (indent accounting of apply; bracket pair neutral; span-from-children).
Tie/spec: every real tree (fixtures, deterministic truncations/mutants, generated jinja templates) is serialised
and `TreeSpec.specC03` is evaluated in Lean: spans = (min,max) of children, children ordered, no node other than
file/unparsable begins/ends with whitespace/comment, running balance >= 0 and final balance = 0.
Known finding (attributed call site): `Sequence.match` returns through its partial-match branches with inserts
already flushed (no partner Dedent); a tree imbalance is attributed to it only if such a return with a non-zero
insert sum happened during that parse — any other imbalance is a new violation.
"""
import json

from vlib import gen
from vlib.core import enc_nats

PROP = "C03"
KEY_PARTIAL = "callsite:Sequence.match:partial-return-unbalanced-inserts"


def ser_pt(seg, out):
    pm = seg.pos_marker
    if seg.segments:
        kind = 1 if seg.is_type("file") else (2 if seg.is_type("unparsable") else 0)
        ind = 0
    elif seg.is_meta:
        kind, ind = 5, int(getattr(seg, "indent_val", 0))
    elif seg.is_code:
        kind, ind = 3, 0
    else:
        kind, ind = 4, 0
    out += [kind, pm.templated_slice.start, pm.templated_slice.stop, pm.source_slice.start, pm.source_slice.stop, ind, len(seg.segments)]
    for c in seg.segments:
        ser_pt(c, out)


def culprits(tree):
    """Innermost segments whose indent metas do not sum to zero although every child's do; named by the nearest
    non-bracket segment type."""
    out = []

    def bal(seg, named):
        if not seg.segments:
            return int(getattr(seg, "indent_val", 0)) if seg.is_meta else 0
        nm = named if seg.is_type("bracketed") else seg.get_type()
        kids = [bal(c, nm) for c in seg.segments]
        own = sum(k for c, k in zip(seg.segments, kids) if not c.segments)
        sub = [k for c, k in zip(seg.segments, kids) if c.segments]
        total = sum(kids)
        if total != 0 and all(k == 0 for k in sub):
            if nm not in out:
                out.append(nm)
        return total
    bal(tree, tree.get_type())
    return sorted(out)


def cases(ctx):
    rng = ctx.rng
    files = gen.fixture_files()
    # fixed universe: every k-th fixture (k by tier), plus deterministic truncations of a subset
    step = ctx.budget(15, 1)
    off = ctx.seed % step
    for i, (d, f) in enumerate(files):
        if i % step != off:
            continue
        txt = f.read_text(encoding="utf-8")
        yield d, f.name, txt, None
        if i % (step * 3) == off:
            words = txt.split(" ")
            for cut in (1, len(words) // 3, len(words) // 2):
                if 0 < cut < len(words):
                    yield d, "%s#trunc%d" % (f.name, cut), " ".join(words[:cut]), None
    for s in ["SELECT", "SELECT a", "WITH a AS (SELECT 1) SELECT", "SELECT a FROM", "SELECT (", "SELECT a FROM t WHERE", "", "\n", ";", "SELECT 1;;"]:
        yield "ansi", "literal", s, None
    for k in range(ctx.budget(25, 400)):
        tpl, jctx = gen.jinja_template(rng) if k % 2 else gen.jinja_block_template(rng)
        yield "ansi", "jinja", tpl, jctx
    for k in range(ctx.budget(120, 3000)):
        yield ["ansi", "postgres", "tsql", "bigquery", "snowflake", "mysql", "sqlite", "duckdb"][k % 8], "gen", gen.sql_file(rng), None


def run(ctx, prove=True):
    from sqlfluff.core import Linter, FluffConfig
    from sqlfluff.core.parser.grammar.sequence import Sequence
    from sqlfluff.core.parser.segments.base import UnparsableSegment
    ctx.rule = ("every k-th dialect fixture (k by tier, offset by seed), deterministic truncations, literal corner inputs, generated jinja "
                "templates and generated SQL; each real tree serialised and checked by Lean's specC03; non-trivial = tree with >= 1 indent marker "
                "and >= 10 nodes; distinct by (dialect, text)")
    # stage 2: the grammar itself. Regenerate the indent skeleton of every library entry of every dialect; Lean's kernel re-checks
    # that each row is neutral, the general theorem lifts that to every complete match. Entries that are not neutral must be listed.
    from translate import grammar_balance
    ginfo = grammar_balance.generate()
    ctx.extra["grammar_skeletons"] = {"dialects": len(ginfo["dialects"]), "entries": sum(v["entries"] for v in ginfo["dialects"].values()),
                                      "entries_with_metas": sum(v["with_metas"] for v in ginfo["dialects"].values()), "distinct_rows": ginfo["rows"],
                                      "fragments_inlined": ginfo["fragments"], "not_neutral": ginfo["findings"], "conditional_rules": ginfo["conds"]}
    for (d, entry) in ginfo["findings"]:
        new = ctx.violation("the grammar of %s.%s can leave the indentation markers unbalanced (static analysis of its Indent/Dedent/Conditional metas)" % (d, entry),
                            {"dialect": d, "grammar_entry": entry}, key="grammar-static:%s:%s" % (d, entry))
    if prove:
        ctx.prove(["SqlfluffVerif.Props.C03", "SqlfluffVerif.Props.C03b", "SqlfluffVerif.Gen.GrammarSkel"], ["Props/C03.lean", "Props/C03b.lean"], ["Gen/GrammarSkel.lean"])
    ctx.trusted += ["harness/translate/grammar_balance.py (translator: grammar objects -> indent skeletons; a grammar without metas is abstracted to `leaf`)"]
    ctx.partial += ["balance of what the grammars emit is checked on real trees (spec evaluation), not yet proved from the grammar definitions",
                    "partial-match returns of Sequence.match are a known finding (attributed by instrumentation)"]
    partial = {"n": 0}
    orig = Sequence.match

    def spy(self, segments, idx, parse_context):
        r = orig(self, segments, idx, parse_context)
        try:
            is_partial = (r.matched_class is UnparsableSegment and "Found nothing" in r.segment_kwargs.get("expected", "")) or (
                r.child_matches and r.child_matches[-1].matched_class is UnparsableSegment
                and " after " in r.child_matches[-1].segment_kwargs.get("expected", ""))
            if is_partial:
                def tot(m):
                    return sum(k.indent_val for _, k in m.insert_segments) + sum(tot(c) for c in m.child_matches)
                if tot(r) != 0:
                    partial["n"] += 1
        except Exception:
            pass
        return r
    Sequence.match = spy
    lines, meta = [], []
    try:
        linters = {}
        for (d, name, txt, jctx) in cases(ctx):
            key = (d, jctx is not None)
            if key not in linters:
                over = {"dialect": d}
                if jctx is not None:
                    over["templater"] = "jinja"
                linters[key] = Linter(config=FluffConfig(overrides=over, configs={"templater": {"jinja": {"context": jctx or {}}}}))
            partial["n"] = 0
            try:
                parsed = linters[key].parse_string(txt)
            except Exception:
                ctx.bump("parse_raised")
                continue
            finally:
                import sys
                if hasattr(sys, "tracebacklimit"):
                    del sys.tracebacklimit
            npartial = partial["n"]
            for vi, v in enumerate(parsed.parsed_variants):
                if v.tree is None:
                    continue
                flat = []
                ser_pt(v.tree, flat)
                lines.append("tree.spec " + ",".join(str(x) for x in flat))
                meta.append((d, name, txt, jctx, vi, npartial, len(flat) // 7, culprits(v.tree)))
    finally:
        Sequence.match = orig
    outs = ctx.driver.run(lines)
    for (d, name, txt, jctx, vi, npartial, nodes, culp), out in zip(meta, outs):
        ok_struct, ok_run, final = out.split(" ")
        final = int(final)
        has_ind = True
        ctx.count((d, txt, vi), nontrivial=nodes >= 10,
                  sample={"dialect": d, "file": name, "nodes": nodes, "final_balance": final} if len(ctx.samples) < 5 else None)
        ctx.bump("trees"); ctx.bump("with_partial_returns" if npartial else "complete")
        case = {"dialect": d, "file": name, "text": txt if len(txt) < 800 else txt[:800] + "...", "context": jctx, "variant": vi}
        if ok_struct != "1":
            ctx.violation("a node's span differs from its children's, children are out of order, or a node begins/ends with whitespace/comment", case)
        if ok_run != "1" or final != 0:
            what = "indentation markers do not balance (running balance negative: %s, final balance: %d)" % (ok_run != "1", final)
            if npartial > 0:
                ctx.violation(what, case, key=KEY_PARTIAL)
            elif culp:
                # a complete parse: the imbalance is written in the dialect's grammar; attribute it to the innermost
                # named segment(s) whose own metas do not balance
                for c in culp:
                    ctx.violation(what, dict(case, grammar_element=c), key="grammar:%s:%s:unbalanced-indent" % (d, c))
            else:
                ctx.violation(what, case)


def search(ctx):
    saved = (list(ctx.proof_broken), list(ctx.corr_broken), list(ctx.contract_fail))
    run(ctx, prove=False)
    ctx.proof_broken, ctx.corr_broken, ctx.contract_fail = saved


def replay(ctx, path):
    case = json.load(open(path))["case"]
    print(json.dumps(case, indent=1)[:2000])
    return 0
