"""C03 — parse trees are well-formed and indentation markers balance.

Theorems: Props/C03.lean (indent accounting of apply; bracket pair neutral; span-from-children).
Tie/spec: every real tree (fixtures, deterministic truncations/mutants, generated jinja templates) is serialised
and `TreeSpec.specC03` is evaluated in Lean: spans = (min,max) of children, children ordered, no node other than
file/unparsable begins/ends with whitespace/comment, running balance >= 0 and final balance = 0.
Known finding (attributed call site): `Sequence.match` returns through its partial-match branches with inserts
already flushed (no partner Dedent); a tree imbalance is attributed to it only if such a return with a non-zero
insert sum happened during that parse — any other imbalance is a new violation.
"""
import json

from vlib import gen
from vlib.core import enc_nats

PROP = "C03"
KEY_PARTIAL = "callsite:Sequence.match:partial-return-unbalanced-inserts"


def ser_pt(seg, out):
    pm = seg.pos_marker
    if seg.segments:
        kind = 1 if seg.is_type("file") else (2 if seg.is_type("unparsable") else 0)
        ind = 0
    elif seg.is_meta:
        kind, ind = 5, int(getattr(seg, "indent_val", 0))
    elif seg.is_code:
        kind, ind = 3, 0
    else:
        kind, ind = 4, 0
    out += [kind, pm.templated_slice.start, pm.templated_slice.stop, pm.source_slice.start, pm.source_slice.stop, ind, len(seg.segments)]
    for c in seg.segments:
        ser_pt(c, out)


def culprits(tree):
    """Innermost segments whose indent metas do not sum to zero although every child's do; named by the nearest
    non-bracket segment type."""
    out = []

    def bal(seg, named):
        if not seg.segments:
            return int(getattr(seg, "indent_val", 0)) if seg.is_meta else 0
        nm = named if seg.is_type("bracketed") else seg.get_type()
        kids = [bal(c, nm) for c in seg.segments]
        own = sum(k for c, k in zip(seg.segments, kids) if not c.segments)
        sub = [k for c, k in zip(seg.segments, kids) if c.segments]
        total = sum(kids)
        if total != 0 and all(k == 0 for k in sub):
            if nm not in out:
                out.append(nm)
        return total
    bal(tree, tree.get_type())
    return sorted(out)


def cases(ctx):
    rng = ctx.rng
    files = gen.fixture_files()
    # fixed universe: every k-th fixture (k by tier), plus deterministic truncations of a subset
    step = ctx.budget(15, 1)
    off = ctx.seed % step
    for i, (d, f) in enumerate(files):
        if i % step != off:
            continue
        txt = f.read_text(encoding="utf-8")
        yield d, f.name, txt, None
        if i % (step * 3) == off:
            words = txt.split(" ")
            for cut in (1, len(words) // 3, len(words) // 2):
                if 0 < cut < len(words):
                    yield d, "%s#trunc%d" % (f.name, cut), " ".join(words[:cut]), None
    for s in ["SELECT", "SELECT a", "WITH a AS (SELECT 1) SELECT", "SELECT a FROM", "SELECT (", "SELECT a FROM t WHERE", "", "\n", ";", "SELECT 1;;"]:
        yield "ansi", "literal", s, None
    for k in range(ctx.budget(25, 400)):
        tpl, jctx = gen.jinja_template(rng) if k % 2 else gen.jinja_block_template(rng)
        yield "ansi", "jinja", tpl, jctx
    for k in range(ctx.budget(120, 3000)):
        yield ["ansi", "postgres", "tsql", "bigquery", "snowflake", "mysql", "sqlite", "duckdb"][k % 8], "gen", gen.sql_file(rng), None


def run(ctx, prove=True):
    from sqlfluff.core import Linter, FluffConfig
    from sqlfluff.core.parser.grammar.sequence import Sequence
    from sqlfluff.core.parser.segments.base import UnparsableSegment
    ctx.rule = ("every k-th dialect fixture (k by tier, offset by seed), deterministic truncations, literal corner inputs, generated jinja "
                "templates and generated SQL; each real tree serialised and checked by Lean's specC03; non-trivial = tree with >= 1 indent marker "
                "and >= 10 nodes; distinct by (dialect, text)")
    # stage 2: the grammar itself. Regenerate the indent skeleton of every library entry of every dialect; Lean's kernel re-checks
    # that each row is neutral, the general theorem lifts that to every complete match. Entries that are not neutral must be listed.
    from translate import grammar_balance
    ginfo = grammar_balance.generate()
    ctx.extra["grammar_skeletons"] = {"dialects": len(ginfo["dialects"]), "entries": sum(v["entries"] for v in ginfo["dialects"].values()),
                                      "entries_with_metas": sum(v["with_metas"] for v in ginfo["dialects"].values()), "distinct_rows": ginfo["rows"],
                                      "fragments_inlined": ginfo["fragments"], "not_neutral": ginfo["findings"], "conditional_rules": ginfo["conds"]}
    for (d, entry) in ginfo["findings"]:
        new = ctx.violation("the grammar of %s.%s can leave the indentation markers unbalanced (static analysis of its Indent/Dedent/Conditional metas)" % (d, entry),
                            {"dialect": d, "grammar_entry": entry}, key="grammar-static:%s:%s" % (d, entry))
    if prove:
        ctx.prove(["SqlfluffVerif.Props.C03", "SqlfluffVerif.Props.C03b", "SqlfluffVerif.Gen.GrammarSkel"], ["Props/C03.lean", "Props/C03b.lean"], ["Gen/GrammarSkel.lean"])
    skeleton_semantics(ctx, ctx.budget(300, 6000))
    ctx.trusted += ["harness/translate/grammar_balance.py (translator: grammar objects -> indent skeletons; a grammar without metas is abstracted to `leaf`)"]
    ctx.partial += ["balance of what the grammars emit is checked on real trees (spec evaluation), not yet proved from the grammar definitions",
                    "partial-match returns of Sequence.match are a known finding (attributed by instrumentation)"]
    partial = {"n": 0}
    orig = Sequence.match

    def spy(self, segments, idx, parse_context):
        r = orig(self, segments, idx, parse_context)
        try:
            is_partial = (r.matched_class is UnparsableSegment and "Found nothing" in r.segment_kwargs.get("expected", "")) or (
                r.child_matches and r.child_matches[-1].matched_class is UnparsableSegment
                and " after " in r.child_matches[-1].segment_kwargs.get("expected", ""))
            if is_partial:
                def tot(m):
                    return sum(k.indent_val for _, k in m.insert_segments) + sum(tot(c) for c in m.child_matches)
                if tot(r) != 0:
                    partial["n"] += 1
        except Exception:
            pass
        return r
    Sequence.match = spy
    lines, meta = [], []
    try:
        linters = {}
        for (d, name, txt, jctx) in cases(ctx):
            key = (d, jctx is not None)
            if key not in linters:
                over = {"dialect": d}
                if jctx is not None:
                    over["templater"] = "jinja"
                linters[key] = Linter(config=FluffConfig(overrides=over, configs={"templater": {"jinja": {"context": jctx or {}}}}))
            partial["n"] = 0
            try:
                parsed = linters[key].parse_string(txt)
            except Exception:
                ctx.bump("parse_raised")
                continue
            finally:
                import sys
                if hasattr(sys, "tracebacklimit"):
                    del sys.tracebacklimit
            npartial = partial["n"]
            for vi, v in enumerate(parsed.parsed_variants):
                if v.tree is None:
                    continue
                flat = []
                ser_pt(v.tree, flat)
                lines.append("tree.spec " + ",".join(str(x) for x in flat))
                meta.append((d, name, txt, jctx, vi, npartial, len(flat) // 7, culprits(v.tree)))
    finally:
        Sequence.match = orig
    outs = ctx.driver.run(lines)
    for (d, name, txt, jctx, vi, npartial, nodes, culp), out in zip(meta, outs):
        ok_struct, ok_run, final = out.split(" ")
        final = int(final)
        has_ind = True
        ctx.count((d, txt, vi), nontrivial=nodes >= 10,
                  sample={"dialect": d, "file": name, "nodes": nodes, "final_balance": final} if len(ctx.samples) < 5 else None)
        ctx.bump("trees"); ctx.bump("with_partial_returns" if npartial else "complete")
        case = {"dialect": d, "file": name, "text": txt if len(txt) < 800 else txt[:800] + "...", "context": jctx, "variant": vi}
        if ok_struct != "1":
            ctx.violation("a node's span differs from its children's, children are out of order, or a node begins/ends with whitespace/comment", case)
        if ok_run != "1" or final != 0:
            what = "indentation markers do not balance (running balance negative: %s, final balance: %d)" % (ok_run != "1", final)
            if npartial > 0:
                ctx.violation(what, case, key=KEY_PARTIAL)
            elif culp:
                # a complete parse: the imbalance is written in the dialect's grammar; attribute it to the innermost
                # named segment(s) whose own metas do not balance
                for c in culp:
                    ctx.violation(what, dict(case, grammar_element=c), key="grammar:%s:%s:unbalanced-indent" % (d, c))
            else:
                ctx.violation(what, case)



# ---------------------------------------------------------------------------------------------
# stage 2 tie: the skeleton semantics the translator and the theorem assume vs what the parser engine does

def skeleton_semantics(ctx, n):
    """Random small grammars built from the real grammar classes (Sequence, Bracketed, OneOf, AnyNumberOf, Delimited, optional
    elements, Indent/Dedent/Conditional) together with a sentence they match; the real engine matches the sentence and the
    inserts of the match result are summed under two configurations. The translator's skeleton of the same grammar object is
    evaluated (a) along the derivation the sentence was built from and (b) by Lean's `vecs`: the real balance must equal the
    derivation's vector under the configuration, that vector must be in Lean's set, and Lean's set must equal the translator's."""
    from sqlfluff.core import FluffConfig, Lexer
    from sqlfluff.core.parser import Sequence, Bracketed, OneOf, AnyNumberOf, Delimited, Ref, StringParser, KeywordSegment, Indent, Dedent
    from sqlfluff.core.parser.grammar.conditional import Conditional
    from sqlfluff.core.parser.context import ParseContext
    from translate import grammar_balance as gb
    rng = ctx.rng
    lines, meta = [], []
    counter = [0]

    def kw():
        counter[0] += 1
        w = "K%d" % counter[0]
        return StringParser(w, KeywordSegment), [w], ("leaf",), {}

    COND = {1: dict(indented_joins=True), 2: dict(indented_joins=False), 3: dict(indented_then=True)}

    def build(depth):
        """-> (grammar, sentence tokens, skeleton, derivation vector {cond: sum})"""
        r = rng.random()
        if depth > 2 or r < 0.25:
            return kw()
        if r < 0.6 or r >= 0.95:
            els, toks, sk, vec = [], [], [], {}
            for _ in range(rng.randint(1, 4)):
                q = rng.random()
                if q < 0.3:
                    v = rng.choice([1, -1]); c = rng.choice([0, 0, 1, 2, 3])
                    els.append((Indent if v > 0 else Dedent) if c == 0 else Conditional(Indent if v > 0 else Dedent, **COND[c]))
                    sk.append(("meta", v, c)); vec[c] = vec.get(c, 0) + v
                else:
                    g, t, k, w = build(depth + 1)
                    els.append(g); toks += t; sk.append(k)
                    for c, x in w.items():
                        vec[c] = vec.get(c, 0) + x
            if not toks:
                g, t, k, w = kw(); els.append(g); toks += t; sk.append(k)
            if r >= 0.95 or rng.random() < 0.35:
                # Bracketed: every meta below the bracket (there are no classed segments in these grammars) is dropped by the engine
                from translate.grammar_balance import strip_metas
                return Bracketed(*els), ["("] + toks + [")"], ("seq", [strip_metas(k) for k in sk]), {}
            return Sequence(*els), toks, ("seq", sk), vec
        if r < 0.75:
            alts = [build(depth + 1) for _ in range(rng.randint(2, 3))]
            i = rng.randrange(len(alts))
            return OneOf(*[a[0] for a in alts]), alts[i][1], ("alt", [a[2] for a in alts]), alts[i][3]
        if r < 0.85:
            g, t, k, w = build(depth + 1)
            present = rng.random() < 0.5
            return Sequence(g, optional=True), (t if present else []), ("opt", ("seq", [k])), (w if present else {})
        # repetition of a neutral element, delimited
        g, t, k, w = kw()
        reps = rng.randint(1, 3)
        toks = []
        for i in range(reps):
            toks += t + ([","] if i < reps - 1 else [])
        from sqlfluff.core.parser import SymbolSegment
        return Delimited(g, delimiter=StringParser(",", SymbolSegment)), toks, ("rep", [k, ("leaf",)]), {}

    def enc(k):
        t = k[0]
        if t == "meta":
            return [0, 1 if k[1] > 0 else 0, k[2]]
        if t == "leaf":
            return [1]
        if t == "ref":
            return [2]
        if t == "opt":
            return [3] + enc(k[1])
        code = {"seq": 4, "alt": 5, "rep": 6}[t]
        out = [code, len(k[1])]
        for e in k[1]:
            out += enc(e)
        return out

    def total(m):
        s_ = sum(int(cls.indent_val) for (_i, cls) in m.insert_segments)
        return s_ + sum(total(c) for c in m.child_matches)

    cfgs = [dict(indented_joins=True, indented_then=False), dict(indented_joins=False, indented_then=True)]
    enabled = [lambda c: c in (0, 1), lambda c: c in (0, 2, 3)]
    for _ in range(n):
        counter[0] = 0
        g, toks, sk, vec = build(0)
        if not toks or len(toks) > 40:
            continue
        # what the translator makes of the same grammar object
        conds = {}
        entries, cmap, _notes = None, None, None
        try:
            tsk = translate_one(g)
        except Exception as e:
            ctx.corr_fail("translator raised on a synthetic grammar", {"grammar": repr(g)[:300], "error": repr(e)[:200]}); continue
        text = " ".join(toks)
        reals = []
        for ci, over in enumerate(cfgs):
            cfg = FluffConfig(overrides={"dialect": "ansi"}, configs={"indentation": over})
            segs, _ = Lexer(config=cfg).lex(text)
            segs = [s_ for s_ in segs if not s_.is_meta]
            pc = ParseContext.from_config(cfg)
            try:
                m = g.match(segs, 0, pc)
            except Exception as e:
                reals.append(("raised", repr(e)[:80])); continue
            code_end = max((i + 1 for i, s_ in enumerate(segs) if s_.is_code), default=0)
            reals.append(("ok", total(m), m.matched_slice.stop >= code_end))
        case = {"grammar": repr(g)[:400], "sentence": text, "skeleton": repr(sk)[:400], "derivation_vector": vec}
        ctx.count(("skel", repr(sk), text), nontrivial=len(toks) > 2)
        ctx.bump("skeleton_cases")
        if tsk != norm_sk(sk):
            ctx.corr_fail("translator skeleton differs from the generator's for the same grammar object", dict(case, translated=repr(tsk)[:400]))
            continue
        for ci, r in enumerate(reals):
            if r[0] != "ok" or not r[2]:
                ctx.bump("skeleton_engine_no_full_match"); continue
            want = sum(x for c, x in vec.items() if enabled[ci](c))
            if r[1] != want:
                ctx.corr_fail("engine inserts differ from the skeleton derivation", dict(case, config=cfgs[ci], engine_balance=r[1], derivation_balance=want))
        b = gb.balances(tsk)
        pyset = "none" if b is None else ";".join(sorted((",".join("%d:%d" % (c, v) for c, v in sorted(w)) or "0") for w in b))
        lines.append("skel.vecs " + ",".join(str(x) for x in enc(tsk)))
        meta.append((case, pyset, ",".join("%d:%d" % (c, v) for c, v in sorted(vec.items()) if v) or "0"))
    outs = ctx.driver.run(lines) if lines else []
    for (case, pyset, dv), out in zip(meta, outs):
        lean = out.strip()
        lset = lean if lean == "none" else ";".join(sorted(lean.split(";")))
        if lset != pyset:
            ctx.corr_fail("Lean vecs differs from the translator's analysis", dict(case, lean=lean, translator=pyset))
        elif lean != "none" and dv not in lean.split(";"):
            ctx.corr_fail("the derivation's vector is not in the computed set", dict(case, lean=lean, derivation=dv))


def norm_sk(k):
    t = k[0]
    if t == "opt":
        return ("opt", norm_sk(k[1]))
    if t in ("seq", "alt", "rep"):
        return (t, [norm_sk(e) for e in k[1]])
    return tuple(k)


def translate_one(g):
    """The translator's conversion applied to one grammar object (same code path as for dialect entries)."""
    from translate import grammar_balance as gb
    return norm_sk(gb.convert_object(g))


def search(ctx):
    saved = (list(ctx.proof_broken), list(ctx.corr_broken), list(ctx.contract_fail))
    run(ctx, prove=False)
    ctx.proof_broken, ctx.corr_broken, ctx.contract_fail = saved


def replay(ctx, path):
    case = json.load(open(path))["case"]
    print(json.dumps(case, indent=1)[:2000])
    return 0
