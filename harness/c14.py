"""C14 — layout fixes change only whitespace.

Theorems: Props/C14.lean. Tie: the Lean spec (`edit.spec`, Model/Edits.lean) is evaluated on the real token lists of a
real `fix` run (original tokens / fixed tree tokens / re-lexed fixed text) over the fixed universe of vlib/corpus.py
(dialect fixtures, one seeded mutant of each, generated SQL) x rule sets; the Python verdict is compared with Lean's.
Clean-tree failures are genuine defects listed in known_findings.json by input.
"""
import json

from vlib import fixchecks

PROP = "C14"
RULESETS = "layout layout_alt".split()
KINDS = "fixture mutant gen cmt edge".split()
WHAT = "fixing with layout rules changed the code tokens or the comments"


def run(ctx, prove=True):
    ctx.rule = ("one fix run per (input, rule set) of the fixed universe (fixtures, seeded mutants, generated SQL; rule sets %s); "
                "quick = seed-chosen slice, thorough = all; non-trivial = fix changed the file; distinct by (input, rule set)" % ", ".join(RULESETS))
    from translate import layout_edits
    linfo = layout_edits.generate()
    ctx.extra["layout_constructors"] = linfo
    if prove:
        ctx.prove(["SqlfluffVerif.Props.C14", "SqlfluffVerif.Gen.LayoutEdits"], ["Props/C14.lean"], ["Gen/LayoutEdits.lean"])
    ctx.trusted += ["harness/translate/layout_edits.py (AST scan of rules/layout and utils/reflow: constructor and .edit call sites)"]
    ctx.partial += ["the rules' edits are not modelled one by one: the theorem composes edits that satisfy the per-edit condition, the end-to-end spec is evaluated on real runs"]
    fixchecks.run_universe(ctx, PROP, RULESETS, ctx.budget(300, 10 ** 9), WHAT, KINDS, focus=("cmt",))


def search(ctx):
    saved = (list(ctx.proof_broken), list(ctx.corr_broken), list(ctx.contract_fail))
    run(ctx, prove=False)
    ctx.proof_broken, ctx.corr_broken, ctx.contract_fail = saved


def replay(ctx, path):
    case = json.load(open(path))["case"]
    print(json.dumps(case, indent=1)[:3000])
    return 0
