"""C27 — configuration precedence and isolation.

Theorems: Props/C27.lean (later layer wins per setting; inheritance; inline wins and frames the rest).
Tie: Model/Config.lean vs nested_combine on generated nested dicts (including section/value clashes);
end-to-end precedence: generated hierarchies (defaults, home, appdir, cwd, nested dirs, ini and toml in one
directory, extra config, overrides, inline directives) against the value predicted by the precedence order;
histories: several files linted in one run, each file's effective configuration compared with the configuration
computed for that file alone (a leak between files shows up as a difference).
"""
import json
import os
import shutil
import tempfile

from vlib.core import enc_nats, enc_nnl, dec_nats

PROP = "C27"


def rand_dict(rng, depth=0, shape=None):
    """keys mostly keep one kind (section or value) across layers via `shape`, with a few deliberate clashes"""
    d = {}
    shape = shape if shape is not None else {}
    for k in rng.sample(["a", "b", "c"], rng.randint(1, 3)):
        kind = shape.setdefault((depth, k), depth < 2 and rng.random() < 0.45)
        if rng.random() < 0.07:
            kind = not kind and depth < 2
        if kind:
            d[k] = rand_dict(rng, depth + 1, shape)
        else:
            d[k] = rng.randint(1, 9)
    return d


def flatten(d, pre=()):
    out = []
    for k, v in d.items():
        if isinstance(v, dict):
            out += flatten(v, pre + (k,))
        else:
            out.append((pre + (k,), v))
    return out


def combine_corr(ctx):
    from sqlfluff.core.helpers.dict import nested_combine
    rng = ctx.rng
    kid = {"a": 1, "b": 2, "c": 3}
    lines, meta = [], []
    for _ in range(ctx.budget(1500, 30000)):
        shape = {}
        layers = [rand_dict(rng, 0, shape) for _ in range(rng.randint(2, 4))]
        try:
            real = sorted(flatten(nested_combine(*layers)))
        except ValueError:
            real = "err"
        ents, sizes = [], []
        for l in layers:
            f = flatten(l)
            sizes.append(len(f))
            ents += [[v] + [kid[x] for x in p] for (p, v) in f]
        lines.append("cfg.combine %s %s" % (enc_nats(sizes), enc_nnl(ents)))
        meta.append((layers, real))
        ctx.count(("combine", json.dumps(layers)), nontrivial=len(layers) > 2)
        ctx.bump("combine_" + ("err" if real == "err" else "ok"))
    outs = ctx.driver.run(lines)
    inv = {v: k for k, v in kid.items()}
    for (layers, real), out in zip(meta, outs):
        if out == "err":
            model = "err"
        else:
            t = out.split(" ")
            model = sorted((tuple(inv[x] for x in dec_nats(e)[1:]), dec_nats(e)[0]) for e in ([] if t[1] == "~" else t[1].split(";")))
        if model != real:
            ctx.corr_fail("nested_combine", {"layers": layers, "real": real, "model": model})


KEYS = {
    "mll": (("core", "max_line_length"), "[sqlfluff]", "max_line_length"),
    "tab": (("indentation", "tab_space_size"), "[sqlfluff:indentation]", "tab_space_size"),
    "lt05": (("rules", "layout.long_lines", "ignore_comment_lines"), "[sqlfluff:rules:layout.long_lines]", "ignore_comment_lines"),
}
DEFAULTS = {"mll": 80, "tab": 4, "lt05": False}


def write_ini(path, settings):
    secs = {}
    for k, v in settings.items():
        _, sec, name = KEYS[k]
        secs.setdefault(sec, []).append("%s = %s" % (name, v))
    body = ""
    for sec in ["[sqlfluff]"] + sorted(s for s in secs if s != "[sqlfluff]"):
        if sec in secs or sec == "[sqlfluff]":
            body += sec + "\n" + "\n".join(secs.get(sec, [])) + "\n"
    open(path, "w").write(body)


def write_toml(path, settings):
    secs = {}
    for k, v in settings.items():
        p, _, name = KEYS[k]
        tsec = "tool.sqlfluff." + ".".join(('"%s"' % x if "." in x else x) for x in p[:-1])
        secs.setdefault(tsec, []).append("%s = %s" % (name, str(v).lower() if isinstance(v, bool) else v))
    open(path, "w").write("".join("[%s]\n%s\n" % (s, "\n".join(v)) for s, v in secs.items()))


def val_for(key, src):
    # distinct value per (key, source)
    if key == "lt05":
        return src % 2 == 1
    return 100 + src if key == "mll" else 2 + src


def precedence_cases(ctx):
    rng = ctx.rng
    sources = ["home", "cwd", "sub_ini", "sub_toml", "extra", "override", "inline"]
    for _ in range(ctx.budget(60, 1200)):
        setting = {}
        for i, s in enumerate(sources, start=1):
            ks = [k for k in KEYS if rng.random() < 0.4]
            if s == "override":
                ks = [k for k in ks if k == "mll"]       # overrides only reach the core section
            if s == "inline" and "lt05" in ks and rng.random() < 0.5:
                ks.remove("lt05")
            setting[s] = {k: val_for(k, i) for k in ks}
        yield setting


def run_precedence(ctx):
    from sqlfluff.core import FluffConfig, Linter
    order = ["home", "cwd", "sub_ini", "sub_toml", "extra", "override", "inline"]
    cwd0 = os.getcwd()
    home0 = os.environ.get("HOME")
    xdg0 = os.environ.get("XDG_CONFIG_HOME")
    for setting in precedence_cases(ctx):
        base = tempfile.mkdtemp(prefix="verif_c27_")
        try:
            home = os.path.join(base, "home"); proj = os.path.join(home, "work", "proj"); sub = os.path.join(proj, "sub")
            os.makedirs(sub)
            os.environ["HOME"] = home
            os.environ.pop("XDG_CONFIG_HOME", None)
            if setting["home"]:
                write_ini(os.path.join(home, ".sqlfluff"), setting["home"])
            write_ini(os.path.join(proj, ".sqlfluff"), setting["cwd"])
            if setting["sub_ini"]:
                write_ini(os.path.join(sub, ".sqlfluff"), setting["sub_ini"])
            if setting["sub_toml"]:
                write_toml(os.path.join(sub, "pyproject.toml"), setting["sub_toml"])
            extra = None
            if setting["extra"]:
                extra = os.path.join(base, "extra.cfg"); write_ini(extra, setting["extra"])
            inline = "".join("-- sqlfluff:%s:%s\n" % (":".join(KEYS[k][0][1:] if KEYS[k][0][0] == "core" else KEYS[k][0]), v) for k, v in setting["inline"].items())
            f = os.path.join(sub, "q.sql"); open(f, "w").write(inline + "SELECT 1\n")
            os.chdir(proj)
            over = {"dialect": "ansi"}
            if "mll" in setting["override"]:
                over["max_line_length"] = setting["override"]["mll"]
            root = FluffConfig.from_root(extra_config_path=extra, overrides=over)
            _, fcfg, _ = Linter(config=root).load_raw_file_and_config(f, root)
            got = {"mll": fcfg.get("max_line_length"), "tab": fcfg.get("tab_space_size", section="indentation"),
                   "lt05": fcfg.get("ignore_comment_lines", section=["rules", "layout.long_lines"])}
            exp = dict(DEFAULTS)
            for s in order:
                exp.update(setting[s])
            case = {"sources": {k: v for k, v in setting.items() if v}}
            ctx.count(("prec", json.dumps(case, sort_keys=True)), nontrivial=sum(1 for v in setting.values() if v) >= 3,
                      sample={"sources": case["sources"], "effective": got} if len(ctx.samples) < 4 and len(case["sources"]) >= 3 else None)
            ctx.bump("precedence")
            for k in KEYS:
                if got[k] != exp[k]:
                    winner = [s for s in order if k in setting[s]]
                    ctx.violation("a setting does not take its value from the highest-precedence source that sets it",
                                  {"sources": case["sources"], "key": k, "got": got[k], "expected": exp[k], "expected_from": winner[-1] if winner else "defaults"})
        except Exception as e:
            ctx.bump("precedence_failed:" + type(e).__name__)
        finally:
            os.chdir(cwd0)
            if home0 is not None:
                os.environ["HOME"] = home0
            if xdg0 is not None:
                os.environ["XDG_CONFIG_HOME"] = xdg0
            shutil.rmtree(base, ignore_errors=True)


def run_histories(ctx):
    """Several files in one run: the configuration each file is linted with must equal the one computed for it alone."""
    from sqlfluff.core import FluffConfig, Linter
    rng = ctx.rng
    cwd0 = os.getcwd()
    for _ in range(ctx.budget(12, 200)):
        base = tempfile.mkdtemp(prefix="verif_c27h_")
        try:
            proj = os.path.join(base, "proj"); os.makedirs(os.path.join(proj, "sub")); os.makedirs(os.path.join(proj, "other"))
            write_ini(os.path.join(proj, ".sqlfluff"), {"mll": 60})
            if rng.random() < 0.7:
                write_ini(os.path.join(proj, "sub", ".sqlfluff"), {"mll": 120, "tab": 2})
            files = []
            for name in ["a.sql", "b.sql", "sub/c.sql", "other/d.sql", "sub/e.sql"]:
                inl = ""
                r = rng.random()
                if r < 0.3:
                    inl = "-- sqlfluff:max_line_length:%d\n" % rng.choice([30, 45])
                elif r < 0.45:
                    inl = "-- sqlfluff:indentation:tab_space_size:8\n"
                elif r < 0.55:
                    inl = "-- sqlfluff:rules:LT05\n"
                open(os.path.join(proj, name), "w").write(inl + "SELECT 1\n")
                files.append(name)
            rng.shuffle(files)
            os.chdir(proj)
            over = {"dialect": "ansi"} if rng.random() < 0.8 else {"dialect": "ansi", "max_line_length": 99}
            seen = {}
            orig = Linter.lint_rendered

            def spy(rendered, rule_pack, fix=False, formatter=None):
                seen[os.path.normpath(rendered.fname)] = (rendered.config.get("max_line_length"), rendered.config.get("tab_space_size", section="indentation"),
                                                            tuple(rendered.config.get("rule_allowlist") or ()))
                return orig(rendered, rule_pack, fix, formatter)
            Linter.lint_rendered = staticmethod(spy) if isinstance(Linter.__dict__["lint_rendered"], staticmethod) else classmethod(lambda cls, *a, **k: spy(*a, **k))
            try:
                Linter(config=FluffConfig.from_root(overrides=dict(over))).lint_paths(tuple(files))
            finally:
                Linter.lint_rendered = orig if not isinstance(Linter.__dict__["lint_rendered"], (staticmethod, classmethod)) else Linter.__dict__["lint_rendered"]
                setattr(Linter, "lint_rendered", orig)
            for name in files:
                root = FluffConfig.from_root(overrides=dict(over))
                _, fcfg, _ = Linter(config=root).load_raw_file_and_config(name, root)
                alone = (fcfg.get("max_line_length"), fcfg.get("tab_space_size", section="indentation"), tuple(fcfg.get("rule_allowlist") or ()))
                ctx.count(("hist", base, name), nontrivial=True)
                ctx.bump("history_files")
                got = seen.get(os.path.normpath(name))
                if got is None:
                    ctx.bump("history_file_not_seen"); continue
                if got != alone:
                    ctx.violation("a file's configuration in a multi-file run differs from its configuration alone (settings leaked between files)",
                                  {"order": files, "file": name, "in_run": got, "alone": alone, "overrides": over,
                                   "contents": {n: open(os.path.join(proj, n)).read() for n in files}})
        except Exception as e:
            ctx.bump("history_failed:" + type(e).__name__)
        finally:
            os.chdir(cwd0)
            shutil.rmtree(base, ignore_errors=True)


def run(ctx, prove=True):
    ctx.rule = ("nested_combine on random nested dicts (2-4 layers, depth<=3, incl. section/value clashes); generated hierarchies with 7 sources each "
                "setting a random subset of 3 keys (core, nested section, rule section; ini + toml); histories of 5 files with inline directives in "
                "shuffled order; non-trivial = >=3 sources set something; distinct by configuration")
    if prove:
        ctx.prove(["SqlfluffVerif.Props.C27"], ["Props/C27.lean"])
    ctx.assumptions += ["configurations are compared through their flattened path view; empty sections are not generated",
                        "HOME is redirected to a scratch directory to exercise user-level configuration"]
    combine_corr(ctx)
    run_precedence(ctx)
    run_histories(ctx)


def search(ctx):
    saved = (list(ctx.proof_broken), list(ctx.corr_broken), list(ctx.contract_fail))
    run(ctx, prove=False)
    ctx.proof_broken, ctx.corr_broken, ctx.contract_fail = saved


def replay(ctx, path):
    case = json.load(open(path))["case"]
    print(json.dumps(case, indent=1))
    return 0
