"""C22 — exit codes reflect only unsuppressed failures.

Theorems: Props/C22.lean. Tie: Model/Exit.lean evaluated on the attribute vectors of the real violations and
compared with the real exit codes of `lint`/`fix` (path and stdin); the property statement is checked directly.
"""
import json
import os
import tempfile
import shutil

from vlib import cli_e2e
from vlib.core import enc_nnl, dec_nats

PROP = "C22"
KEY_WARN = "callsite:LintedDir.discard_fixes_for_lint_errors:counts-warning-records-as-unfixable"


def unsup(v):
    return not (v[1] or v[2] or v[3])


def expected(case, vs):
    lint = 1 if any(unsup(v) for v in vs) else 0
    blocked = (not case["fix_even"]) and any(v[0] in (0, 1) for v in vs)
    fix = 1 if (any(v[0] == 3 and unsup(v) and (not v[4] or blocked) for v in vs)
                or ((not case["fix_even"]) and any(v[0] in (0, 1) and unsup(v) for v in vs))) else 0
    return lint, fix


def usage_errors(ctx):
    from click.testing import CliRunner
    from sqlfluff.cli.commands import lint, fix
    d = tempfile.mkdtemp(prefix="verif_c22_")
    try:
        p = os.path.join(d, "a.sql"); open(p, "w").write("SELECT 1\n")
        r = CliRunner()
        cases = [(lint, [p, "--dialect", "no_such_dialect"]), (lint, [os.path.join(d, "missing.sql"), "--dialect", "ansi"]),
                 (lint, [p, "--dialect", "ansi", "--no-such-option"]), (fix, [p, "--dialect", "no_such_dialect"]),
                 (lint, [p])]  # no dialect configured at all
        for cmd, args in cases:
            res = r.invoke(cmd, args + (["--ignore-local-config"] if "--no-such-option" not in args else []))
            ctx.count(("usage", cmd.name, tuple(a.replace(d, "") for a in args)), nontrivial=True)
            if res.exit_code != 2:
                ctx.violation("usage/configuration error did not exit 2", {"command": cmd.name, "args": [a.replace(d, "<tmp>") for a in args], "exit": res.exit_code})
    finally:
        shutil.rmtree(d, ignore_errors=True)


def run(ctx, prove=True):
    ctx.rule = ("generated files (clean/fixable/unfixable statements, parse and templating errors, noqa) x warnings/ignore/fix_even configs, through "
                "`lint` and `fix` by path and stdin, plus usage-error invocations; non-trivial = some violation is suppressed or a warning; distinct by (sql, config)")
    if prove:
        ctx.prove(["SqlfluffVerif.Props.C22"], ["Props/C22.lean"])
    lines, meta = [], []
    for case in cli_e2e.gen_cases(ctx, ctx.budget(40, 600)):
        try:
            obs = cli_e2e.run_entry_points(case, want=("lint_path", "lint_stdin", "fix_path", "fix_stdin"))
        except Exception as e:
            ctx.bump("harness_case_failed:" + type(e).__name__); continue
        vs = obs["vectors"]
        flat = [1 if obs["changed"] else 0, 1 if obs["has_tree"] else 0] + [x for v in vs for x in v]
        lines.append("exit.eval %d 0 0 0 %s" % (1 if case["fix_even"] else 0, enc_nnl([flat]))); meta.append((case, obs))
        sup = any(not unsup(v) for v in vs)
        ctx.count(json.dumps(case, sort_keys=True), nontrivial=sup,
                  sample={"case": case, "vectors": vs, "lint_exit": obs["lint_path_exit"], "fix_exit": obs["fix_path_exit"]} if sup and len(ctx.samples) < 5 else None)
        e_lint, e_fix = expected(case, vs)
        if case.get("all_suppressed") and (obs["lint_path_exit"] != 0 or obs["lint_stdin_exit"] != 0):
            ctx.violation("every violation of the file is suppressed by noqa, yet `lint` exits non-zero",
                          {"case": case, "exit_path": obs["lint_path_exit"], "exit_stdin": obs["lint_stdin_exit"], "vectors": vs})
        for k in ("lint_path_exit", "lint_stdin_exit"):
            if obs[k] != e_lint:
                ctx.violation("`lint` exit code differs from 'some unsuppressed, non-warning violation'", {"case": case, "entry": k, "exit": obs[k], "expected": e_lint, "vectors": vs})
        if obs["fix_path_exit"] != e_fix:
            only_warn = e_fix == 0 and obs["fix_path_exit"] == 1 and any(v[0] == 3 and v[2] and v[4] for v in vs) and any(v[0] in (0, 1) for v in vs)
            ctx.violation("`fix` exit code differs from 'an unsuppressed violation remains unfixable or an unsuppressed templating/parsing error blocks fixing'",
                          {"case": case, "entry": "fix_path", "exit": obs["fix_path_exit"], "expected": e_fix, "vectors": vs}, key=KEY_WARN if only_warn else None)
        if all(v[2] or v[1] or v[3] for v in vs) and (obs["lint_path_exit"] != 0):
            ctx.violation("warnings/suppressed violations caused a non-zero exit", {"case": case, "exit": obs["lint_path_exit"]})
    usage_errors(ctx)
    outs = ctx.driver.run(lines)
    for (case, obs), out in zip(meta, outs):
        t = out.split(" ")
        m_lint, m_fix = int(t[0]), int(t[1])
        per = dec_nats(t[2].split(";")[0])
        m_stdin_exit = per[7]
        real = (obs["lint_path_exit"], obs["fix_path_exit"], obs["fix_stdin_exit"])
        if (m_lint, m_fix, m_stdin_exit) != real:
            ctx.corr_fail("exit codes (lint, fix path, fix stdin)", {"case": case, "vectors": obs["vectors"], "real": real, "model": (m_lint, m_fix, m_stdin_exit)})


def search(ctx):
    saved = (list(ctx.proof_broken), list(ctx.corr_broken), list(ctx.contract_fail))
    run(ctx, prove=False)
    ctx.proof_broken, ctx.corr_broken, ctx.contract_fail = saved


def replay(ctx, path):
    case = json.load(open(path))["case"]["case"]
    obs = cli_e2e.run_entry_points(case, want=("lint_path", "fix_path", "fix_stdin"))
    print(json.dumps({k: v for k, v in obs.items() if not k.endswith("_out")}, indent=1, default=str))
    return 0
