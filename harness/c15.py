"""C15 — capitalisation fixes change only letter case.

Theorems: Props/C15.lean. Tie: the Lean spec (`edit.spec`, Model/Edits.lean) is evaluated on the real token lists of a
real `fix` run (original tokens / fixed tree tokens / re-lexed fixed text) over the fixed universe of vlib/corpus.py
(dialect fixtures, one seeded mutant of each, generated SQL) x rule sets; the Python verdict is compared with Lean's.
Clean-tree failures are genuine defects listed in known_findings.json by input.
"""
import json

from vlib import fixchecks

PROP = "C15"
RULESETS = "capitalisation cap_upper cap_lower cap_pascal cap_snake cap_camel".split()
KINDS = "fixture mutant gen quo".split()
WHAT = "fixing with capitalisation rules changed more than the letter case of unquoted code"


def run(ctx, prove=True):
    ctx.rule = ("one fix run per (input, rule set) of the fixed universe (fixtures, seeded mutants, generated SQL; rule sets %s); "
                "quick = seed-chosen slice, thorough = all; non-trivial = fix changed the file; distinct by (input, rule set)" % ", ".join(RULESETS))
    if prove:
        ctx.prove(["SqlfluffVerif.Props.C15"], ["Props/C15.lean"])
    ctx.partial += ["the rules' edits are not modelled one by one: the theorem composes edits that satisfy the per-edit condition, the end-to-end spec is evaluated on real runs"]
    fixchecks.run_universe(ctx, PROP, RULESETS, ctx.budget(300, 10 ** 9), WHAT, KINDS, focus=("quo",))


def search(ctx):
    saved = (list(ctx.proof_broken), list(ctx.corr_broken), list(ctx.contract_fail))
    run(ctx, prove=False)
    ctx.proof_broken, ctx.corr_broken, ctx.contract_fail = saved


def replay(ctx, path):
    case = json.load(open(path))["case"]
    print(json.dumps(case, indent=1)[:3000])
    return 0
