"""C06 — parsing is deterministic and unaffected by parser optimisations.

Theorems: Props/C06.lean over Model/ParseOpt.lean (`longest_match` with `prune_options` and the parse cache):
pruning is transparent when dropped options fail (HintSound); the cache is transparent over every history of calls
when a key determines the fresh match (KeyDetermines); a kernel-checked witness shows the latter hypothesis is necessary.

Tie: (a) the model of `longest_match` is run against the real function on stub matchers (lengths, insert flags, hints,
terminators); (b) shadow execution of the real parser: every input is parsed normally, with all cache look-ups forced to
miss, with pruning disabled and with both disabled, trees compared; while the cache is forced to miss every re-computation
under an already used key is compared with the stored result (KeyDetermines), and options dropped by pruning are matched
anyway on a sample of calls (HintSound); (c) histories: the same text parsed first, after other files (same and new
Linter, other dialects) and in fresh processes with different hash seeds gives the same tree.
"""
import json
import os
import subprocess
import sys

from vlib import gen
from vlib.core import enc_nats

PROP = "C06"


# ---------------------------------------------------------------------------------------------
# (a) model vs real longest_match on stubs

def stub_correspondence(ctx, n):
    from sqlfluff.core import FluffConfig, Lexer
    from sqlfluff.core.parser.context import ParseContext
    from sqlfluff.core.parser.match_algorithms import longest_match, skip_start_index_forward_to_code
    from sqlfluff.core.parser.match_result import MatchResult
    from sqlfluff.core.parser.matchable import Matchable
    from sqlfluff.core.parser.segments import Indent

    cfg = FluffConfig(overrides={"dialect": "ansi"})
    toks, _ = Lexer(config=cfg).lex("a1 a2 a3 a4 a5 a6 a7")
    toks = [t for t in toks if not t.is_meta]  # words and blanks

    class Stub(Matchable):
        def __init__(self, i, ln, ins, hint):
            self.i, self.ln, self.ins, self.hint = i, ln, ins, hint
        def is_optional(self):
            return False
        def simple(self, parse_context, crumbs=None):
            return self.hint
        def match(self, segments, idx, parse_context):
            return MatchResult(slice(idx, idx + self.ln), insert_segments=((idx, Indent),) if self.ins else ())
        def cache_key(self):
            return "stub%d-%d-%d" % (self.i, self.ln, self.ins)

    class Term(Matchable):
        def __init__(self, positions):
            self.positions = positions
        def is_optional(self):
            return False
        def simple(self, parse_context, crumbs=None):
            return None
        def match(self, segments, idx, parse_context):
            return MatchResult(slice(idx, idx + 1)) if idx in self.positions else MatchResult.empty_at(idx)
        def cache_key(self):
            return "term"

    rng = ctx.rng
    lines, meta = [], []
    for _ in range(n):
        nseg = rng.randint(1, len(toks))
        segs = toks[:nseg]
        idx = rng.randrange(nseg)
        room = nseg - idx
        nopt = rng.randint(0, 5)
        first = next((s.raw_upper for s in segs[idx:] if s.raw.strip()), None)
        opts, lens, inss, keeps = [], [], [], []
        for i in range(nopt):
            ln = rng.choice([0, 0, 1, 2, 3, room, rng.randint(0, room)])
            ln = min(ln, room)
            ins = rng.random() < 0.15
            hk = rng.random()
            if hk < 0.3:
                hint, keep = None, True
            elif hk < 0.65 and first is not None:
                hint, keep = (frozenset({first}), frozenset()), True
            elif hk < 0.8:
                hint, keep = (frozenset(), frozenset({"word", "whitespace"})), True   # type hint matching the first token
            else:
                hint, keep = (frozenset({"ZZZ"}), frozenset({"nonexistent_type"})), first is None
            opts.append(Stub(i, ln, ins, hint)); lens.append(ln); inss.append(int(ins)); keeps.append(int(keep))
        has_terms = rng.random() < 0.6
        tpos = {p for p in range(nseg) if rng.random() < 0.3}
        terms = []
        for i in range(nopt):
            stop = idx + lens[i]
            nxt = skip_start_index_forward_to_code(segs, stop)
            terms.append(int(nxt == len(segs) or nxt in tpos))
        pc = ParseContext.from_config(cfg)
        try:
            if has_terms:
                with pc.deeper_match(name="t", push_terminators=[Term(tpos)]) as c2:
                    m, mm = longest_match(segs, opts, idx, c2)
            else:
                m, mm = longest_match(segs, opts, idx, pc)
        except Exception as e:
            ctx.bump("stub_raised"); continue
        real = "%d %d %s" % (len(m), 1 if m.insert_segments else 0, mm.i if mm is not None else "-")
        lines.append("popt.longest %d %d %s %s %s %s" % (room, int(has_terms), enc_nats(lens), enc_nats(inss), enc_nats(keeps), enc_nats(terms)))
        meta.append((real, dict(room=room, idx=idx, lens=lens, inss=inss, keeps=keeps, terms=terms, has_terms=has_terms)))
    outs = ctx.driver.run(lines)
    for (real, case), out in zip(meta, outs):
        ctx.count(("stub", json.dumps(case, sort_keys=True)), nontrivial=len(case["lens"]) > 1)
        ctx.bump("stub_calls")
        if out.strip() != real:
            ctx.corr_fail("longest_match model vs real on stub matchers", dict(case, model=out, real=real))


# ---------------------------------------------------------------------------------------------
# (b) shadow execution

class Shadow:
    """Context manager switching the optimisations of the real parser on/off by patching, and sampling the contracts."""

    def __init__(self, cache=True, prune=True, sample_hints=0, rng=None):
        self.cache, self.prune, self.sample_hints, self.rng = cache, prune, sample_hints, rng
        self.key_conflicts = []
        self.hint_unsound = []
        self.hint_checked = 0
        self.key_rechecks = 0

    def __enter__(self):
        import sqlfluff.core.parser.match_algorithms as ma
        from sqlfluff.core.parser.context import ParseContext
        self.ma, self.PC = ma, ParseContext
        self.o_check, self.o_put, self.o_prune = ParseContext.check_parse_cache, ParseContext.put_parse_cache, ma.prune_options
        sh = self
        if not self.cache:
            def check(pc, loc_key, matcher_key):
                return None
            def put(pc, loc_key, matcher_key, match):
                old = pc._parse_cache.get((loc_key, matcher_key))
                if old is not None:
                    sh.key_rechecks += 1
                    if old != match and len(sh.key_conflicts) < 20:
                        sh.key_conflicts.append((str(loc_key), matcher_key[:80], str(old.matched_slice), str(match.matched_slice)))
                else:
                    pc._parse_cache[(loc_key, matcher_key)] = match
            ParseContext.check_parse_cache, ParseContext.put_parse_cache = check, put
        inside = [False]
        def prune(options, segments, parse_context, start_idx=0):
            kept = sh.o_prune(options, segments, parse_context=parse_context, start_idx=start_idx)
            if sh.sample_hints and not inside[0] and len(kept) < len(options) and sh.rng.random() < sh.sample_hints:
                inside[0] = True
                try:
                    keptids = {id(k) for k in kept}
                    dropped = [o for o in options if id(o) not in keptids]
                    o = sh.rng.choice(dropped)
                    saved = dict(parse_context._parse_cache)
                    try:
                        res = o.match(segments, start_idx, parse_context)
                    except Exception:
                        res = None
                    parse_context._parse_cache.clear(); parse_context._parse_cache.update(saved)
                    sh.hint_checked += 1
                    if res is not None and res and len(sh.hint_unsound) < 20:
                        sh.hint_unsound.append((o.cache_key()[:60], repr(o)[:120], segments[start_idx].raw, str(res.matched_slice)))
                finally:
                    inside[0] = False
            return kept if sh.prune else list(options)
        ma.prune_options = prune
        return self

    def __exit__(self, *a):
        self.PC.check_parse_cache, self.PC.put_parse_cache = self.o_check, self.o_put
        self.ma.prune_options = self.o_prune


def tree_key(linter, sql):
    parsed = linter.parse_string(sql)
    rv = parsed.root_variant()
    tree = rv.tree if rv else None
    errs = sorted((v.rule_code(), v.line_no, v.line_pos) for v in parsed.violations)
    return (tree.to_tuple(show_raw=True, include_meta=True) if tree else None, errs)


_LINTERS = {}


def _shadow_case(job):
    import logging
    import random
    from sqlfluff.core import Linter, FluffConfig
    logging.disable(logging.CRITICAL)
    d, name, sql, seed = job
    rng = random.Random(seed)
    case = {"dialect": d, "file": name, "sql": sql[:1500]}
    out = {"case": case, "d": d, "name": name, "sql": sql, "key_rechecks": 0, "hint_checks": 0, "contracts": [], "variants": []}
    if d not in _LINTERS:
        _LINTERS[d] = Linter(config=FluffConfig(overrides={"dialect": d}))
    lnt = _LINTERS[d]
    try:
        base = tree_key(lnt, sql)
        for label, (c, p) in {"no-cache": (False, True), "no-prune": (True, False), "neither": (False, False)}.items():
            if name.endswith("#cmtall"):
                if label != "no-prune":
                    continue
            elif (label == "neither" and rng.random() > 0.1) or (label == "no-prune" and rng.random() > 0.35):
                continue
            with Shadow(cache=c, prune=p, sample_hints=0.02 if label == "no-cache" else 0, rng=rng) as sh:
                v = tree_key(lnt, sql)
            out["variants"].append((label, v == base, v[1]))
            out["key_rechecks"] += sh.key_rechecks; out["hint_checks"] += sh.hint_checked
            if not c:
                out["contracts"].append(("KeyDetermines", not sh.key_conflicts, {"conflicts": sh.key_conflicts[:3]}))
            if sh.hint_checked:
                out["contracts"].append(("HintSound", not sh.hint_unsound, {"unsound": sh.hint_unsound[:3]}))
        out["again_same"] = tree_key(lnt, sql) == base
        out["has_tree"] = base[0] is not None
        out["base_errs"] = base[1]
    except Exception as e:
        out["raised"] = repr(e)[:200]
    finally:
        if hasattr(sys, "tracebacklimit"):
            del sys.tracebacklimit
    return out


def terminator_words(dialect):
    """Unreserved keywords that occur as first words of some grammar's terminators: words that end a clause in one
    grammar context and are plain names in another — where a cache key that forgets its context or limit would matter."""
    from sqlfluff.core import FluffConfig
    from sqlfluff.core.parser.context import ParseContext
    cfg = FluffConfig(overrides={"dialect": dialect})
    d = cfg.get("dialect_obj")
    pc = ParseContext.from_config(cfg)
    seen, words = set(), set()
    stack = list(d._library.values())
    while stack:
        g = stack.pop()
        if id(g) in seen:
            continue
        seen.add(id(g))
        terms = getattr(g, "terminators", None)
        for t in (terms if isinstance(terms, (list, tuple)) else []):
            try:
                sm = t.simple(pc)
            except Exception:
                sm = None
            if sm:
                words.update(sm[0])
            stack.append(t)
        els = getattr(g, "_elements", None)
        stack.extend(els if isinstance(els, (list, tuple)) else [])
        mg = getattr(g, "match_grammar", None)
        if mg is not None:
            stack.append(mg)
    unres = set(d.sets("unreserved_keywords"))
    return sorted(words & unres), sorted(unres)


KW_FORMS = ["SELECT a FROM t1 JOIN {k} x ON t1.a = x.a\n", "SELECT a FROM t1 CROSS JOIN {k} x\n", "SELECT {k} FROM t\n", "SELECT a FROM {k} x WHERE x.a = 1\n",
            "SELECT a, {k} b FROM t ORDER BY {k}\n", "SELECT a FROM t WHERE {k} = 1 AND {k} IN (1, 2)\n", "SELECT t.{k}, {k}.a FROM {k}\n",
            "SELECT a FROM t1 JOIN {k} ON t1.a = {k}.a JOIN {k2} y USING (a)\n", "SELECT a FROM (SELECT {k} FROM t1 JOIN {k2} z) q\n",
            "INSERT INTO {k} ({k2}) SELECT {k} FROM {k2} y\n", "WITH {k} AS (SELECT 1) SELECT * FROM {k} {k2}\n",
            "SELECT CASE WHEN {k} THEN {k2} ELSE {k} END FROM t\n", "SELECT a FROM t GROUP BY {k} HAVING {k2} > 1\n",
            "SELECT a FROM t1, {k} x\n", "SELECT a FROM t WHERE a IN (SELECT {k} FROM {k} x)\n", "SELECT a FROM t1 LEFT JOIN {k} {k2}\n",
            "UPDATE {k} SET {k2} = 1 WHERE {k} = 2\n", "SELECT {k}({k2}) FROM t\n"]


def keyword_inputs(rng, dialect, n_random, systematic):
    tw, unres = terminator_words(dialect)
    out = []
    if systematic:
        for f in KW_FORMS:
            for k in tw:
                out.append(f.format(k=k, k2=rng.choice(tw + ["y"])))
    for _ in range(n_random):
        out.append(rng.choice(KW_FORMS).format(k=rng.choice(unres), k2=rng.choice(unres)))
    return out


def inject_any_comments(rng, d, sql):
    from vlib import corpus
    toks = corpus._tokens(d, sql)
    bd = [i for i, t in enumerate(toks) if i > 0 and not t.is_type("newline", "comment", "end_of_file") and not toks[i - 1].is_type("comment")]
    rng.shuffle(bd)
    pick = set(bd[: rng.randint(1, 4)])
    out = []
    for i, t in enumerate(toks):
        if i in pick:
            out.append(rng.choice([" /* c */ ", "/* c */", " /* c */", " -- c\n"]))
        out.append(t.raw)
    return "".join(out)


def saturate_comments(d, sql):
    """A block comment in front of every comma, closing bracket and clause keyword: every place where a match ends and the
    token that terminates it follows."""
    from vlib import corpus
    toks = corpus._tokens(d, sql)
    stops = {",", ")", "]", ";"}
    kws = {"FROM", "WHERE", "AS", "ON", "THEN", "ELSE", "END", "AND", "OR", "GROUP", "ORDER", "HAVING", "LIMIT", "UNION", "JOIN", "USING", "SET", "VALUES", "WHEN"}
    out = []
    for i, t in enumerate(toks):
        if i > 0 and (t.raw in stops or t.raw.upper() in kws) and not toks[i - 1].is_type("comment"):
            out.append(" /* c */ ")
        out.append(t.raw)
    return "".join(out)


def shadow_runs(ctx):
    from sqlfluff.core import Linter, FluffConfig
    rng = ctx.rng
    files = gen.fixture_files(); rng.shuffle(files)
    cases = []
    for d, f in files[: ctx.budget(30, 900)]:
        try:
            t = f.read_text(encoding="utf-8")
        except Exception:
            continue
        if len(t) <= ctx.budget(1500, 2500):
            cases.append((d, f.name, t))
    cases += [(d, n + "#mut", gen.mutate_sql(rng, t)) for (d, n, t) in cases[: ctx.budget(15, 300)]]
    # comments are legal between any two tokens: the tree must not depend on the optimisations with a comment sitting between a
    # match and what follows it either
    for (d, n, t) in list(cases[: ctx.budget(30, 600)]):
        if n.endswith("#mut"):
            continue
        try:
            cases.append((d, n + "#cmt", inject_any_comments(rng, d, t)))
        except Exception:
            pass
    # comment-saturated variants of many more (small) fixtures, compared normal vs pruning-off only (two cached parses each)
    for d, f in files[: ctx.budget(420, 2249)]:
        try:
            t = f.read_text(encoding="utf-8")
            if len(t) <= ctx.budget(1200, 3000):
                cases.append((d, f.name + "#cmtall", saturate_comments(d, t)))
        except Exception:
            pass
    cases += [("ansi", "gen", gen.sql_file(rng)) for _ in range(ctx.budget(25, 500))]
    dialects = sorted({d for d, _ in files})
    syst = ["ansi"] + rng.sample([d for d in dialects if d != "ansi"], 1) if ctx.quick() else dialects
    for d in dialects:
        if d in syst or not ctx.quick():
            cases += [(d, "kw", s_) for s_ in keyword_inputs(rng, d, ctx.budget(10, 40), d in syst)]
    import multiprocessing
    jobs = [(d, name, sql, rng.getrandbits(32)) for (d, name, sql) in cases]
    from vlib.par import robust_map
    results = robust_map(_shadow_case, jobs, 14, ctx.budget(240, 300))
    for r in results:
        if "case" not in r:          # timed out (an uncached parse of a large file can take very long) or the worker died
            ctx.bump("shadow_timeout" if r.get("timeout") else "shadow_worker_died"); continue
        case = r["case"]
        if r.get("raised"):
            ctx.bump("parse_raised"); continue
        d, name, sql = r["d"], r["name"], r["sql"]
        ctx.bump("key_rechecks", r["key_rechecks"]); ctx.bump("hint_checks", r["hint_checks"])
        for (nm, ok, extra) in r["contracts"]:
            ctx.contract(nm, ok, dict(case, **extra))
        ctx.count((d, sql), nontrivial=r["has_tree"] and len(sql) > 20, sample={"dialect": d, "file": name} if len(ctx.samples) < 4 else None)
        ctx.bump("kind_" + (name.split("#")[-1] if "#" in name else (name if name in ("gen", "kw") else "fixture")))
        if r["base_errs"]:
            ctx.bump("inputs_with_parse_errors")
        for label, same, verrs in r["variants"]:
            ctx.bump("shadow_" + label)
            if not same:
                ctx.violation("the parse tree depends on a parser optimisation (%s differs from the normal parse)" % label, dict(case, variant=label,
                              normal_errors=r["base_errs"][:5], variant_errors=verrs[:5]))
        if not r["again_same"]:
            ctx.violation("parsing the same text twice gave different trees", case)
    linters = {}
    for d in sorted({c[0] for c in cases}):
        linters[d] = Linter(config=FluffConfig(overrides={"dialect": d}))
    return cases, linters


# ---------------------------------------------------------------------------------------------
# (c) histories

CHILD = r'''
import sys, json, hashlib
from sqlfluff.core import Linter, FluffConfig
cases = json.load(sys.stdin)
out = []
for d, sql in cases:
    p = Linter(config=FluffConfig(overrides={"dialect": d})).parse_string(sql)
    rv = p.root_variant()
    t = rv.tree.to_tuple(show_raw=True, include_meta=True) if rv and rv.tree else None
    out.append(hashlib.sha256(repr((t, sorted((v.rule_code(), v.line_no, v.line_pos) for v in p.violations))).encode()).hexdigest())
print(json.dumps(out))
'''


def histories(ctx, cases, linters):
    import hashlib
    from sqlfluff.core import Linter, FluffConfig
    rng = ctx.rng
    pool = [c for c in cases if len(c[2]) < 1500]
    rng.shuffle(pool)
    targets = pool[: ctx.budget(12, 150)]
    first = {}
    for (d, name, sql) in targets:
        try:
            first[(d, sql)] = tree_key(Linter(config=FluffConfig(overrides={"dialect": d})), sql)
        except Exception:
            pass
    # arbitrary sequences of other files, then the target again: same linter object and a new one
    for (d, name, sql) in targets:
        if (d, sql) not in first:
            continue
        others = [rng.choice(pool) for _ in range(rng.randint(1, 4))]
        try:
            for (d2, _, s2) in others:
                linters[d2].parse_string(s2) if rng.random() < 0.7 else linters[d2].lint_string(s2)
            a = tree_key(linters[d], sql)
            b = tree_key(Linter(config=FluffConfig(overrides={"dialect": d})), sql)
        except Exception:
            ctx.bump("history_raised"); continue
        finally:
            if hasattr(sys, "tracebacklimit"):
                del sys.tracebacklimit
        ctx.count(("hist", d, sql, tuple(o[2] for o in others)), nontrivial=True)
        ctx.bump("histories")
        if a != first[(d, sql)] or b != first[(d, sql)]:
            ctx.violation("the parse tree of a file depends on which files were parsed before it in the same process",
                          {"dialect": d, "sql": sql[:1500], "history": [(o[0], o[2][:300]) for o in others]})
    # fresh processes with different hash seeds
    payload = [(d, sql) for (d, name, sql) in targets if (d, sql) in first]
    expect = [hashlib.sha256(repr(first[(d, sql)]).encode()).hexdigest() for (d, sql) in payload]
    for hs in (["0", "12345"] if ctx.quick() else ["0", "1", "12345", "99999", "random"]):
        env = dict(os.environ, PYTHONHASHSEED=hs)
        try:
            r = subprocess.run(["/venv/bin/python", "-c", CHILD], input=json.dumps(payload), capture_output=True, text=True, env=env, timeout=900)
            got = json.loads(r.stdout.strip().splitlines()[-1])
        except Exception as e:
            ctx.notes.append("fresh-process run failed: %r" % (e,)); continue
        ctx.bump("fresh_process_runs")
        for (d, sql), e, g in zip(payload, expect, got):
            ctx.count(("proc", hs, d, sql), nontrivial=True)
            if e != g:
                ctx.violation("the parse tree differs between this process and a fresh process (PYTHONHASHSEED=%s)" % hs, {"dialect": d, "sql": sql[:1500], "hashseed": hs})


def run(ctx, prove=True):
    ctx.rule = ("stub longest_match calls (model vs real) + real parses of shuffled fixtures, mutants, generated SQL and keyword-as-identifier statements, "
                "each parsed normally / cache off / pruning off / both off and twice; histories and fresh processes with varied hash seeds; "
                "non-trivial = parsed tree present; distinct by (dialect, text)")
    if prove:
        ctx.prove(["SqlfluffVerif.Props.C06"], ["Props/C06.lean"])
    ctx.assumptions += ["HintSound: an option dropped by prune_options would not have matched (sampled by matching dropped options anyway)",
                        "KeyDetermines: two fresh matches under one parse-cache key are equal (sampled: with look-ups forced to miss every recomputation is compared with the stored entry)"]
    ctx.partial += ["matchers' own match functions (the grammar) are parameters of the model; cached_method_for_parse_context and next_match's simple maps are covered only by the differential runs"]
    stub_correspondence(ctx, ctx.budget(1500, 40000))
    cases, linters = shadow_runs(ctx)
    histories(ctx, cases, linters)


def search(ctx):
    saved = (list(ctx.proof_broken), list(ctx.corr_broken), list(ctx.contract_fail))
    run(ctx, prove=False)
    ctx.proof_broken, ctx.corr_broken, ctx.contract_fail = saved


def replay(ctx, path):
    from sqlfluff.core import Linter, FluffConfig
    case = json.load(open(path))["case"]
    print(json.dumps(case, indent=1)[:3000])
    if "variant" in case:
        lnt = Linter(config=FluffConfig(overrides={"dialect": case["dialect"]}))
        base = tree_key(lnt, case["sql"])
        c, p = {"no-cache": (False, True), "no-prune": (True, False), "neither": (False, False)}[case["variant"]]
        with Shadow(cache=c, prune=p):
            v = tree_key(lnt, case["sql"])
        print("differs" if v != base else "same")
        return 1 if v != base else 0
    return 0
