"""C28 — parse output is a faithful serialisation of the tree.

Theorems: Props/C28.lean (as_record keeps every token (type, text) in file order in both layouts).
Tie: Model/Serialise.lean vs BaseSegment.as_record on real trees (options: code_only, show_raw, include_meta,
include_position); spec on the real outputs of `sqlfluff parse` (human/json/yaml, with and without
--include-meta) and sqlfluff.parse: the tokens listed, in order, are the tree's tokens; their texts concatenate to the
rendered SQL; types nest as in the tree.
"""
import json
import os
import re
import tempfile
import shutil

from vlib import gen
from vlib.core import enc_nats

PROP = "C28"
POSKEYS = {"start_line_no", "start_line_pos", "start_file_pos", "end_line_no", "end_line_pos", "end_file_pos"}


def ser_seg(seg, tymap, out):
    ty = tymap.setdefault(seg.get_type(), len(tymap) + 1)
    raw = [ord(c) for c in seg.raw] if not seg.segments else []
    out += [ty, 1 if seg.is_code else 0, 1 if seg.is_meta else 0, len(raw)] + raw + [len(seg.segments)]
    for c in seg.segments:
        ser_seg(c, tymap, out)


def canon(rec, tymap):
    """Real record → the driver's canonical text."""
    def val(v):
        if isinstance(v, str):
            return "s" + (",".join(str(ord(c)) for c in v) if v else "-")
        if v is None:
            return "n"
        if isinstance(v, dict):
            return rec_s(v)
        if isinstance(v, list):
            return "[" + ",".join(rec_s(x) for x in v) + "]"
        return "?%r" % (v,)
    def rec_s(d):
        items = []
        seen_pos = False
        for k, v in d.items():
            if k in POSKEYS:
                if not seen_pos:
                    items.append("1000000:n"); seen_pos = True
                continue
            items.append("%d:%s" % (tymap.get(k, 0), val(v)))
        return "{" + ",".join(items) + "}"
    return rec_s(rec)


def rec_leaves(rec):
    out = []
    def walk(d):
        for k, v in d.items():
            if k in POSKEYS:
                continue
            if isinstance(v, str):
                out.append((k, v))
            elif isinstance(v, dict):
                walk(v)
            elif isinstance(v, list):
                for x in v:
                    walk(x)
    walk(rec)
    return out


def nesting(seg):
    """type nesting of the tree as (type, [children…]) for non-meta segments"""
    return (seg.get_type(), [nesting(c) for c in seg.segments if not c.is_meta])


def rec_nesting(rec):
    out = []
    for k, v in rec.items():
        if k in POSKEYS:
            continue
        if isinstance(v, dict):
            out.append((k, rec_nesting(v)))
        elif isinstance(v, list):
            kids = []
            for x in v:
                kids += rec_nesting(x)
            out.append((k, kids))
        else:
            out.append((k, []))
    return out


def run(ctx, prove=True):
    from sqlfluff.core import Linter, FluffConfig
    import sqlfluff
    ctx.rule = ("real parse trees of shuffled dialect fixtures, mutants and generated SQL x as_record option combinations; CLI `parse` in json/yaml/human "
                "with and without --include-meta and sqlfluff.parse on a subset; non-trivial = tree with >= 10 leaves; distinct by (dialect, text, options)")
    if prove:
        ctx.prove(["SqlfluffVerif.Props.C28"], ["Props/C28.lean"])
    rng = ctx.rng
    files = gen.fixture_files(); rng.shuffle(files)
    cases = [(d, f.name, f.read_text(encoding="utf-8")) for d, f in files[: ctx.budget(25, 2000)]]
    cases += [("ansi", "gen", gen.sql_file(rng)) for _ in range(ctx.budget(15, 300))]
    cases += [(d, n + "#mut", gen.mutate_sql(rng, t)) for (d, n, t) in cases[:10]]
    lines, meta = [], []
    linters = {}
    for (d, name, txt) in cases:
        lnt = linters.setdefault(d, Linter(config=FluffConfig(overrides={"dialect": d})))
        try:
            parsed = lnt.parse_string(txt)
        except Exception:
            ctx.bump("parse_raised"); continue
        finally:
            import sys
            if hasattr(sys, "tracebacklimit"):
                del sys.tracebacklimit
        rv = parsed.root_variant()
        tree = rv.tree if rv is not None else None
        if tree is None:
            ctx.bump("no_tree"); continue
        tymap = {}
        flat = []
        ser_seg(tree, tymap, flat)
        for (co, sr, im, pos) in [(0, 1, 0, 0), (0, 1, 1, 0), (0, 1, 0, 1), (1, 1, 0, 0), (0, 0, 0, 0), (0, 1, 1, 1)]:
            real = tree.as_record(code_only=bool(co), show_raw=bool(sr), include_meta=bool(im), include_position=bool(pos))
            lines.append("ser.record %d %d %d %d %s" % (co, sr, im, pos, enc_nats(flat)))
            meta.append((d, name, txt, (co, sr, im, pos), canon(real, tymap)))
            nleaves = len(tree.raw_segments)
            ctx.count((d, txt, co, sr, im, pos), nontrivial=nleaves >= 10, sample={"dialect": d, "file": name, "options": [co, sr, im, pos], "leaves": nleaves} if len(ctx.samples) < 3 else None)
            # spec on the real record (show_raw, not code_only)
            if sr and not co:
                want = [(s.get_type(), s.raw) for s in tree.raw_segments if im or not s.is_meta]
                got = rec_leaves(real)
                case = {"dialect": d, "file": name, "text": txt[:600], "options": {"code_only": co, "show_raw": sr, "include_meta": im, "include_position": pos}}
                if got != want:
                    i = next((k for k, (a, b) in enumerate(zip(got, want)) if a != b), min(len(got), len(want)))
                    ctx.violation("the record does not list every token of the tree with its text in file order", dict(case, at=i, got=got[i:i + 2], want=want[i:i + 2]))
                if "".join(r for _, r in got) != parsed.root_variant().templated_file.templated_str:
                    ctx.violation("token texts of the record do not concatenate to the rendered SQL", case)
                if not im and rec_nesting(real) != [nesting(tree)]:
                    ctx.violation("node types do not nest in the record as they do in the tree", case)
    cli_outputs(ctx, cases[: ctx.budget(6, 80)])
    outs = ctx.driver.run(lines)
    for (d, name, txt, opts, real), out in zip(meta, outs):
        if out != real:
            ctx.corr_fail("as_record", {"dialect": d, "file": name, "options": opts, "real": real[:300], "model": out[:300]})


def cli_outputs(ctx, cases):
    from click.testing import CliRunner
    from sqlfluff.cli.commands import parse
    import sqlfluff
    import yaml
    d0 = tempfile.mkdtemp(prefix="verif_c28_")
    try:
        for i, (d, name, txt) in enumerate(cases):
            p = os.path.join(d0, "q%d.sql" % i); open(p, "w", encoding="utf-8", newline="").write(txt)
            try:
                want_all = None
                from sqlfluff.core import Linter, FluffConfig
                tree = Linter(config=FluffConfig(overrides={"dialect": d})).parse_string(txt).tree
            except Exception:
                continue
            if tree is None:
                continue
            for fmt in ("json", "yaml", "human"):
                for im in (False, True):
                    args = [p, "--dialect", d, "--format", fmt, "--ignore-local-config"] + (["--include-meta"] if im else [])
                    r = CliRunner().invoke(parse, args)
                    want = [(s.get_type(), s.raw) for s in tree.raw_segments if im or not s.is_meta]
                    case = {"dialect": d, "file": name, "text": txt[:400], "format": fmt, "include_meta": im}
                    ctx.count(("cli", d, txt, fmt, im), nontrivial=len(want) >= 10)
                    ctx.bump("cli_" + fmt)
                    try:
                        if fmt == "json":
                            rec = json.loads(r.output)[0]["segments"]
                            got = rec_leaves(rec)
                        elif fmt == "yaml":
                            rec = yaml.safe_load(r.output)[0]["segments"]
                            got = rec_leaves(rec)
                        else:
                            got = []
                            for line in r.output.splitlines():
                                m = re.match(r"^\[L:\s*\d+, P:\s*\d+\]\s*\|(\s*)(\[META\] )?([\w ()]+?):\s+(\[.*\]|'.*'|\".*\")?\s*$", line)
                                if m and m.group(4) and m.group(4)[0] in "'\"":
                                    import ast
                                    got.append((m.group(3), ast.literal_eval(m.group(4))))
                            want = [w for w in want if w[1] != ""]   # the human format prints no text for zero-width markers
                            got = [(t, r_) for t, r_ in got]
                            if [x[1] for x in got] != [x[1] for x in want]:
                                ctx.violation("`parse` human output does not list the tokens' texts in file order", dict(case, got=[x[1] for x in got][:8], want=[x[1] for x in want][:8]))
                            continue
                    except Exception as e:
                        ctx.bump("cli_unparsed_output_" + fmt); continue
                    if got != want:
                        i2 = next((k for k, (a, b) in enumerate(zip(got, want)) if a != b), min(len(got), len(want)))
                        ctx.violation("`parse --format %s` does not list every token with its text in file order" % fmt, dict(case, at=i2, got=got[i2:i2 + 2], want=want[i2:i2 + 2]))
            try:
                api = sqlfluff.parse(txt, dialect=d)
                got = rec_leaves(api)
                want = [(s.get_type(), s.raw) for s in tree.raw_segments if not s.is_meta]
                if got != want:
                    ctx.violation("sqlfluff.parse record does not list every token with its text in file order", {"dialect": d, "file": name, "text": txt[:400]})
            except Exception as e:
                ctx.bump("api_parse_raised:" + type(e).__name__)
    finally:
        shutil.rmtree(d0, ignore_errors=True)


def search(ctx):
    saved = (list(ctx.proof_broken), list(ctx.corr_broken), list(ctx.contract_fail))
    run(ctx, prove=False)
    ctx.proof_broken, ctx.corr_broken, ctx.contract_fail = saved


def replay(ctx, path):
    case = json.load(open(path))["case"]
    print(json.dumps(case, indent=1)[:3000])
    return 0
