"""C21 — rule selection is exact and rules are independent.

Theorems: Props/C21.lean (general) + Gen/Rules.lean (generated from the live rule set every run).
Tie: Model/Select.lean vs RuleSet.rule_reference_map / get_rulepack on the live rule set and on synthetic
registers with collisions; end-to-end: only selected rules report; a rule's lint-mode violations do not
depend on which other rules are enabled.
"""
import json

from translate import rule_table
from vlib.core import enc_str, enc_nats, enc_nnl, dec_nats
from vlib import gen

PROP = "C21"


def enc_ms(ms):
    so = lambda s: [ord(c) for c in s]
    return "%s %s %s %s %s %s" % (
        enc_nnl(so(m["code"]) for m in ms), enc_nnl(so(m["name"]) for m in ms),
        enc_nats(len(m["groups"]) for m in ms), enc_nnl(so(g) for m in ms for g in m["groups"]),
        enc_nats(len(m["aliases"]) for m in ms), enc_nnl(so(a) for m in ms for a in m["aliases"]))


def dec_strs(tok):
    return [] if tok == "~" else ["".join(chr(x) for x in dec_nats(t)) for t in tok.split(";")]


def dec_refmap(out):
    keys, sizes, vals = out.split(" ")
    keys = dec_strs(keys); sizes = dec_nats(sizes); vals = dec_strs(vals)
    m, i = {}, 0
    for k, n in zip(keys, sizes):
        m[k] = set(vals[i:i + n]); i += n
    return m


def synthetic_registers(ctx):
    rng = ctx.rng
    pool_codes = ["AA01", "AA02", "BB01", "CC03"]
    pool_names = ["n.one", "n.two", "AA01", "grp", ""]
    pool_groups = ["all", "grp", "core", "AA02", "n.one"]
    pool_alias = ["L001", "L002", "grp", "BB01", "n.two", "L001"]
    for _ in range(ctx.budget(300, 5000)):
        codes = rng.sample(pool_codes, rng.randint(1, 4))
        ms = []
        for c in sorted(codes):
            ms.append({"code": c, "name": rng.choice(pool_names), "groups": ["all"] + rng.sample(pool_groups, rng.randint(0, 2)),
                       "aliases": rng.sample(pool_alias, rng.randint(0, 2))})
        yield ms


def real_refmap(ms):
    from sqlfluff.core.rules.base import RuleSet, RuleManifest
    rs = RuleSet(name="synthetic", config_info={})
    for m in ms:
        rs._register[m["code"]] = RuleManifest(code=m["code"], name=m["name"], description="", groups=tuple(m["groups"]),
                                                aliases=tuple(m["aliases"]), rule_class=None)
    return rs, rs.rule_reference_map()


def selectors(ctx, ms):
    rng = ctx.rng
    refs = set()
    for m in ms:
        refs.add(m["code"]); refs.add(m["name"]); refs.update(m["groups"]); refs.update(m["aliases"])
    refs = sorted(r for r in refs if r)
    globs = ["L*", "*", "A?0*", "[AL]*", "C*1", "layout.*", "*.keywords", "LT0[1-3]", "[!L]*", "ZZ99", "lt01", " LT01", "all", "core"]
    pool = refs + globs
    for _ in range(ctx.budget(250, 4000)):
        def mk():
            k = rng.choice([0, 1, 1, 2, 3])
            items = [rng.choice(pool) for _ in range(k)]
            sep = rng.choice([",", ", ", " ,", ",,"])
            return sep.join(items) + rng.choice(["", ",", " "])
        yield mk(), mk()


def run(ctx, prove=True):
    from sqlfluff.core import FluffConfig, Linter
    from sqlfluff.core.rules import get_ruleset
    ctx.rule = ("live rule table (translated every run) and synthetic registers with name/group/alias collisions x generated selector "
                "strings (codes, names, groups, aliases, globs, unknowns, empty items); e2e: fixture/generated SQL under random selections; "
                "non-trivial = selection is a proper non-empty subset; distinct by (register, allow, deny)")
    ms = rule_table.generate()
    if prove:
        ctx.prove(["SqlfluffVerif.Props.C21", "SqlfluffVerif.Gen.Rules"], ["Props/C21.lean"], ["Gen/Rules.lean"])
    ctx.trusted += ["harness/translate/rule_table.py (translator; the generated table is compared with rule_reference_map below)"]
    ctx.assumptions += ["CrawlPure: a rule's lint result depends only on tree and config (sampled below)"]
    ctx.partial += ["independence of rules is the sampled contract CrawlPure; the frame rule C21_lint_independent is proved over it"]
    lines, meta = [], []
    rs = get_ruleset()
    # reference map of the live table
    lines.append("select.refmap " + enc_ms(ms)); meta.append(("refmap", ms, rs.rule_reference_map()))
    for (allow, deny) in selectors(ctx, ms):
        cfg = FluffConfig(overrides={"dialect": "ansi", "rules": allow or None, "exclude_rules": deny or None})
        real = [r.code for r in rs.get_rulepack(cfg).rules]
        lines.append("select.select %s %s %s" % (enc_ms(ms), enc_str(allow), enc_str(deny)))
        meta.append(("select", (allow, deny), real))
        ctx.count(("live", allow, deny), nontrivial=0 < len(real) < len(ms),
                  sample={"rules": allow, "exclude_rules": deny, "selected": real[:8], "n": len(real)} if 0 < len(real) < 8 and len(ctx.samples) < 4 else None)
        ctx.bump("live_select")
        # independent oracle for the property statement (python re-implementation from the statement, not the code)
        refmap = rs.rule_reference_map()
        import fnmatch
        def matched(sel):
            out = set()
            for r in [x.strip() for x in sel.split(",") if x.strip()]:
                if r in refmap:
                    out |= refmap[r]
                else:
                    for k in refmap:
                        if fnmatch.fnmatchcase(k, r):
                            out |= refmap[k]
            return out
        allowset = matched(allow) if [x for x in allow.split(",") if x.strip()] else set(rs._register)
        expect = sorted(c for c in rs._register if c in allowset and c not in matched(deny))
        if expect != real:
            ctx.violation("rules that run differ from (selection minus exclusion)", {"rules": allow, "exclude_rules": deny, "real": real, "expected": expect})
    for sms in synthetic_registers(ctx):
        _, rm = real_refmap(sms)
        lines.append("select.refmap " + enc_ms(sms)); meta.append(("refmap", sms, rm))
        ctx.count(("synthetic", json.dumps(sms)), nontrivial=True)
        ctx.bump("synthetic_refmap")
    for s in ["", ",", "a,b", " a , b ,", "a,,b", "\ta\n,b", "a b,c"]:
        from sqlfluff.core.helpers.string import split_comma_separated_string
        lines.append("select.split " + enc_str(s)); meta.append(("split", s, split_comma_separated_string(s)))
    outs = ctx.driver.run(lines)
    for (kind, inp, real), out in zip(meta, outs):
        if kind == "refmap":
            model = dec_refmap(out)
            if model != {k: set(v) for k, v in real.items()}:
                diff = {k: (sorted(model.get(k, [])), sorted(real.get(k, []))) for k in set(model) | set(real) if model.get(k) != set(real.get(k, []))}
                ctx.corr_fail("rule_reference_map", {"manifests": inp if len(inp) < 6 else "live", "diff(model,real)": dict(list(diff.items())[:5])})
        elif kind == "select":
            if dec_strs(out) != real:
                ctx.corr_fail("get_rulepack selection", {"allow_deny": inp, "real": real, "model": dec_strs(out)})
        else:
            if dec_strs(out) != real:
                ctx.corr_fail("split_comma_separated_string", {"s": inp, "real": real, "model": dec_strs(out)})
    e2e(ctx, ms)


def e2e(ctx, ms):
    """Only selected rules report; each rule reports the same alone as among others (lint mode)."""
    from sqlfluff.core import FluffConfig, Linter
    rng = ctx.rng
    codes = [m["code"] for m in ms]
    special = {"PRS", "LXR", "TMP"}
    for _ in range(ctx.budget(12, 150)):
        sql = gen.sql_file(rng)
        sel = sorted(rng.sample(codes, rng.randint(1, 6)))
        try:
            full = Linter(config=FluffConfig(overrides={"dialect": "ansi"})).lint_string(sql)
            part = Linter(config=FluffConfig(overrides={"dialect": "ansi", "rules": ",".join(sel)})).lint_string(sql)
        except Exception:
            ctx.bump("e2e_raised"); continue
        sig = lambda v: (v.rule_code(), v.line_no, v.line_pos, v.desc())
        fullv = [sig(v) for v in full.get_violations(filter_warning=False)]
        partv = [sig(v) for v in part.get_violations(filter_warning=False)]
        ctx.count(("e2e", sql, tuple(sel)), nontrivial=bool(partv), sample={"sql": sql, "rules": sel, "violations": partv[:4]} if partv and len(ctx.samples) < 6 else None)
        stray = [v for v in partv if v[0] not in sel and v[0] not in special]
        if stray:
            ctx.violation("a rule outside the selection reported a violation", {"sql": sql, "rules": sel, "stray": stray[:3]})
        want = sorted(v for v in fullv if v[0] in sel)
        got = sorted(v for v in partv if v[0] in sel)
        ctx.contract("CrawlPure", want == got, {"sql": sql, "rules": sel, "alone": got[:5], "among_all": want[:5]})
        if want != got:
            ctx.violation("in lint mode a rule's violations depend on which other rules are enabled",
                          {"sql": sql, "rules": sel, "only_with_selection": [v for v in got if v not in want][:3], "only_with_all": [v for v in want if v not in got][:3]})


def search(ctx):
    saved = (list(ctx.proof_broken), list(ctx.corr_broken), list(ctx.contract_fail))
    run(ctx, prove=False)
    ctx.proof_broken, ctx.corr_broken, ctx.contract_fail = saved


def replay(ctx, path):
    case = json.load(open(path))["case"]
    print(json.dumps(case, indent=1))
    return 0
