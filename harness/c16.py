"""C16 — fixes preserve query results.

Theorems: Props/C16.lean over Model/Sql3VL.lean: the expression rewrites made by ST01/ST02/ST04/CV01/CV02/ST09 are
equivalences under three-valued logic for every row; CV05's rewrite is not (witness) — which is why the property excludes it.

Tie: (a) the Lean evaluator is corresponded with SQLite on generated expressions x rows over {NULL,-1,0,1,2};
(b) contract RewriteShape: each modelled rule, run alone on the left-hand form, emits the right-hand form the theorem is about;
(c) the statement itself by differential execution: generated executable queries (joins, grouping, CTEs, set operations,
subqueries, every fixable anti-pattern the rules know) over a fixed schema with random contents are fixed with all rules
except ST06 and CV05 (sqlite dialect) and executed in SQLite before and after — the fixed query must run and return the same
multiset of rows. A failure is attributed to the single rule that reproduces it (known findings are keyed by that rule).
"""
import json
import re
import sqlite3
import sys

from vlib.core import enc_nats

PROP = "C16"
NULL = 1000000
EXCLUDED = "ST06,CV05"

# ---------------------------------------------------------------------------------------------
# (a) evaluator vs SQLite

def gen_expr(rng, depth=0):
    """-> (sql text, prefix code)"""
    r = rng.random()
    if depth > 3 or r < 0.3:
        k = rng.random()
        if k < 0.45:
            i = rng.randrange(3)
            return "c%d" % i, [3, i]
        if k < 0.6:
            return "NULL", [2]
        n = rng.choice([0, 1, 2, 1, 0])
        if rng.random() < 0.2:
            return "(-%d)" % n, [1, n]
        return str(n), [0, n]
    def sub():
        return gen_expr(rng, depth + 1)
    if r < 0.55:
        op, code = rng.choice([("=", 4), ("<>", 5), ("!=", 5), ("<", 6), ("+", 7), ("AND", 8), ("OR", 9)])
        (a, ca), (b, cb) = sub(), sub()
        return "(%s %s %s)" % (a, op, b), [code] + ca + cb
    if r < 0.65:
        a, ca = sub()
        return "(NOT %s)" % a, [10] + ca
    if r < 0.75:
        a, ca = sub()
        return ("(%s IS NULL)" % a, [11] + ca) if rng.random() < 0.5 else ("(%s IS NOT NULL)" % a, [12] + ca)
    if r < 0.85:
        (a, ca), (b, cb) = sub(), sub()
        return ("COALESCE(%s, %s)" % (a, b), [13] + ca + cb) if rng.random() < 0.5 else ("IFNULL(%s, %s)" % (a, b), [14] + ca + cb)
    # CASE with 1-2 WHENs and optional ELSE
    (c1, cc1), (x1, cx1) = sub(), sub()
    if rng.random() < 0.4:
        (c2, cc2), (x2, cx2) = sub(), sub()
        if rng.random() < 0.6:
            e, ce = sub()
            return "CASE WHEN %s THEN %s WHEN %s THEN %s ELSE %s END" % (c1, x1, c2, x2, e), [15] + cc1 + cx1 + [15] + cc2 + cx2 + ce
        return "CASE WHEN %s THEN %s WHEN %s THEN %s END" % (c1, x1, c2, x2), [15] + cc1 + cx1 + [15] + cc2 + cx2 + [2]
    if rng.random() < 0.6:
        e, ce = sub()
        return "CASE WHEN %s THEN %s ELSE %s END" % (c1, x1, e), [15] + cc1 + cx1 + ce
    return "CASE WHEN %s THEN %s END" % (c1, x1), [15] + cc1 + cx1 + [2]


def evaluator_correspondence(ctx, n):
    rng = ctx.rng
    con = sqlite3.connect(":memory:")
    lines, meta = [], []
    vals = [None, -1, 0, 1, 2]
    for _ in range(n):
        sql, code = gen_expr(rng)
        row = [rng.choice(vals) for _ in range(3)]
        try:
            got = con.execute("SELECT %s FROM (SELECT ? AS c0, ? AS c1, ? AS c2)" % sql, row).fetchone()[0]
        except Exception as e:
            ctx.bump("sqlite_expr_error"); continue
        lines.append("sql.eval %s %s" % (enc_nats(code), ",".join(str(NULL if v is None else v) for v in row)))
        meta.append((sql, row, "NULL" if got is None else str(int(got))))
    outs = ctx.driver.run(lines)
    for (sql, row, real), out in zip(meta, outs):
        ctx.count(("expr", sql, tuple(row)), nontrivial=len(sql) > 12)
        ctx.bump("expr_evals")
        if out.strip() != real:
            ctx.corr_fail("Lean 3VL evaluator vs SQLite", {"expr": sql, "row": row, "model": out, "sqlite": real})


# ---------------------------------------------------------------------------------------------
# (b) rewrite shapes

SHAPES = [
    ("ST02", "SELECT CASE WHEN a > 1 THEN TRUE ELSE FALSE END AS v FROM t1\n", r"(?i)coalesce\(\s*a > 1\s*,\s*false\s*\)"),
    ("ST02", "SELECT CASE WHEN a > 1 THEN FALSE ELSE TRUE END AS v FROM t1\n", r"(?i)not coalesce\(\s*a > 1\s*,\s*false\s*\)"),
    ("ST02", "SELECT CASE WHEN a IS NULL THEN b ELSE a END AS v FROM t1\n", r"(?i)coalesce\(\s*a\s*,\s*b\s*\)"),
    ("ST02", "SELECT CASE WHEN a IS NOT NULL THEN a ELSE b END AS v FROM t1\n", r"(?i)coalesce\(\s*a\s*,\s*b\s*\)"),
    ("ST01", "SELECT CASE WHEN a > 1 THEN b ELSE NULL END AS v FROM t1\n", r"(?i)case\s+when a > 1 then b\s+end"),
    ("ST04", "SELECT CASE WHEN a = 1 THEN 10 ELSE CASE WHEN a = 2 THEN 20 ELSE 30 END END AS v FROM t1\n", r"(?is)case\s+when a = 1 then 10\s+when a = 2 then 20\s+else 30\s*end"),
    ("CV02", "SELECT IFNULL(a, b) AS v FROM t1\n", r"(?i)coalesce\(a, b\)"),
    ("CV01", "SELECT a FROM t1 WHERE a != b AND a <> 1\n", r"a != b AND a != 1"),
    ("ST09", "SELECT t1.a FROM t1 INNER JOIN t2 ON t2.a = t1.a\n", r"(?i)on t1\.a = t2\.a"),
    ("ST08", "SELECT DISTINCT(a) FROM t1\n", r"(?i)select distinct a from"),
]


def shape_contract(ctx):
    import sqlfluff
    for rule, sql, pat in SHAPES:
        try:
            out = sqlfluff.fix(sql, dialect="sqlite", rules=[rule])
        except Exception as e:
            out = "RAISED %r" % (e,)
        ctx.count(("shape", rule, sql), nontrivial=True)
        ctx.contract("RewriteShape", bool(re.search(pat, out)), {"rule": rule, "sql": sql, "fixed": out, "expected_pattern": pat})


# ---------------------------------------------------------------------------------------------
# (c) differential execution

SCHEMA = ["CREATE TABLE t1 (a INTEGER, b INTEGER, c TEXT)", "CREATE TABLE t2 (a INTEGER, d INTEGER)", "CREATE TABLE t3 (x INTEGER, y TEXT)"]


def make_db(rng):
    con = sqlite3.connect(":memory:")
    for s in SCHEMA:
        con.execute(s)
    iv = lambda: rng.choice([None, 0, 1, 1, 2, 3, -1])
    tv = lambda: rng.choice([None, "x", "y", "X", "", "abc"])
    for _ in range(rng.randint(0, 7)):
        con.execute("INSERT INTO t1 VALUES (?, ?, ?)", (iv(), iv(), tv()))
    for _ in range(rng.randint(0, 6)):
        con.execute("INSERT INTO t2 VALUES (?, ?)", (iv(), iv()))
    for _ in range(rng.randint(0, 5)):
        con.execute("INSERT INTO t3 VALUES (?, ?)", (iv(), tv()))
    return con


def gen_query(rng):
    kw = lambda s: s if rng.random() < 0.6 else s.lower()
    sp = lambda: rng.choice([" ", " ", "  ", "\n", "\n    "])
    def scalar(tbl, d=0):
        cols = {"t1": ["a", "b"], "t2": ["a", "d"], "t3": ["x"]}[tbl]
        q = (lambda c: "%s.%s" % (tbl, c)) if rng.random() < 0.5 else (lambda c: c)
        r = rng.random()
        c = q(rng.choice(cols))
        if d > 1 or r < 0.3:
            return c
        if r < 0.38:
            return "IFNULL(%s, %d)" % (c, rng.randint(0, 2))
        if r < 0.46:
            return "CASE WHEN %s > 1 THEN %s ELSE NULL END" % (c, scalar(tbl, d + 1))
        if r < 0.54:
            return "CASE WHEN %s IS NULL THEN 0 ELSE %s END" % (c, c)
        if r < 0.6:
            return "CASE WHEN %s = 1 THEN 10 ELSE CASE WHEN %s = 2 THEN 20 ELSE 30 END END" % (c, c)
        if r < 0.66:
            return "CASE WHEN %s > 0 THEN TRUE ELSE FALSE END" % c
        if r < 0.74:
            return "%s%s+%s%s" % (c, rng.choice(["", " "]), rng.choice(["", " "]), scalar(tbl, d + 1))
        if r < 0.8:
            return "(%s)" % scalar(tbl, d + 1)
        if r < 0.86:
            return "coalesce(%s,%s)" % (c, scalar(tbl, d + 1))
        return "%s * 2" % c
    def cond(tbl):
        c = scalar(tbl, 1)
        return rng.choice(["%s > 0", "%s <> 1", "%s != 2", "%s IS NOT NULL", "%s IN (1, 2)", "NOT %s = 1", "%s = 1 OR %s IS NULL" , "%s BETWEEN 0 AND 2", "(%s < 3)"]).replace("%s", c)
    def select_core(tbl=None, agg=None):
        tbl = tbl or rng.choice(["t1", "t1", "t2", "t3"])
        alias = rng.choice(["", "", " AS z", " z"]) if rng.random() < 0.3 else ""
        n = rng.randint(1, 3)
        items = []
        for i in range(n):
            e = scalar(tbl)
            al = rng.choice(["", "", " AS v%d" % i, " v%d" % i, " as V%d" % i])
            items.append(e + al)
        sel = kw("SELECT") + rng.choice([" ", " ", "  ", " DISTINCT ", "\n    "]) + rng.choice([", ", ",", " ,", ",\n    "]).join(items)
        frm = sp() + kw("FROM") + " " + tbl + alias
        join = ""
        if tbl == "t1" and not alias and rng.random() < 0.4:
            jt = rng.choice(["JOIN", "INNER JOIN", "LEFT JOIN", "LEFT OUTER JOIN", "CROSS JOIN"])
            if jt == "CROSS JOIN":
                join = sp() + kw(jt) + " t3"
            else:
                join = sp() + kw(jt) + " t2 " + rng.choice(["ON t2.a = t1.a", "ON t1.a = t2.a", "USING (a)", "ON t1.a = t2.a AND t2.d > 0", "ON t2.d = t1.b",
                                                           "ON t2.a = t1.a + 1", "ON t2.d < t1.b - 1", "ON t2.a = t1.a AND t2.d >= t1.b + 1", "ON t2.d > t1.b * 2",
                                                           "ON t2.a = t1.a - t1.b", "ON t2.a <> t1.a OR t2.d = t1.b", "ON t2.a = coalesce(t1.a, 0)", "ON t2.a + 1 = t1.a"])
                items2 = [("t1." + i if re.fullmatch(r"[ab]", i.split(" ")[0]) else i) for i in items]
                # ambiguous unqualified `a` would not run; the query is skipped then
        where = (sp() + kw("WHERE") + " " + cond(tbl)) if rng.random() < 0.5 else ""
        group = ""
        if rng.random() < 0.2 and not join:
            g = {"t1": "a", "t2": "a", "t3": "x"}[tbl]
            sel = kw("SELECT") + " " + g + ", " + rng.choice(["count(*)", "COUNT(1)", "count(0)", "sum(%s)" % g, "max(%s) AS m" % g])
            group = sp() + kw("GROUP BY") + " " + rng.choice([g, "1"])
            if rng.random() < 0.3:
                group += sp() + kw("HAVING") + " count(*) > 0"
        return sel + frm + join + where + group
    r = rng.random()
    if r < 0.5:
        q = select_core()
    elif r < 0.65:
        a = select_core("t1"); b = select_core("t2")
        q = "%s\n%s\n%s" % (kw("SELECT") + " a FROM t1", rng.choice(["UNION", "UNION ALL", "EXCEPT", "INTERSECT"]), kw("SELECT") + " a FROM t2")
        if rng.random() < 0.5:
            q = "SELECT a,b FROM t1 WHERE a > 0 %s SELECT a, d FROM t2" % rng.choice(["UNION", "UNION ALL"])
    elif r < 0.8:
        inner = select_core("t1")
        q = "WITH cte AS (%s)%s%s\nSELECT * FROM cte" % (inner, rng.choice(["", ",\nunused AS (SELECT 1 AS one)"]), "")
        if rng.random() < 0.4:
            q = "WITH cte AS (SELECT a, b FROM t1) SELECT cte.a, t2.d FROM cte JOIN t2 ON t2.a = cte.a"
    elif r < 0.9:
        q = rng.choice(["SELECT a FROM t1 WHERE a IN (SELECT a FROM t2 WHERE d > 0)", "SELECT t1.a FROM t1 WHERE EXISTS (SELECT 1 FROM t2 WHERE t2.a = t1.a)",
                        "SELECT sq.a, sq.b FROM (SELECT a, b FROM t1 WHERE b > 0) AS sq", "SELECT a FROM (SELECT a FROM t1) x WHERE a > 0",
                        "SELECT t1.a FROM t1 JOIN (SELECT a FROM t2) AS s2 ON s2.a = t1.a", "SELECT (SELECT max(d) FROM t2) AS m, a FROM t1"])
    else:
        q = rng.choice(["SELECT a, b FROM t1 ORDER BY a, b", "SELECT a FROM t1 ORDER BY a DESC, b LIMIT 3", "SELECT DISTINCT(a) FROM t1", "SELECT a, count(*) FROM t1 GROUP BY 1 ORDER BY 1",
                        "SELECT t1.a, t2.d FROM t1, t2 WHERE t1.a = t2.a", "SELECT a FROM t1 WHERE c = 'x' OR c = \"y\"", "SELECT foo.a FROM t1 AS foo INNER JOIN t2 AS bar ON bar.a = foo.a",
                        "SELECT a AS a, b AS B FROM t1", "select A, B from T1 where C = 'X'", "SELECT t1.a FROM t1 JOIN t2 ON t2.a = t1.a JOIN t3 ON t3.x = t2.d"])
    if rng.random() < 0.25:
        # aliases that are referenced, in varying letter case (identifiers are case-insensitive)
        q = rng.choice(["SELECT x.a FROM t1 AS X", "SELECT x.a, Y.d FROM t1 AS x JOIN t2 AS y ON X.a = y.a", "SELECT a FROM t1 AS x ORDER BY X.b",
                        "SELECT x.a FROM t1 AS x WHERE EXISTS (SELECT 1 FROM t2 AS Z WHERE z.a = x.a)", "SELECT T1.a, t1.b FROM t1 WHERE T1.a > 0",
                        "SELECT q.A, Q.b FROM (SELECT a, b FROM t1) AS q", "WITH Cte AS (SELECT a FROM t1) SELECT cte.a FROM CTE", "SELECT a AS Total FROM t1 ORDER BY total"])
    if rng.random() < 0.3:
        # letter-case jitter of unquoted words, occurrence by occurrence
        def jit(m):
            w = m.group(0)
            r_ = rng.random()
            return w.upper() if r_ < 0.15 else (w.lower() if r_ < 0.3 else w)
        parts = re.split(r"('[^']*'|\"[^\"]*\")", q)
        q = "".join(p_ if i % 2 else re.sub(r"[A-Za-z_][A-Za-z_0-9]*", jit, p_) for i, p_ in enumerate(parts))
    return q + rng.choice(["\n", "", ";\n", "\n\n"])


def run_q(con, sql):
    try:
        rows = con.execute(sql.strip().rstrip(";")).fetchall()
        return ("ok", sorted(repr(r) for r in rows))
    except Exception as e:
        return ("error", "%s: %s" % (type(e).__name__, str(e)[:120]))


def _fix(job):
    import logging
    logging.disable(logging.CRITICAL)
    import sqlfluff
    sql, rules, excl = job
    try:
        kw = {"dialect": "sqlite"}
        if rules:
            kw["rules"] = rules
        else:
            kw["exclude_rules"] = excl.split(",")
        return {"fixed": sqlfluff.fix(sql, **kw)}
    except BaseException as e:  # noqa
        return {"raised": "%s: %s" % (type(e).__name__, str(e)[:200])}
    finally:
        if hasattr(sys, "tracebacklimit"):
            del sys.tracebacklimit


def differential(ctx, n):
    from vlib.par import robust_map
    from sqlfluff.core import Linter, FluffConfig
    rng = ctx.rng
    qs = []
    seen = set()
    while len(qs) < n:
        q = gen_query(rng)
        if q not in seen:
            seen.add(q); qs.append(q)
    fixed = robust_map(_fix, [(q, None, EXCLUDED) for q in qs], 14, 200)
    all_codes = [r.code for r in Linter(config=FluffConfig(overrides={"dialect": "sqlite"})).get_rulepack().rules if r.code not in EXCLUDED.split(",")]
    for q, fr in zip(qs, fixed):
        if "fixed" not in fr:
            ctx.bump("fix_failed"); continue
        f = fr["fixed"]
        seed = rng.getrandbits(32)
        import random
        con = make_db(random.Random(seed))
        before = run_q(con, q)
        if before[0] != "ok":
            ctx.bump("not_executable"); continue
        ctx.count(("q", q), nontrivial=f != q, sample={"query": q, "fixed": f} if len(ctx.samples) < 4 and f != q else None)
        ctx.bump("executed"); ctx.bump("changed_by_fix" if f != q else "unchanged_by_fix")
        if before[1]:
            ctx.bump("non_empty_results")
        if f == q:
            continue
        after = run_q(con, f)
        # a second database: same comparison on other contents
        if after == before:
            con2 = make_db(random.Random(seed + 1))
            before, after = run_q(con2, q), run_q(con2, f)
            if before[0] != "ok":
                continue
        if after != before:
            # attribute to a single rule if one reproduces the difference
            culprit = None
            for code in all_codes:
                r1 = _fix((q, [code], ""))
                if "fixed" in r1 and r1["fixed"] != q:
                    c3 = make_db(random.Random(seed)); b3, a3 = run_q(c3, q), run_q(c3, r1["fixed"])
                    c4 = make_db(random.Random(seed + 1)); b4, a4 = run_q(c4, q), run_q(c4, r1["fixed"])
                    if (b3[0] == "ok" and a3 != b3) or (b4[0] == "ok" and a4 != b4):
                        culprit = code; break
            kind = "no-longer-executes" if after[0] == "error" else "rows-differ"
            key = "rule:%s:%s" % (culprit, kind) if culprit else None
            ctx.violation("the fixed query %s" % ("no longer executes" if after[0] == "error" else "returns different rows"),
                          {"query": q, "fixed": f, "before": before[1][:8] if before[0] == "ok" else before[1], "after": after[1][:8] if after[0] == "ok" else after[1],
                           "rule": culprit, "db_seed": seed}, key=key)


def run(ctx, prove=True):
    ctx.rule = ("generated scalar expressions x rows (Lean evaluator vs SQLite) + rewrite-shape contracts per modelled rule + generated executable queries "
                "(joins, grouping, CTEs, set operations, subqueries, fixable anti-patterns) over a fixed schema with two random databases each, fixed with all rules "
                "except ST06/CV05 and executed before/after; non-trivial = fix changed the query; distinct by query text")
    if prove:
        ctx.prove(["SqlfluffVerif.Props.C16"], ["Props/C16.lean"])
    ctx.assumptions += ["RewriteShape: each modelled rule emits the right-hand form the theorem is stated for (checked on the canonical left-hand forms)"]
    ctx.partial += ["statement-level semantics (joins, grouping, set operations, name resolution) are not modelled: covered by differential execution in SQLite only",
                    "rows are compared as multisets; ORDER BY order is not compared"]
    evaluator_correspondence(ctx, ctx.budget(3000, 60000))
    shape_contract(ctx)
    differential(ctx, ctx.budget(220, 6000))


def search(ctx):
    saved = (list(ctx.proof_broken), list(ctx.corr_broken), list(ctx.contract_fail))
    run(ctx, prove=False)
    ctx.proof_broken, ctx.corr_broken, ctx.contract_fail = saved


def replay(ctx, path):
    import random
    case = json.load(open(path))["case"]
    print(json.dumps(case, indent=1)[:3000])
    if "db_seed" in case:
        con = make_db(random.Random(case["db_seed"]))
        b, a = run_q(con, case["query"]), run_q(con, case["fixed"])
        print(b, a)
        return 1 if a != b else 0
    return 0
