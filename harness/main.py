"""./check entry point."""
import argparse
import importlib
import os
import sys
import traceback
from pathlib import Path

HERE = Path(__file__).resolve().parent
sys.path.insert(0, str(HERE))

from vlib import core  # noqa: E402

import logging  # noqa: E402
logging.disable(logging.CRITICAL)


def setup():
    """Run every translator, then build everything (fresh restore)."""
    from translate import run_all
    run_all()
    ok, out = core.lake_build(["SqlfluffVerif", "driver"])
    print(out[-3000:])
    if not ok:
        return 2
    # pre-build every property module (in parallel); a module that fails here (e.g. a regenerated obligation that no longer
    # holds on a changed repo) is not a set-up failure: its own check rebuilds it and reports what broke
    props = sorted(p.stem for p in (core.LIB / "Props").glob("*.lean"))
    ok2, out2 = core.lake_build(["SqlfluffVerif.Props.%s" % p for p in props] + ["SqlfluffVerif.Gen.GrammarSkel", "SqlfluffVerif.Gen.LayoutEdits"])
    print(out2[-1500:])
    return 0


def main():
    if os.environ.get("VERIF_FAULT"):
        import faulthandler, signal
        faulthandler.register(signal.SIGUSR1, all_threads=True)
    ap = argparse.ArgumentParser()
    ap.add_argument("prop", nargs="?")
    ap.add_argument("--tier", default=os.environ.get("VERIF_TIER", "quick"), choices=["quick", "thorough"])
    ap.add_argument("--replay")
    ap.add_argument("--setup", action="store_true")
    a = ap.parse_args()
    if a.setup:
        sys.exit(setup())
    seed = int(os.environ.get("VERIF_SEED", "0") or 0)
    prop = a.prop.upper()
    try:
        mod = importlib.import_module(prop.lower())
        ctx = core.Ctx(prop, a.tier, seed)
        if a.replay:
            rc = mod.replay(ctx, a.replay)
            sys.exit(rc)
        mod.run(ctx)
        if ctx.broken() and not ctx.spec_fail and hasattr(mod, "search"):
            # failing-input search: deeper budget on the real code
            ctx.escalated = True
            mod.search(ctx)
        rc = ctx.finish(getattr(mod, "LEVEL", "proof"))
        sys.exit(rc)
    except core.InfraError as e:
        print("INFRA-ERROR %s: %s" % (prop, e), file=sys.stderr)
        sys.exit(2)
    except SystemExit:
        raise
    except BaseException:
        traceback.print_exc()
        print("INFRA-ERROR %s: harness crashed" % prop, file=sys.stderr)
        sys.exit(2)


if __name__ == "__main__":
    main()
