"""C20 — noqa directives suppress exactly the specified violations.

Theorems: Props/C20.lean. Tie: Model/Noqa.lean + Model/Glob.lean vs IgnoreMask (mask application,
used flags), IgnoreMask._parse_noqa (comment parsing, glob expansion) and fnmatch; end-to-end files
(including the from_source path taken when parsing fails) with the Lean `hidden` predicate evaluated on
the real directives and the real unmasked violations.
"""
import fnmatch
import itertools
import json

from vlib.core import enc_nats, enc_nnl, enc_str, dec_nats

PROP = "C20"
ACT = {None: 0, "enable": 1, "disable": 2}
CODES = ["A", "B"]


def mk_classes():
    from sqlfluff.core.errors import SQLBaseError
    out = {}
    for c in CODES + ["LT01", "LT02", "PRS", "AL01"]:
        out[c] = type("E_" + c, (SQLBaseError,), {"_code": c})
    return out


def dir_options():
    rules = [None, ("A",), ("B",), ("A", "B")]
    return [(line, act, r) for line in (1, 2, 3) for act in (None, "enable", "disable") for r in rules]


def viol_lists(maxn):
    atoms = [(line, c) for line in (1, 2, 3) for c in CODES]
    for n in range(maxn + 1):
        for t in itertools.product(atoms, repeat=n):
            yield list(t)


def oracle_single_used(dirs, viols):
    """Independent sequential oracle for plain directives: returns set of used directive indices and
    the visible violation indices after the plain directives."""
    alive = list(range(len(viols)))
    used = set()
    for i, (line, act, rules) in enumerate(dirs):
        if act is not None:
            continue
        hit = [k for k in alive if viols[k][0] == line and (rules is None or viols[k][1] in rules)]
        if hit:
            used.add(i)
            alive = [k for k in alive if k not in hit]
    return used, alive


def mask_cases(ctx):
    opts = dir_options()
    vls = list(viol_lists(2))
    for n in (0, 1, 2):
        for ds in itertools.product(opts, repeat=n):
            for vs in vls:
                yield list(ds), vs
    rng = ctx.rng
    for _ in range(ctx.budget(6000, 150000)):
        ds = [rng.choice(opts) for _ in range(rng.randint(3, 5))]
        vs = [(rng.randint(1, 4), rng.choice(CODES)) for _ in range(rng.randint(1, 4))]
        yield ds, vs


def run_mask(ctx):
    from sqlfluff.core.rules.noqa import IgnoreMask, NoQaDirective
    cls = mk_classes()
    lines, meta = [], []
    codeid = {"A": 0, "B": 1}
    for ds, vs in mask_cases(ctx):
        rd = [NoQaDirective(line, 0, rules, act, "r%d" % i) for i, (line, act, rules) in enumerate(ds)]
        rv = [cls[c](description="d", line_no=line, line_pos=1) for (line, c) in vs]
        mask = IgnoreMask(rd)
        vis = mask.ignore_masked_violations(list(rv))
        vis_idx = []
        for v in vis:
            vis_idx.append(next(i for i, x in enumerate(rv) if x is v))
        used = [i for i, d in enumerate(rd) if d.used]
        unused_w = mask.generate_warnings_for_unused()
        if sorted(w.desc() for w in unused_w) != sorted("Unused noqa: 'r%d'" % i for i in range(len(rd)) if i not in used):
            ctx.violation("unused-noqa warnings do not correspond to the directives' used flags", {"dirs": ds, "viols": vs})
        lines.append("noqa.mask %s %s %s %s %s %s" % (
            enc_nats(d[0] for d in ds), enc_nats(ACT[d[1]] for d in ds),
            enc_nats(0 if d[2] is None else 1 for d in ds),
            enc_nnl([codeid[c] for c in (d[2] or ())] for d in ds),
            enc_nats(v[0] for v in vs), enc_nats(codeid[v[1]] for v in vs)))
        meta.append((ds, vs, used, vis_idx))
        nontriv = bool(ds) and bool(vs) and len(vis_idx) < len(vs)
        ctx.count(("mask", ds, vs), nontrivial=nontriv,
                  sample={"directives": ds, "violations": vs, "visible": vis_idx, "used": used} if nontriv and len(ds) > 1 else None)
        ctx.bump("mask_dirs=%d" % min(len(ds), 5))
        # independent oracle for plain directives' used flags
        o_used, _ = oracle_single_used(ds, vs)
        r_used_plain = {i for i in used if ds[i][1] is None}
        if o_used != r_used_plain:
            ctx.violation("a plain noqa directive's used flag differs from 'it hid a violation'",
                          {"dirs": ds, "viols": vs, "real_used": sorted(r_used_plain), "expected": sorted(o_used)})
    outs = ctx.driver.run(lines)
    for (ds, vs, used, vis_idx), out in zip(meta, outs):
        t = out.split(" ")
        m_marks, m_vis, hid = dec_nats(t[0]), dec_nats(t[1]), set(dec_nats(t[2]))
        if m_marks != used or m_vis != vis_idx:
            ctx.corr_fail("ignore_masked_violations", {"dirs": ds, "viols": vs, "real": [used, vis_idx], "model": [m_marks, m_vis]})
        expected_vis = [i for i in range(len(vs)) if i not in hid]
        if expected_vis != vis_idx:
            ctx.violation("visible violations differ from the noqa semantics (hidden predicate)",
                          {"dirs": ds, "viols": vs, "real_visible": vis_idx, "expected_visible": expected_vis})


REFMAP = {
    "LT01": {"LT01"}, "LT02": {"LT02"}, "AL01": {"AL01"},
    "layout.spacing": {"LT01"}, "layout.indent": {"LT02"}, "aliasing.table": {"AL01"},
    "layout": {"LT01", "LT02"}, "all": {"LT01", "LT02", "AL01"}, "core": {"LT01", "AL01"},
    "L001": {"LT01"}, "L011": {"AL01"},
}


def enc_refmap(rm):
    keys = list(rm.keys())
    vals = [sorted(rm[k]) for k in keys]
    return "%s %s %s" % (enc_nnl([ord(c) for c in k] for k in keys), enc_nats(len(v) for v in vals),
                         enc_nnl([ord(c) for c in x] for v in vals for x in v))


def comment_cases(ctx):
    rng = ctx.rng
    refs = ["LT01", "LT02", "AL01", "layout.spacing", "layout", "all", "core", "L001", "LT*", "L?01", "[AL]T01", "L[!T]01",
            "PRS", "TMP", "LXR", "ZZ9", "", "lt01", "*", "layout.*"]
    fixed = ["noqa", "noqa:", "noqa: all", "noqa:LT01", "noqa: LT01,AL01", "noqa: disable=all", "noqa: enable=all",
             "noqa: disable=LT01, LT02", "noqa:disable", "noqa: enable", "noqa : LT01", "noqa LT01", "noqax", "no qa",
             "noqa: disable=", "noqa: foo=LT01", "noqa: disable =all", "noqa: disable= all", "noqa:  PRS  ",
             "some text -- noqa: LT01", "-- noqa", "a --b-- noqa: disable=L*", "noqa: LT01 -- trailing", "noqa:LT01--noqa:AL01",
             "NOQA: LT01", "noqa: LT01,", "noqa: ,", "noqa: all,LT01", "\tnoqa:\tLT01\t", "noqa: LT01 "]
    for c in fixed:
        yield c
    for _ in range(ctx.budget(1500, 30000)):
        parts = []
        if rng.random() < 0.3:
            parts.append(rng.choice(["x ", "-- ", "a--", "---", " "]))
        parts.append(rng.choice(["noqa", "noqa", "noqa", " noqa", "noqa ", "noq"]))
        if rng.random() < 0.9:
            parts.append(rng.choice([":", ":", ": ", " :", ""]))
            if rng.random() < 0.4:
                parts.append(rng.choice(["disable=", "enable=", "disable =", "disable= ", "other=", "disable", "enable"]))
            n = rng.randint(0, 3)
            parts.append(rng.choice([",", ", ", " , "]).join(rng.choice(refs) for _ in range(n)))
        if rng.random() < 0.15:
            parts.append(rng.choice([" ", "--", " -- noqa", "\t"]))
        yield "".join(parts)


def run_parse(ctx):
    from sqlfluff.core.rules.noqa import IgnoreMask, NoQaDirective
    from sqlfluff.core.errors import SQLParseError
    erm = enc_refmap(REFMAP)
    lines, meta = [], []
    for c in comment_cases(ctx):
        r = IgnoreMask._parse_noqa(c, 1, 0, REFMAP)
        if r is None:
            real = "none"
        elif isinstance(r, SQLParseError):
            real = "err"
        else:
            real = ("dir", ACT[r.action], None if r.rules is None else list(r.rules), r.raw_str)
        lines.append("noqa.parse %s %s" % (enc_str(c), erm))
        meta.append((c, real))
        ctx.count(("parse", c), nontrivial=(real != "none"), sample={"comment": c, "parsed": real} if isinstance(real, tuple) and real[2] and len(ctx.samples) < 4 else None)
        ctx.bump("parse_" + (real if isinstance(real, str) else "dir"))
        # property-level oracle (from the statement): every reference expands to the codes of the keys it names or
        # matches as a glob, and a reference that matches nothing is kept literally (so PRS/TMP/LXR keep working)
        if isinstance(real, tuple) and real[2] is not None:
            last = [p.strip() for p in c.split("--")][-1]
            body = last[4:].lstrip(":").strip() if last.startswith("noqa") else ""
            if "=" in body:
                body = body.split("=", 1)[1]
            expect = set()
            for ref in [x.strip() for x in body.split(",")]:
                hits = [k for k in REFMAP if fnmatch.fnmatchcase(k, ref)]
                if hits:
                    for k in hits:
                        expect |= REFMAP[k]
                else:
                    expect.add(ref)
            if set(real[2]) != expect:
                ctx.violation("noqa rule references resolve to the wrong rule set (unmatched references such as PRS/TMP/LXR must be kept)",
                              {"comment": c, "rules": real[2], "expected": sorted(expect)})
    outs = ctx.driver.run(lines)
    for (c, real), out in zip(meta, outs):
        t = out.split(" ")
        if t[0] == "none":
            model = "none"
        elif t[0] == "err":
            model = "err"
        else:
            rules = None if t[2] == "0" else ([] if t[3] == "~" else ["".join(chr(x) for x in dec_nats(s)) for s in t[3].split(";")])
            model = ("dir", int(t[1]), rules, "".join(chr(x) for x in dec_nats(t[4])))
        if model != real:
            ctx.corr_fail("_parse_noqa", {"comment": c, "real": real, "model": model})
        # spec: a reference naming a special error code (matching no key) must survive
        if isinstance(real, tuple) and real[2] is not None:
            pass


def run_glob(ctx):
    alpha_p = ["a", "b", "*", "?", "[", "]", "!", "-"]
    alpha_s = ["a", "b", "-", "]"]
    strings = ["".join(t) for n in range(0, 4) for t in itertools.product(alpha_s, repeat=n)]
    maxp = ctx.budget(3, 4)
    lines, meta = [], []
    for n in range(0, maxp + 1):
        for t in itertools.product(alpha_p, repeat=n):
            p = "".join(t)
            for s in strings:
                real = fnmatch.fnmatchcase(s, p)
                lines.append("glob.match %s %s" % (enc_str(p), enc_str(s)))
                meta.append((p, s, real))
    outs = ctx.driver.run(lines)
    bad = 0
    for (p, s, real), out in zip(meta, outs):
        ctx.count(("glob", p, s), nontrivial=any(ch in p for ch in "*?["))
        if (out == "1") != real:
            bad += 1
            ctx.corr_fail("fnmatch", {"pattern": p, "string": s, "real": real, "model": out})
    ctx.bump("glob_cases", len(meta))


def run_e2e(ctx):
    """Files with violations and noqa comments through the real linter (parsable and unparsable)."""
    from sqlfluff.core import Linter, FluffConfig
    rng = ctx.rng
    stmts = ["SELECT a  FROM t", "select a from t", "SELECT a,b FROM t", "SELECT  1", "SELECT a FROM t WHERE (", "SELECT * FROM t  WHERE a=1"]
    comments = ["", "", " -- noqa", " -- noqa: LT01", " -- noqa: LT01,PRS", " -- noqa: disable=LT*,PRS", " -- noqa: PRS,LT01", " -- noqa: CP01,LT01", " -- noqa: disable=all", " -- noqa: enable=all",
                " -- noqa: disable=LT01", " -- noqa: enable=LT01", " -- noqa: layout.spacing", " -- noqa: L*", " -- noqa: PRS",
                " /* noqa: disable=CP01 */", " /* noqa */", " -- noqa: disable=layout", " -- noqa: ZZ99", " -- noqa: capitalisation"]
    lines, meta = [], []
    for _ in range(ctx.budget(60, 800)):
        n = rng.randint(1, 5)
        pool = stmts if rng.random() < 0.3 else [x for x in stmts if not x.endswith("(")]
        text = "".join(rng.choice(pool) + rng.choice(comments) + ";\n" for _ in range(n))
        base = {"dialect": "ansi"}
        try:
            lf_all = Linter(config=FluffConfig(overrides=dict(base, disable_noqa=True))).lint_string(text)
            lf = Linter(config=FluffConfig(overrides=base)).lint_string(text)
        except Exception:
            ctx.bump("e2e_lint_raised")
            continue
        v_all = lf_all.get_violations(filter_warning=False)
        v_vis = lf.get_violations(filter_warning=False)
        # malformed noqa comments add PRS violations of their own in the second run only
        extra = [v for v in v_vis if "Malformed 'noqa'" in v.desc()]
        v_vis = [v for v in v_vis if v not in extra]
        mask = lf.ignore_mask
        ds = [] if mask is None else list(mask._ignore_list)
        codes = sorted({v.rule_code() for v in v_all} | {r for d in ds for r in (d.rules or ())})
        cid = {c: i for i, c in enumerate(codes)}
        key = lambda v: (v.rule_code(), v.line_no, v.line_pos, v.desc())
        lines.append("noqa.mask %s %s %s %s %s %s" % (
            enc_nats(d.line_no for d in ds), enc_nats(ACT[d.action] for d in ds),
            enc_nats(0 if d.rules is None else 1 for d in ds),
            enc_nnl([cid[c] for c in (d.rules or ())] for d in ds),
            enc_nats(v.line_no for v in v_all), enc_nats(cid[v.rule_code()] for v in v_all)))
        meta.append((text, [key(v) for v in v_all], [key(v) for v in v_vis], [(d.line_no, d.action, d.rules) for d in ds]))
        ctx.bump("e2e_unparsable" if any(v.rule_code() == "PRS" for v in v_all) else "e2e_parsable")
    outs = ctx.driver.run(lines)
    for (text, all_k, vis_k, ds), out in zip(meta, outs):
        hid = set(dec_nats(out.split(" ")[2]))
        expected = [k for i, k in enumerate(all_k) if i not in hid]
        nontriv = len(vis_k) < len(all_k)
        ctx.count(("e2e", text), nontrivial=nontriv, sample={"file": text, "all": len(all_k), "visible": len(vis_k)} if nontriv and len(ctx.samples) < 6 else None)
        if sorted(expected) != sorted(vis_k):
            ctx.violation("linted file: visible violations differ from the noqa semantics",
                          {"file": text, "directives": ds, "missing": [k for k in expected if k not in vis_k][:5],
                           "unexpected": [k for k in vis_k if k not in expected][:5]})


def run(ctx, prove=True):
    ctx.rule = ("mask: all directive lists of length<=2 (3 lines x 3 actions x 4 rule sets) x all violation lists of length<=2, plus "
                "random longer; parse: fixed + generated comments against a reference map with codes/names/groups/aliases/globs; glob: all "
                "patterns over {a,b,*,?,[,],!,-} up to a length bound x strings over {a,b,-,]} up to 3; e2e: generated files with noqa "
                "comments; non-trivial = something was hidden / parsed / pattern has a metacharacter")
    if prove:
        ctx.prove(["SqlfluffVerif.Props.C20"], ["Props/C20.lean"])
    ctx.assumptions += ["sorted() stable; SQLBaseError equality is content equality (so `v not in matched` = `not matched`)",
                        "fnmatch semantics modelled for *, ?, [seq], [!seq], ranges; tied by exhaustive small-scope correspondence"]
    ctx.partial += ["'used' for enable/disable directives follows the code's own rule (correspondence only; DESIGN §10)"]
    run_mask(ctx)
    run_parse(ctx)
    run_glob(ctx)
    run_e2e(ctx)


def search(ctx):
    saved = (list(ctx.proof_broken), list(ctx.corr_broken), list(ctx.contract_fail))
    run(ctx, prove=False)
    ctx.proof_broken, ctx.corr_broken, ctx.contract_fail = saved


def replay(ctx, path):
    case = json.load(open(path))["case"]
    print(json.dumps(case, indent=1))
    return 0
