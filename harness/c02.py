"""C02 — parsing is lossless: tree leaves are exactly the lexed tokens.

Theorems: Props/C02.lean (MatchResult.apply materialisation for every well-formed match tree).
Tie: Model/MatchResult.lean vs MatchResult.apply/append/wrap and BaseFileSegment.root_parse on generated
match trees (well-formed and ill-formed) and on every real root match of real parses; the contract GrammarWF
(every root match returned by a dialect grammar is well-formed and starts at the requested index) is
evaluated in Lean on every real root match; Spec.C02 (leaves = tokens) on every final tree.
"""
import json
import re

from vlib.core import enc_nats
from vlib import gen, mrgen

PROP = "C02"


def mk_tokens(n):
    from sqlfluff.core import Lexer, FluffConfig
    s = "".join("1+"[i % 2] for i in range(n))
    toks, _ = Lexer(config=FluffConfig(overrides={"dialect": "ansi"})).lex(s)
    toks = tuple(t for t in toks if not t.is_type("end_of_file"))
    assert len(toks) == n and all(len(t.raw) == 1 for t in toks)
    return toks


_CLS = {}


def test_classes():
    from sqlfluff.core.parser.segments.base import BaseSegment
    if not _CLS:
        for k in range(3):
            _CLS[k] = type("S%d" % k, (BaseSegment,), {"type": "s%d" % k, "can_start_end_non_code": True})
    return _CLS


def mk_real_mr(mr):
    from sqlfluff.core.parser.match_result import MatchResult
    from sqlfluff.core.parser.segments.meta import Indent, Dedent
    s, e, cls, ins, ch = mr
    return MatchResult(slice(s, e), matched_class=None if cls is None else test_classes()[cls],
                       insert_segments=tuple((i, [Indent, Dedent][k]) for (i, k) in ins),
                       child_matches=tuple(mk_real_mr(c) for c in ch))


def ser_tree(seg, tokidx, clsid, posmap=None):
    """Real segment → wire format."""
    if id(seg) in tokidx:
        return "t%d" % tokidx[id(seg)]
    if seg.is_meta and not seg.segments:
        kind = {"indent": 0, "dedent": 1}.get(seg.get_type(), 9)
        if getattr(seg, "indent_val", None) == 1 and type(seg).__name__ == "ImplicitIndent":
            kind = 2
        p = seg.pos_marker.templated_slice.start
        return "m%d@%d" % (kind, posmap.get(p, p) if posmap else p)
    if not seg.segments:
        return "raw?%s" % seg.raw
    return "(%d %s)" % (clsid(type(seg)), " ".join(ser_tree(c, tokidx, clsid, posmap) for c in seg.segments))


def synthetic(ctx):
    from sqlfluff.core.parser.match_result import MatchResult
    rng = ctx.rng
    n = 8
    toks = mk_tokens(n)
    tokidx = {id(t): i for i, t in enumerate(toks)}
    cls = test_classes()
    clsid = lambda c: next(k for k, v in cls.items() if v is c)
    lines, meta = [], []
    for k in range(ctx.budget(3000, 60000)):
        wf = rng.random() < 0.7
        a = rng.randint(0, n); b = rng.randint(a, n)
        mr = mrgen.gen_mr(rng, a, b, 0, wf)
        flat = enc_nats(mrgen.flat(mr))
        try:
            real_mr = mk_real_mr(mr)
        except AssertionError:
            ctx.bump("post_init_assert")
            continue
        try:
            res = real_mr.apply(toks)
            real = "ok" + "".join(" " + ser_tree(s, tokidx, clsid) for s in res)
            leaves = [tokidx[id(x)] for s in res for x in (s.raw_segments if s.segments or not s.is_meta else []) if id(x) in tokidx]
        except (AssertionError, ValueError, IndexError):
            real, leaves = "err", None
        lines.append("mr.apply %d %s" % (n, flat)); meta.append(("apply", mr, real))
        lines.append("mr.wf %d %s" % (n, flat)); meta.append(("wf", mr, (real, leaves)))
        ctx.count(("syn", flat), nontrivial=len(mr[4]) > 0, sample={"match": mr, "applied": real} if len(mr[4]) > 1 and len(ctx.samples) < 3 else None)
        ctx.bump("syn_" + real.split(" ")[0])
        # append / wrap
        if rng.random() < 0.4:
            c = rng.randint(b, n); d = rng.randint(c, n)
            mr2 = mrgen.gen_mr(rng, c, d, 1, True)
            try:
                r2 = mk_real_mr(mr2)
                extra = [(b, 0)] if rng.random() < 0.3 else []
                from sqlfluff.core.parser.segments.meta import Indent
                out = real_mr.append(r2, insert_segments=tuple((i, Indent) for (i, _) in extra))
                realo = enc_nats(mrgen.flat(unreal_mr(out, clsid)))
            except AssertionError:
                realo = "err"
            lines.append("mr.append %s %s %s" % (flat, enc_nats(mrgen.flat(mr2)), enc_nats([x for p in extra for x in p]) if extra else "-"))
            meta.append(("append", (mr, mr2), realo))
        if rng.random() < 0.3:
            try:
                out = real_mr.wrap(cls[1])
                realo = enc_nats(mrgen.flat(unreal_mr(out, clsid)))
            except AssertionError:
                realo = "err"
            lines.append("mr.wrap %s 1 -" % flat); meta.append(("wrap", mr, realo))
    return lines, meta


def unreal_mr(m, clsid):
    from sqlfluff.core.parser.segments.meta import Indent
    return (m.matched_slice.start, m.matched_slice.stop, None if m.matched_class is None else clsid(m.matched_class),
            [(i, 0 if k is Indent else 1) for (i, k) in m.insert_segments], [unreal_mr(c, clsid) for c in m.child_matches])


def root_parse_corr(ctx):
    """root_parse with a stub grammar returning prescribed match results."""
    from sqlfluff.core.parser.segments.file import BaseFileSegment
    from sqlfluff.core.parser.context import ParseContext
    from sqlfluff.core.parser.segments.base import UnparsableSegment
    from sqlfluff.core import Lexer, FluffConfig
    rng = ctx.rng
    cfg = FluffConfig(overrides={"dialect": "ansi"})
    lexer = Lexer(config=cfg)
    cls = test_classes()
    lines, meta = [], []
    for _ in range(ctx.budget(400, 8000)):
        n = rng.randint(1, 7)
        s = "".join(rng.choice(["1", "+", " ", "\n"]) for _ in range(n))
        toks, _ = lexer.lex(s)
        toks = tuple(toks)  # includes end_of_file
        codes = [1 if t.is_code else 0 for t in toks]
        first = next((i for i, c in enumerate(codes) if c), len(toks) - 1)
        # the grammar is called with segments[:end] and idx = first code token
        holder = {}

        class Stub:
            def match(self, segments, idx, parse_context):
                holder["end"] = len(segments); holder["idx"] = idx
                r = rng.random()
                if r < 0.15:
                    mr = (idx, idx, None, [], [])
                else:
                    stop = rng.randint(idx, len(segments))
                    mr = mrgen.gen_mr(rng, idx, stop, 1, True)
                    if r > 0.9 and stop - idx > 1:
                        mr = mrgen.gen_mr(rng, idx + 1, stop, 1, True)  # violates MatchStartsAtIdx
                holder["mr"] = mr
                return mk_real_mr(mr)

            def __str__(self):
                return "stub"
        F = type("StubFile", (BaseFileSegment,), {"match_grammar": Stub(), "get_table_references": lambda self: set()})
        clsid = lambda c: 0 if c is F else (1 if c is UnparsableSegment else next(k for k, v in cls.items() if v is c) + 10)
        tokidx = {id(t): i for i, t in enumerate(toks)}
        try:
            tree = F.root_parse(toks, ParseContext.from_config(cfg))
            posmap = {}
            for i, t in enumerate(toks):
                posmap.setdefault(t.pos_marker.templated_slice.start, i)
            real = "ok " + ser_tree(tree, tokidx, clsid, posmap)
        except (AssertionError, ValueError, IndexError):
            real = "err"
        if "mr" not in holder:
            mr = (0, 0, None, [], [])
        else:
            mr = holder["mr"]
        # shift class ids by 10 on the wire so they do not clash with file=0 / unparsable=1
        def shift(m):
            return (m[0], m[1], None if m[2] is None else m[2] + 10, m[3], [shift(c) for c in m[4]])
        lines.append("mr.root %s %s" % (enc_nats(codes), enc_nats(mrgen.flat(shift(mr)))))
        meta.append(("root", (s, mr), real))
        ctx.count(("root", s, json.dumps(mr)), nontrivial=len(mr[4]) > 0)
        ctx.bump("root_" + real.split(" ")[0])
        # Spec on the real result: leaves = tokens, unless the stub violated MatchStartsAtIdx
        if real.startswith("ok"):
            leaves = [tokidx.get(id(x)) for x in tree.raw_segments if not (x.is_meta and id(x) not in tokidx)]
            starts_ok = (mr[0] == holder.get("idx", mr[0])) or mr[0] == mr[1]
            if leaves != list(range(len(toks))) and starts_ok:
                lines.append("mr.wf %d %s" % (len(toks), enc_nats(mrgen.flat(mr))))
                meta.append(("rootspec", {"text": s, "match": mr, "leaves": leaves}, None))
    return lines, meta


def serial_real_mr(m, classes, metas):
    cid = None if m.matched_class is None else classes.setdefault(m.matched_class, len(classes))
    return (m.matched_slice.start, m.matched_slice.stop, cid,
            [(i, metas(k)) for (i, k) in m.insert_segments], [serial_real_mr(c, classes, metas) for c in m.child_matches])


def real_parses(ctx):
    """Every real root match of real parses: model apply vs real apply, GrammarWF contract, Spec.C02."""
    from sqlfluff.core import Linter, FluffConfig
    from sqlfluff.core.parser.match_result import MatchResult
    from sqlfluff.core.parser.segments.raw import RawSegment
    import sqlfluff.core.parser.segments.file as filemod
    rng = ctx.rng
    files = gen.fixture_files()
    rng.shuffle(files)
    cases = []
    for d, f in files[: ctx.budget(40, 10 ** 6)]:
        txt = f.read_text(encoding="utf-8")
        cases.append((d, f.name, txt))
        if rng.random() < 0.5:
            cases.append((d, f.name + "#mut", gen.mutate_sql(rng, txt)))
    for _ in range(ctx.budget(30, 400)):
        cases.append(("ansi", "gen", gen.sql_file(rng)))
    lines, meta = [], []
    depth = {"d": 0}
    captured = []
    orig_apply = MatchResult.apply

    def spy(self, segments, parse_context=None):
        depth["d"] += 1
        try:
            res = orig_apply(self, segments, parse_context=parse_context)
        finally:
            depth["d"] -= 1
        if depth["d"] == 0:
            captured.append((self, segments, res))
        return res
    MatchResult.apply = spy
    try:
        linters = {}
        for (d, name, txt) in cases:
            captured.clear()
            lnt = linters.setdefault(d, Linter(config=FluffConfig(overrides={"dialect": d})))
            try:
                parsed = lnt.parse_string(txt)
            except Exception as e:
                ctx.bump("parse_raised")
                continue
            finally:
                import sys
                if hasattr(sys, "tracebacklimit"):
                    del sys.tracebacklimit
            for v in parsed.parsed_variants:
                if v.tree is None:
                    continue
                toks = [s for s in v.lexed_tokens] if hasattr(v, "lexed_tokens") else None
            for (mr, segs, res) in captured:
                classes = {}
                metas = lambda k: {"Indent": 0, "Dedent": 1, "ImplicitIndent": 2}.get(k.__name__, 9)
                ser = serial_real_mr(mr, classes, metas)
                raw_ids = {cid for c, cid in classes.items() if issubclass(c, RawSegment)}
                n = len(segs)
                tokidx = {id(t): i for i, t in enumerate(segs)}
                posidx = {}
                for i, t in enumerate(segs):
                    posidx.setdefault((t.pos_marker.templated_slice.start, t.pos_marker.templated_slice.stop,
                                       t.pos_marker.source_slice.start, t.pos_marker.source_slice.stop, t.raw), i)

                def ser_real(seg):
                    if id(seg) in tokidx:
                        return "t%d" % tokidx[id(seg)]
                    if not seg.segments:
                        if seg.is_meta and type(seg).__name__ in ("Indent", "Dedent", "ImplicitIndent"):
                            # inserted meta: position = index of the token it sits before
                            return "m%d" % metas(type(seg))
                        pm = seg.pos_marker
                        k = (pm.templated_slice.start, pm.templated_slice.stop, pm.source_slice.start, pm.source_slice.stop, seg.raw)
                        return "t%d" % posidx[k] if k in posidx else "raw?%r" % seg.raw
                    return "(%d %s)" % (classes.get(type(seg), 9999), " ".join(ser_real(c) for c in seg.segments))
                real = "ok" + "".join(" " + ser_real(s) for s in res)
                flat = enc_nats(mrgen.flat(ser))
                lines.append("mr.apply %d %s" % (n, flat)); meta.append(("realapply", (d, name, raw_ids), real))
                lines.append("mr.wf %d %s" % (n, flat)); meta.append(("realwf", (d, name, txt), None))
                ctx.count(("real", d, name, flat[:2000]), nontrivial=len(ser[4]) > 1,
                          sample={"dialect": d, "file": name, "root_match": [ser[0], ser[1], len(ser[4])]} if len(ctx.samples) < 6 else None)
                ctx.bump("real_root_matches")
            # Spec.C02 on the final trees: pair each tree with the token tuple its root match was applied to
            trees = [v for v in parsed.parsed_variants if v.tree is not None]
            for v in parsed.parsed_variants:
                for e in v.violations():
                    if "completeness check fail" in e.desc():
                        ctx.violation("the parser's own completeness check failed: tokens were dropped or duplicated",
                                      {"dialect": d, "file": name, "text": txt if len(txt) < 600 else txt[:600] + "...", "error": e.desc()[:200]})
            roots = [c for c in captured]
            for i, v in enumerate(trees):
                segs = roots[i][1] if i < len(roots) and len(roots) == len(trees) else None
                spec_c02(ctx, lnt, v, d, name, txt, segs)
    finally:
        MatchResult.apply = orig_apply
    return lines, meta


def spec_c02(ctx, lnt, variant, d, name, txt, segs=None):
    """Leaves of the tree (ignoring metas the parser inserted) = the lexer's tokens, same text and positions,
    each exactly once (lexer-made metas such as end_of_file and template placeholders included)."""
    def key(s):
        pm = s.pos_marker
        return (s.raw, s.is_meta, pm.templated_slice.start, pm.templated_slice.stop, pm.source_slice.start, pm.source_slice.stop)
    if segs is not None:
        ids = {id(t) for t in segs}
        want = [key(t) for t in segs]
        got = [key(s) for s in variant.tree.raw_segments if not (s.is_meta and id(s) not in ids)]
    else:
        tokens, _ = lnt._lex_templated_file(variant.templated_file, lnt.config)
        if tokens is None:
            return
        want = [key(t) for t in tokens if not t.is_meta]
        got = [key(s) for s in variant.tree.raw_segments if not s.is_meta]
    ctx.bump("spec_trees")
    if want != got:
        i = next((k for k, (a, b) in enumerate(zip(want, got)) if a != b), min(len(want), len(got)))
        ctx.violation("tree leaves differ from the lexed tokens (dropped, duplicated or reordered)",
                      {"dialect": d, "file": name, "text": txt if len(txt) < 600 else txt[:600] + "...", "first_difference_at": i,
                       "token": want[i] if i < len(want) else None, "leaf": got[i] if i < len(got) else None})
    # code outside any matched class sits in unparsable nodes / file level and is reported as PRS
    unp = list(variant.tree.recursive_crawl("unparsable"))
    nprs = [e for e in variant.violations() if e.rule_code() == "PRS"]
    if unp and not nprs:
        ctx.violation("unparsable node present but no PRS error reported", {"dialect": d, "file": name})


def run(ctx, prove=True):
    ctx.rule = ("generated match trees (70% well-formed, 30% ill-formed: overlapping/duplicated children, stray inserts) over 8 tokens "
                "through apply/append/wrap; root_parse with a stub grammar; every real root match of fixture files, their mutants and "
                "generated SQL in many dialects; non-trivial = match with children; distinct by serialised match tree")
    if prove:
        ctx.prove(["SqlfluffVerif.Props.C02"], ["Props/C02.lean"])
    ctx.assumptions += ["GrammarWF: every match result returned by a dialect's root grammar is well-formed (sampled on every real root match)",
                        "MatchStartsAtIdx: a non-empty root match starts at the first code token (sampled)"]
    ctx.partial += ["the combinator engine that produces match results is not modelled: GrammarWF is a sampled contract"]
    lines, meta = synthetic(ctx)
    l2, m2 = root_parse_corr(ctx)
    l3, m3 = real_parses(ctx)
    lines += l2 + l3; meta += m2 + m3
    outs = ctx.driver.run(lines)
    pending_wf = None
    for (kind, inp, real), out in zip(meta, outs):
        if kind == "apply":
            if out != real:
                ctx.corr_fail("MatchResult.apply", {"match": inp, "real": real, "model": out})
        elif kind == "wf":
            realres, leaves = real
            s, e = inp[0], inp[1]
            if out == "1":
                # theorem instance: WF ⇒ apply succeeds and is lossless; check it on the REAL result
                if not realres.startswith("ok"):
                    ctx.violation("apply raised on a well-formed match result", {"match": inp, "real": realres})
                elif leaves != list(range(s, e)):
                    ctx.violation("apply lost/duplicated tokens of a well-formed match result", {"match": inp, "leaves": leaves})
        elif kind in ("append", "wrap"):
            if out != real:
                ctx.corr_fail("MatchResult." + kind, {"input": inp, "real": real, "model": out})
        elif kind == "root":
            if out != real:
                ctx.corr_fail("root_parse", {"input": inp, "real": real, "model": out})
        elif kind == "rootspec":
            if out == "1":
                ctx.violation("root_parse dropped, duplicated or reordered tokens for a well-formed root match", inp)
        elif kind == "realapply":
            d, name, raw_ids = inp
            # raw classes collapse (cls tK) to tK; inserted metas lose their position in the real serialisation
            m = out
            for rid in raw_ids:
                m = re.sub(r"\(%d (t\d+)\)" % rid, r"\1", m)
            m = re.sub(r"m(\d+)@\d+", r"m\1", m)
            if m != real:
                ctx.corr_fail("MatchResult.apply on a real root match", {"dialect": d, "file": name, "real": real[:300], "model": m[:300]})
        elif kind == "realwf":
            ctx.contract("GrammarWF", out == "1", {"dialect": inp[0], "file": inp[1]})


def search(ctx):
    saved = (list(ctx.proof_broken), list(ctx.corr_broken), list(ctx.contract_fail))
    run(ctx, prove=False)
    ctx.proof_broken, ctx.corr_broken, ctx.contract_fail = saved


def replay(ctx, path):
    case = json.load(open(path))["case"]
    print(json.dumps(case, indent=1)[:3000])
    return 0
