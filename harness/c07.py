"""C07 — template source maps are consistent for every templater and variant.

Theorem: Props/C07.lean (placeholder templater, every source and every ordered disjoint match family).
Tie: Model/Placeholder.lean vs PlaceholderTemplater.process for every KNOWN_STYLES key (the key list is read
from the code on every run); the Lean predicate Slices.consistent is evaluated on every TemplatedFile of every
variant produced by the jinja, python and placeholder templaters for generated inputs.
Known finding (call site): alternate (index >= 1) jinja variants whose source slices were rewritten by
JinjaTemplater._rectify_templated_slices can map literal slices to the wrong source text.
"""
import json

from vlib import gen
from vlib.core import enc_str, enc_nats, enc_nnl, dec_nats

PROP = "C07"
TY = {"literal": 0, "templated": 1, "block_start": 2, "block_end": 3, "block_mid": 4, "comment": 5, "escaped": 6}
KEY_RECTIFY = "callsite:JinjaTemplater._rectify_templated_slices:alternate-variant-source-slices"


def enc_tf(tf):
    raws = tf.raw_sliced
    sl = []
    for t in tf.sliced_file:
        sl += [TY.get(t.slice_type, 7), t.source_slice.start, t.source_slice.stop, t.templated_slice.start, t.templated_slice.stop]
    return "slices.consistent %s %s %s %s %s %s" % (
        enc_str(tf.source_str), enc_str(tf.templated_str), enc_nats(TY.get(r.slice_type, 7) for r in raws),
        enc_nats(r.source_idx for r in raws), enc_nnl([ord(c) for c in r.raw] for r in raws), enc_nats(sl))


def neg_free(tf):
    """slices with negative/None bounds cannot be sent to the model: that alone is an in-bounds failure"""
    for t in tf.sliced_file:
        for v in (t.source_slice.start, t.source_slice.stop, t.templated_slice.start, t.templated_slice.stop):
            if v is None or v < 0:
                return False
    return True


PH_SAMPLES = {
    "colon": ["SELECT :a, :b  FROM t WHERE x = :a", "select ::int, :a", "a:b :c"],
    "colon_optional_quotes": ["SELECT :\"a\" FROM :t WHERE b = :'v' and c=:a", ":'a':\"b\" x"],
    "colon_nospaces": ["SELECT a:b, :c FROM t", "x::y:z"],
    "numeric_colon": ["SELECT :1, :2 FROM t WHERE a = :1"],
    "pyformat": ["SELECT %(a)s, %(b)s  FROM t", "%(a)s%(b)s"],
    "dollar": ["SELECT $a, ${b} FROM t WHERE x = $a", "$a$b"],
    "dollar_surround": ["SELECT $a$, $b-c$ FROM t"],
    "flyway_var": ["USE ${flyway:database}.s; SELECT ${a:b}"],
    "question_mark": ["SELECT ?, ? FROM t WHERE a = ?", "??"],
    "numeric_dollar": ["SELECT $1, ${2} FROM t WHERE a = $1"],
    "percent": ["SELECT %s, %s FROM t", "%s%s x"],
    "ampersand": ["SELECT &a, &{b} FROM {ENV}_t WHERE x = &a", "&a&b"],
}


def placeholder_cases(ctx):
    from sqlfluff.core.templaters.placeholder import KNOWN_STYLES
    rng = ctx.rng
    ctx.extra["known_styles"] = sorted(KNOWN_STYLES)
    for style in sorted(KNOWN_STYLES):
        base = PH_SAMPLES.get(style) or ["SELECT :a FROM t", "x"]
        for s in base:
            yield style, s
        for _ in range(ctx.budget(12, 300)):
            s = rng.choice(base)
            chars = list(s)
            for _ in range(rng.randint(0, 3)):
                i = rng.randrange(len(chars) + 1)
                chars.insert(i, rng.choice([" ", "\n", ":", "$", "%", "?", "&", "a", "1", "'", "{", "}", "é"]))
            yield style, "".join(chars)
        yield style, ""


def run_placeholder(ctx):
    from sqlfluff.core import FluffConfig
    from sqlfluff.core.templaters.placeholder import PlaceholderTemplater, KNOWN_STYLES
    lines, meta = [], []
    values = {"a": "col_a", "b": "'val'", "1": "one", "2": "", "t": "tbl", "flyway:database": "db"}
    for style, src in placeholder_cases(ctx):
        cfg = FluffConfig(overrides={"dialect": "ansi", "templater": "placeholder"},
                          configs={"templater": {"placeholder": dict(values, param_style=style)}})
        try:
            tf, _ = PlaceholderTemplater().process(in_str=src, fname="x", config=cfg)
        except Exception as e:
            ctx.violation("placeholder templater raised", {"style": style, "src": src, "error": "%s: %s" % (type(e).__name__, e)})
            continue
        ms = list(KNOWN_STYLES[style].finditer(src))
        mflat, names, quots = [], [], []
        for m in ms:
            gd = m.groupdict()
            mflat += [m.span()[0], m.span()[1], 1 if "param_name" in gd else 0, 1 if "quotation" in gd else 0]
            names.append([ord(c) for c in (gd.get("param_name") or "")])
            quots.append([ord(c) for c in (gd.get("quotation") or "")])
        ks = list(values.keys()) + ["param_style", "test_value"]
        vs = [str(values[k]) for k in values] + [style, "__test__"]
        lines.append("ph.process %s %s %s %s %s %s" % (enc_str(src), enc_nnl([ord(c) for c in k] for k in ks), enc_nnl([ord(c) for c in v] for v in vs),
                                                       enc_nats(mflat), enc_nnl(names), enc_nnl(quots)))
        meta.append(("ph", (style, src), tf))
        lines.append(enc_tf(tf)); meta.append(("cons", {"templater": "placeholder", "style": style, "src": src, "variant": 0}, tf))
        ctx.count(("ph", style, src), nontrivial=len(ms) > 0, sample={"style": style, "src": src, "templated": tf.templated_str} if len(ms) > 1 and len(ctx.samples) < 2 else None)
        ctx.bump("placeholder")
        # C09 statement, independently: every match replaced by its configured value or name
        exp, last, counter = [], 0, 1
        for m in ms:
            gd = m.groupdict()
            if "param_name" in gd:
                nm = gd["param_name"]
            else:
                nm = str(counter); counter += 1
            allv = dict(values, param_style=style, test_value="__test__")
            rep = str(allv[nm]) if nm in allv else nm
            q = gd.get("quotation") or ""
            exp.append(src[last:m.span()[0]] + q + rep + q); last = m.span()[1]
        exp.append(src[last:])
        if "".join(exp) != tf.templated_str:
            ctx.violation("placeholder rendering differs from parameter substitution", {"style": style, "src": src, "rendered": tf.templated_str, "expected": "".join(exp)})
    return lines, meta


def run_jinja_python(ctx):
    from sqlfluff.core import FluffConfig
    from sqlfluff.core.templaters import JinjaTemplater, PythonTemplater
    rng = ctx.rng
    lines, meta = [], []
    for k in range(ctx.budget(120, 4000)):
        tpl, jctx = gen.jinja_template(rng) if k % 3 else gen.jinja_block_template(rng)
        cfg = FluffConfig(overrides={"dialect": "ansi", "templater": "jinja"}, configs={"templater": {"jinja": {"context": jctx}}})
        try:
            variants = list(JinjaTemplater().process_with_variants(in_str=tpl, fname="x", config=cfg))
        except Exception as e:
            ctx.bump("jinja_raised:" + type(e).__name__)
            continue
        for vi, (tf, _errs) in enumerate(variants):
            if tf is None:
                continue
            case = {"templater": "jinja", "src": tpl, "context": jctx, "variant": vi}
            if not neg_free(tf):
                ctx.violation("a source or rendered slice has a negative bound", case, key=KEY_RECTIFY if vi > 0 else None)
                continue
            lines.append(enc_tf(tf)); meta.append(("cons", case, tf))
            ctx.count(("jinja", tpl, vi), nontrivial=len(tf.sliced_file) > 3,
                      sample={"src": tpl, "variant": vi, "slices": len(tf.sliced_file)} if len(ctx.samples) < 5 and vi > 0 else None)
            ctx.bump("jinja_primary" if vi == 0 else "jinja_alternate")
    pys = ["SELECT {a}  FROM {t}", "select {a},{b} from {t} where x = {n}", "{a}{b}", "SELECT '{{x}}' , {a}", "{a:>8} {n:03d}", "{s.b} {a}", "", "no fields", "{a!r}"]
    for _ in range(ctx.budget(40, 800)):
        src = rng.choice(pys) + rng.choice(["", " ", "\n", " {t}", "{{}}"])
        pctx = {"a": "col", "b": "c2", "t": "tbl", "n": 3, "s": {"b": "dotted"}}
        cfg = FluffConfig(overrides={"dialect": "ansi", "templater": "python"}, configs={"templater": {"python": {"context": pctx}}})
        try:
            tf, _ = PythonTemplater().process(in_str=src, fname="x", config=cfg)
        except Exception as e:
            ctx.bump("python_raised:" + type(e).__name__)
            continue
        if tf is None:
            continue
        case = {"templater": "python", "src": src, "context": {k: str(v) for k, v in pctx.items()}, "variant": 0}
        if not neg_free(tf):
            ctx.violation("a source or rendered slice has a negative bound", case); continue
        lines.append(enc_tf(tf)); meta.append(("cons", case, tf))
        ctx.count(("python", src), nontrivial="{" in src)
        ctx.bump("python")
    return lines, meta


def rectify_correspondence(ctx, n):
    """Model/Rectify.lean vs JinjaTemplater._rectify_templated_slices on random delta maps and slice lists (contiguous lists, lists
    that revisit earlier positions as loops do, deltas that hit or miss slice starts); includes the loop witness of Props/C07b."""
    from sqlfluff.core.templaters import JinjaTemplater
    from sqlfluff.core.templaters.base import TemplatedFileSlice
    rng = ctx.rng
    lines, meta = [], []
    cases = [({10: 2}, [(0, 10), (10, 15), (15, 20), (10, 15), (15, 20), (20, 30)])]
    for _ in range(n):
        k = rng.randint(1, 7)
        pos = rng.randint(0, 5)
        sl = []
        for i in range(k):
            ln = rng.randint(0, 6)
            sl.append((pos, pos + ln)); pos += ln
            if rng.random() < 0.2 and sl:
                pos = rng.choice(sl)[0]          # loop back
        starts = [a for a, _ in sl]
        deltas = {}
        for _j in range(rng.randint(0, 3)):
            deltas[rng.choice(starts) + rng.choice([0, 0, 0, 1, -1, 3])] = rng.choice([-3, -1, 1, 2, 5])
        cases.append((deltas, sl))
    for deltas, sl in cases:
        real = JinjaTemplater._rectify_templated_slices(dict(deltas), [TemplatedFileSlice("literal", slice(a, b), slice(0, 0)) for a, b in sl])
        realflat = [x for t in real for x in (t.source_slice.start, t.source_slice.stop)]
        ds = [x for kv in sorted(deltas.items()) for x in kv]
        lines.append("rectify %s %s" % (",".join(str(x) for x in ds) or "-", ",".join(str(x) for a, b in sl for x in (a, b)) or "-"))
        meta.append((",".join(str(x) for x in realflat) or "-", {"deltas": sorted(deltas.items()), "slices": sl}))
    outs = ctx.driver.run(lines)
    for (real, case), out in zip(meta, outs):
        ctx.count(("rectify", json.dumps(case)), nontrivial=len(case["deltas"]) > 0)
        ctx.bump("rectify_cases")
        if out.strip() != real:
            ctx.corr_fail("_rectify_templated_slices: model vs real", dict(case, model=out, real=real))


def run(ctx, prove=True):
    ctx.rule = ("placeholder: every KNOWN_STYLES key x sample SQL + character-injected variants; jinja: generated templates (if/elif/else, for, "
                "set, raw, comments, whitespace control), every rendering variant; python: format strings; non-trivial = has a parameter / > 3 slices; "
                "distinct by (templater, source, variant)")
    if prove:
        ctx.prove(["SqlfluffVerif.Props.C07", "SqlfluffVerif.Props.C07b"], ["Props/C07.lean", "Props/C07b.lean"])
    ctx.assumptions += ["regex.finditer yields ordered disjoint spans inside the string (spansOK; checked by Lean on every real match list)"]
    ctx.partial += ["jinja and python templaters are not modelled: their output is checked by the Lean predicate, not proved",
                    "alternate jinja variants: literal/in-bounds failures are attributed to _rectify_templated_slices (known finding)"]
    rectify_correspondence(ctx, ctx.budget(600, 20000))
    l1, m1 = run_placeholder(ctx)
    l2, m2 = run_jinja_python(ctx)
    outs = ctx.driver.run(l1 + l2)
    for (kind, case, tf), out in zip(m1 + m2, outs):
        if kind == "ph":
            t = out.split(" ")
            ctx.contract("SpansOK", t[0] == "1", {"style": case[0], "src": case[1]})
            model_t = "".join(chr(x) for x in dec_nats(t[1]))
            msl = dec_nats(t[2])
            rsl = []
            for s in tf.sliced_file:
                rsl += [TY.get(s.slice_type, 7), s.source_slice.start, s.source_slice.stop, s.templated_slice.start, s.templated_slice.stop]
            mraws = (dec_nats(t[3]), dec_nats(t[4]), [] if t[5] == "~" else ["".join(chr(x) for x in dec_nats(r)) for r in t[5].split(";")])
            rraws = ([TY.get(r.slice_type, 7) for r in tf.raw_sliced], [r.source_idx for r in tf.raw_sliced], [r.raw for r in tf.raw_sliced])
            if model_t != tf.templated_str or msl != rsl or mraws != rraws:
                ctx.corr_fail("PlaceholderTemplater.process", {"style": case[0], "src": case[1], "real": [tf.templated_str, rsl], "model": [model_t, msl]})
        else:
            v = out.split(" ")
            names = ["rawTiles", "tmplTiles", "inBounds", "literals"]
            for n, x in zip(names, v):
                if x == "1":
                    continue
                what = {"rawTiles": "raw slices do not tile the source in order with matching text",
                        "tmplTiles": "rendered slices do not tile the rendered SQL in order",
                        "inBounds": "a source slice lies outside the file",
                        "literals": "a literal slice that renders text maps to different text in the source"}[n]
                key = KEY_RECTIFY if (case.get("templater") == "jinja" and case["variant"] > 0 and n in ("inBounds", "literals")) else None
                ctx.violation(what, case, key=key)


def search(ctx):
    saved = (list(ctx.proof_broken), list(ctx.corr_broken), list(ctx.contract_fail))
    run(ctx, prove=False)
    ctx.proof_broken, ctx.corr_broken, ctx.contract_fail = saved


def replay(ctx, path):
    case = json.load(open(path))["case"]
    print(json.dumps(case, indent=1)[:2000])
    return 0
