"""C11 — fixing preserves all untouched text byte-for-byte.

Theorems: Props/C11.lean (every source range no applied patch touches is present verbatim and in order in
`fixString`; no patches = identity) on top of C30's splice theorem.

Tie: (a) patch buffers captured from the real fix of every generated file go through the Lean `fixString`, compared with
the real `fix_string` text; (b) byte-level oracle built without sqlfluff: files are assembled line by line from clean
lines (comments/strings with non-ASCII and undecodable bytes, in several encodings, with/without BOM, LF/CRLF/CR) and
spacing-violation lines whose fixed form is known; `sqlfluff fix` on the path (rules = LT01) must produce, after newline
normalisation, exactly the clean lines unchanged and the violation lines fixed; a file without violations must not be
rewritten (same inode, mtime, bytes); the API `sqlfluff.fix` must give the same text.
Undecodable bytes are read with errors='backslashreplace' and written back as escape text: known finding keyed by that call site.
"""
import json
import os
import shutil
import sys
import tempfile

from vlib.core import enc_nats, enc_str, dec_str

PROP = "C11"

BAD_LINE = (b"SELECT a  FROM t;", b"SELECT a FROM t;")
BAD2 = (b"SELECT a FROM t WHERE a  = 1;", b"SELECT a FROM t WHERE a = 1;")
BAD3 = (b"SELECT a,b FROM t;", b"SELECT a, b FROM t;")


def clean_lines(enc, rng):
    """Lines LT01 has nothing to say about, in bytes valid for `enc` (plus, separately, undecodable ones)."""
    txt = ["-- café naïve über", "SELECT 'héllo' AS s FROM t;", "-- plain ascii comment", "SELECT a FROM t;",
           "/* block © */", "SELECT '  two  spaces  ' AS s FROM t;", "--\ttab\tcomment", ""]
    if enc.replace("-", "").lower() in ("utf8", "utf8sig", "utf16", "utf32"):
        txt += ["-- 中文 \U0001F600 emoji", "SELECT 'αβ' AS g FROM t;"]
    out = []
    for t in txt:
        try:
            out.append(t.encode("utf-8" if enc == "utf-8-sig" else ("utf-16-le" if enc == "utf-16" else enc)))
        except UnicodeEncodeError:
            pass
    return out


def build_case(rng):
    enc = rng.choice(["utf-8", "utf-8", "utf-8-sig", "latin-1", "cp1252", "ascii", "utf-16"])
    cfg_enc = rng.choice([enc, enc, "autodetect"]) if enc in ("utf-8-sig", "utf-16", "ascii") else enc
    nl = rng.choice([b"\n", b"\n", b"\r\n", b"\r"])
    cl = clean_lines(enc, rng)
    if enc == "ascii":
        cl = [c for c in cl if all(b < 128 for b in c)]
    lines, expect = [], []
    has_bad = rng.random() < 0.7
    undecodable = enc in ("utf-8", "ascii") and rng.random() < 0.25
    for _ in range(rng.randint(2, 7)):
        c = rng.choice(cl)
        lines.append(c); expect.append(c)
    if undecodable:
        u = rng.choice([b"-- bad byte \xff here", b"SELECT '\xfe\xff' AS s FROM t;", b"-- trunc \xe2\x82"])
        k = rng.randrange(len(lines) + 1)
        lines.insert(k, u); expect.insert(k, u)
    if has_bad:
        for _ in range(rng.randint(1, 2)):
            b, f = rng.choice([BAD_LINE, BAD2, BAD3])
            k = rng.randrange(len(lines) + 1)
            lines.insert(k, b); expect.insert(k, f)
    if enc == "utf-16":
        conv = lambda bs: bs.decode("utf-8").encode("utf-16-le") if bs in (BAD_LINE + BAD2 + BAD3) else bs
        lines = [conv(x) for x in lines]; expect = [conv(x) for x in expect]
        nlb = nl.decode().encode("utf-16-le")
        bom = b"\xff\xfe"
    else:
        nlb = nl
        bom = b"\xef\xbb\xbf" if enc == "utf-8-sig" else b""
    data = bom + nlb.join(lines) + nlb
    exp = bom + nlb.join(expect) + nlb
    templated = False
    if enc in ("utf-8", "latin-1", "cp1252", "ascii") and nl == b"\n" and rng.random() < 0.4:
        # template code next to the places where whitespace fixes act: inline tags / comments directly before surplus
        # trailing blanks and surplus blank lines at the end of the file; all of it must survive byte for byte
        templated = True
        tag_lines = [b"SELECT a FROM t {% if true %}WHERE a > 1{% endif %};", b"SELECT a FROM t WHERE a = 1;{# keep me #}", b"{# a comment line #}",
                     b"SELECT {{ 1 }} AS one FROM t;"]
        k = rng.randrange(len(lines) + 1)
        tl = rng.choice(tag_lines)
        lines.insert(k, tl); expect.insert(k, tl)
        last = rng.choice([b"SELECT a FROM t {% if true %}WHERE a > 1{% endif %}", b"SELECT a FROM t WHERE a = 1{# keep me #}"])
        surplus = rng.choice([b"   ", b"", b" "])
        extra_nl = rng.choice([b"", b"\n", b"\n\n"])
        data = bom + nlb.join(lines) + nlb + last + surplus + b"\n" + extra_nl
        exp = bom + nlb.join(expect) + nlb + last + b"\n"
        has_bad = has_bad or bool(surplus) or bool(extra_nl)
    return {"enc": enc, "cfg_enc": cfg_enc, "nl": nl.decode(), "data": data, "expect": exp, "has_bad": has_bad, "undecodable": undecodable, "templated": templated}


def canon_tpl(b):
    """Templated cases: whether sqlfluff dares to delete the surplus blanks next to a tag is its choice (it may skip the
    patch as uncertain); what must hold is that nothing but trailing blanks / trailing blank lines differs."""
    lines = [l.rstrip(b" \t") for l in b.replace(b"\r\n", b"\n").split(b"\n")]
    while lines and lines[-1] == b"":
        lines.pop()
    return b"\n".join(lines)


def norm_nl(b, enc):
    if enc == "utf-16":
        t = b.decode("utf-16", "surrogatepass")
        return t.replace("\r\n", "\n").replace("\r", "\n").encode("utf-16-le")
    return b.replace(b"\r\n", b"\n").replace(b"\r", b"\n")


def run(ctx, prove=True):
    import sqlfluff
    import sqlfluff.core.linter.linter as lm
    from click.testing import CliRunner
    from sqlfluff.cli.commands import fix
    ctx.rule = ("files assembled from clean lines and spacing-violation lines x encodings (utf-8, utf-8-sig, latin-1, cp1252, ascii, utf-16; configured or autodetected) x "
                "newline styles x undecodable bytes; `sqlfluff fix` on the path and sqlfluff.fix on the text; patch buffers of each real fix through the Lean fixString; "
                "non-trivial = file has a violation; distinct by file bytes + configured encoding")
    if prove:
        ctx.prove(["SqlfluffVerif.Props.C11"], ["Props/C11.lean"])
    ctx.partial += ["codecs, newline normalisation and the error handler for undecodable bytes are outside the model (byte-level differential runs only)"]
    rng = ctx.rng
    d = tempfile.mkdtemp(prefix="verif_c11_")
    captured = []
    orig_merge = lm.merge_source_patches
    def spy(bufs):
        captured.append([list(b) for b in bufs]); return orig_merge(bufs)
    lines, meta = [], []
    try:
        for i in range(ctx.budget(60, 1500)):
            case = build_case(rng)
            p = os.path.join(d, "f%d.sql" % i)
            open(p, "wb").write(case["data"])
            cfgp = os.path.join(d, "cfg%d.ini" % i)
            open(cfgp, "w").write("[sqlfluff]\ndialect = ansi\nrules = %s\ntemplater = %s\nencoding = %s\n" % (
                "LT01,LT12" if case["templated"] else "LT01", "jinja" if case["templated"] else "raw", case["cfg_enc"]))
            st0 = os.stat(p)
            captured.clear()
            lm.merge_source_patches = spy
            try:
                r = CliRunner().invoke(fix, [p, "--config", cfgp, "--ignore-local-config", "--disable-progress-bar"])
            finally:
                lm.merge_source_patches = orig_merge
            st1 = os.stat(p)
            out = open(p, "rb").read()
            info = {k: (v.hex() if isinstance(v, bytes) else v) for k, v in case.items()}
            info["cli_exit"] = r.exit_code
            ctx.count((case["data"], case["cfg_enc"]), nontrivial=case["has_bad"], sample={k: info[k] for k in ("enc", "cfg_enc", "nl", "has_bad", "undecodable", "templated")} if len(ctx.samples) < 5 and case["has_bad"] else None)
            ctx.bump("templated" if case["templated"] else "untemplated"); ctx.bump("enc_" + case["enc"]); ctx.bump("nl_" + repr(case["nl"])); ctx.bump("undecodable" if case["undecodable"] else "decodable")
            if r.exception is not None and not isinstance(r.exception, SystemExit):
                ctx.bump("cli_raised"); continue
            if not case["has_bad"]:
                ctx.bump("no_violation_files")
                if out != case["data"] or (st1.st_ino, st1.st_mtime_ns) != (st0.st_ino, st0.st_mtime_ns):
                    ctx.violation("a file with no applicable fixes was rewritten", dict(info, out=out.hex()))
                continue
            ctx.bump("fixed_files")
            if case["templated"]:
                if canon_tpl(out) != canon_tpl(case["expect"]):
                    key = None
                    if case["undecodable"]:
                        esc = case["expect"].decode("utf-8" if case["enc"] != "ascii" else "ascii", "backslashreplace").encode("utf-8")
                        if canon_tpl(out) == canon_tpl(esc):
                            key = "callsite:load_raw_file_and_config:backslashreplace"
                    ctx.violation("after newline normalisation the fixed file differs from the input outside the fixed ranges (template code next to a whitespace fix)", dict(info, out=out.hex()), key=key)
            elif norm_nl(out, case["enc"]) != norm_nl(case["expect"], case["enc"]):
                key = None
                if case["undecodable"]:
                    # is the only damage the escape text for the undecodable bytes?
                    esc = case["expect"].decode("utf-8" if case["enc"] != "ascii" else "ascii", "backslashreplace").encode("utf-8")
                    if norm_nl(out, case["enc"]) == norm_nl(esc, case["enc"]):
                        key = "callsite:load_raw_file_and_config:backslashreplace"
                ctx.violation("after newline normalisation the fixed file differs from the input outside the fixed ranges", dict(info, out=out.hex()), key=key)
            # the same text through the API
            try:
                text = case["data"].decode(case["enc"]) if not case["undecodable"] else None
            except Exception:
                text = None
            if text is not None:
                api = sqlfluff.fix(text, dialect="ansi", rules=["LT01", "LT12"] if case["templated"] else ["LT01"])
                exp_text = case["expect"].decode(case["enc"])
                n = lambda s: s.replace("\r\n", "\n").replace("\r", "\n")
                ctx.bump("api_runs")
                if case["templated"]:
                    if canon_tpl(api.encode("utf-8")) != canon_tpl(exp_text.encode("utf-8")):
                        ctx.violation("sqlfluff.fix changes text outside the fixed ranges (template code next to a whitespace fix)", dict(info, api=api))
                elif n(api.lstrip("﻿")) != n(exp_text.lstrip("﻿")):
                    ctx.violation("sqlfluff.fix changes text outside the fixed ranges", dict(info, api=api))
            # model tie on the captured buffers
            for bufs in captured[:1]:
                if text is None:
                    continue
                src = n(text)
                flat = [(int(p_.source_slice.start), int(p_.source_slice.stop), p_.fixed_raw, 0) for b in bufs for p_ in b]
                from c30 import enc_patches
                lines.append("patch.fix %s %s %s - -" % (enc_str(src), enc_nats(len(b) for b in bufs), enc_patches(flat)))
                meta.append((info, n(out.decode(case["enc"], "replace"))))
    finally:
        lm.merge_source_patches = orig_merge
        shutil.rmtree(d, ignore_errors=True)
        if hasattr(sys, "tracebacklimit"):
            del sys.tracebacklimit
    outs = ctx.driver.run(lines) if lines else []
    for (info, real), o in zip(meta, outs):
        ctx.bump("model_fixstring_runs")
        if dec_str(o).lstrip("﻿") != real.lstrip("﻿"):
            ctx.corr_fail("Lean fixString on captured patch buffers vs the file written by fix", dict(info, model=dec_str(o)[:300], real=real[:300]))


def search(ctx):
    saved = (list(ctx.proof_broken), list(ctx.corr_broken), list(ctx.contract_fail))
    run(ctx, prove=False)
    ctx.proof_broken, ctx.corr_broken, ctx.contract_fail = saved


def replay(ctx, path):
    case = json.load(open(path))["case"]
    print(json.dumps(case, indent=1)[:3000])
    return 0
